"""
C37 The keyboard buffer is a 15-key FIFO mirrored in BIOS memory.

Oracle: reference model R-KBD (vf.models.c37_rkbd) run in lock-step with the real interpreter
over histories of key presses (KEYB_DOWN signals on queues.inputs - the real path, subject to the
15-key limit), INKEY$ / INPUT / INPUT$ reads, the documented clearing POKE and PEEK inspections
of 0:041A..0:043D. Histories run both as direct statements and as stored programs in which the
key bursts arrive at chosen statement boundaries (M-STEP).
"""
import random
import re

from ..models import c37_rkbd as rk

META = {
    'property_id': 'C37',
    'technique': 'reference-model monitor (15-deep FIFO + 16-slot BIOS ring) in lock-step over generated key/read/POKE/PEEK histories',
    'level': 'exploration',
    'level_text': (
        'Runtime oracle: every INKEY$, INPUT and INPUT$ result and every PEEK of the pointer words and of the '
        'slots between head and tail is compared with an independent FIFO/ring model fed the same history. '
        'Directed core (both tiers, seed-independent): the D12 reproducer (5 keys, read 1, clearing POKE); the '
        'clearing POKE at every (ring position, fill level) pair (16 x 16, exhaustive); POKEs moving the head forward / the tail '
        'back by every k inside the waiting range at 4 ring positions x 4 fill levels; bursts of 14..18 keys at '
        'every ring position. Random histories: bursts of 1-25 keys, reads, clears, pointer peeks and full '
        'sweeps, half as direct statements and half as stored programs with keys delivered at statement '
        'boundaries.'),
    'level_note': (
        'Trusted: the harness key path (KEYB_DOWN on queues.inputs), Python cp437 codec for the expected byte of '
        'non-ASCII keys. Not pinned by the statement and therefore not checked: the scan-code byte of a slot, the '
        'content of slots outside head..tail (pcbasic writes a CR there when full), the full-buffer beep (only '
        'counted), where in the ring an empty buffer starts (adopted from the first observation, then tracked with '
        'ring arithmetic), the low byte of an extended key (0 or 0xE0 accepted). INPUT is only issued when an Enter '
        'is waiting behind plain alphanumerics; INPUT$(n) only when the next n items to be delivered are single characters; soft keys F1..F10 are in the key stream '
        'under default, empty, 1..15-character and CR-containing KEY n texts (a key is never redefined while it waits and the '
        'pointers are never POKEd while a text is partly read; F11/F12 are not generated); stored-program histories with KEY traps (predefined KEY(1..14) and user-defined '
        'KEY 15..20 with every shift-state mask) that have a handler line and are ON: the key events carry scan codes and '
        'Shift/Ctrl/Alt modifiers, exactly the trapped combination must be missing from the buffer (some of these programs end with traps still enabled - by END, STOP, an '
        'untrapped error, Ctrl+Break or running off the end -, keys including the trapped ones are then typed in direct mode '
        'and must all reach the buffer, and the program is CONTinued or RUN again with trapping as before; traps without ON KEY GOSUB '
        'line, KEY(n) STOP and redefinition of an enabled trap are not generated); Ctrl+C/Break/Pause keys and POKEs that move a pointer outside the waiting range (or to an odd / non-slot value) are not generated. After the '
        'first divergence a history is abandoned (the model and the interpreter no longer share a state).'),
    'rule': ('case = one history (list of key-burst / read / INPUT / INPUT$ / clear / peek operations, run mode); distinct by '
             'that list; non-trivial = at least one keystroke was read back or inspected through PEEK'),
    'design_ref': 'DESIGN.md section 4 C37',
    'assumptions': ['events reach the engine only at EventQueues.check_events (one per statement)',
                    'default codepage 437'],
    'exhaustive': {
        'quick': 'directed core only: clearing POKE at all 16 ring positions x all 16 fill levels (0..15), bursts of 14..18 keys at all 16 ring positions; histories are sampled',
        'thorough': 'directed core only: clearing POKE at all 16 ring positions x all 16 fill levels (0..15), bursts of 14..18 keys at all 16 ring positions; histories are sampled'},
    'require_counters': {'any': ['idle_key_events_matching_an_enabled_trap', 'programs_continued_after_idle_keys',
                                 'programs_rerun_after_idle_keys', 'key_events_swallowed_by_trap', 'same_key_other_shift_state_passed_trap', 'soft_keys_delivered_as_text', 'soft_keys_with_empty_text_delivered_as_key', 'keys_dropped_at_full', 'ring_wraps', 'clear_pokes_nonempty', 'partial_pokes_leaving_keys_waiting', 'peek_sweeps',
                                 'reads_nonempty', 'reads_empty']},
    'timeout': {'quick': 900, 'thorough': 7200},
}

CLEAR_KEY = 'kbd:clear-poke-leaves-keys'
PARTIAL_KEY = 'kbd:partial-pointer-poke-disagrees-with-reads'


def poke_stmt(which, k):
    """POKE moving the head forward by k slots / the tail back by k slots, in ring arithmetic."""
    if which == 'h':
        return b'POKE 1050,30+(((PEEK(1050)-30)\\2+%d) MOD 16)*2' % k
    return b'POKE 1052,30+(((PEEK(1052)-30)\\2+%d) MOD 16)*2' % (16 - k)

# ---------------------------------------------------------------------------------------
# keystrokes: [unicode char sequence, scancode or None]; expected byte string by cp437

PLAIN = u'abcdefghijklmnopqrstuvwxyzABCDEFGHIJKLMNOPQRSTUVWXYZ0123456789'
PUNCT = u' !"#$%&\'()*+,-./:;<=>?@[\\]^_`{|}~'
CTRL = u'\x08\t\x1b\x07\x0a'
HIGH = u'\xe9\xfc\xf1\xe4\xa3'


def _ext_keys():
    from .. import harness
    sc = harness.scancode
    return [[u'\0H', sc.UP], [u'\0K', sc.LEFT], [u'\0M', sc.RIGHT], [u'\0P', sc.DOWN],
            [u'\0G', sc.HOME], [u'\0O', sc.END], [u'\0I', sc.PAGEUP], [u'\0Q', sc.PAGEDOWN]]


MODSCAN = {'S': 0x2a, 'C': 0x1d, 'A': 0x38}
LETTERS = {u'a': 0x1e, u's': 0x1f, u'd': 0x20, u'q': 0x10, u'z': 0x2c, u'b': 0x30}
CURSOR = [[u'\0H', 0x48], [u'\0K', 0x4b], [u'\0M', 0x4d], [u'\0P', 0x50]]


def letter_event(ch, mods):
    """Key-down event of a letter key under a shift state: [characters, scan code, modifiers]."""
    scan = LETTERS[ch]
    if 'A' in mods:
        c = u'\0' + chr(scan)
    elif 'C' in mods:
        c = chr(ord(ch) - 96)
    elif 'S' in mods:
        c = ch.upper()
    else:
        c = ch
    return [c, scan, mods]


def mk_event(h, k):
    mods = [MODSCAN[m] if m != 'S' else (0x2a if (k[1] or 0) % 2 else 0x36) for m in (k[2] if len(k) > 2 else '')]
    return h.key_event(k[0], k[1], mods)


def gen_trap_history(rng, ext, idle=False):
    """Program-mode history with KEY traps defined and enabled while keys of every shift state arrive.
    idle=True: the program ends with traps still enabled, keys arrive in direct mode, then CONT / RUN."""
    m = rk.Kbd()
    tr = rk.KeyTraps()
    ops = []
    ntr = rng.randint(1, 3)
    nums = rng.sample(list(range(1, 15)), rng.randint(0, min(2, ntr))) if rng.random() < 0.6 else []
    user = rng.sample(list(range(15, 21)), max(1, ntr - len(nums)))
    letters = sorted(LETTERS)
    combos = set()
    for n in user:
        while True:
            # no two traps for the same key and shift state (which of them would take the key is not pinned)
            flags = rng.choice([0, 1, 2, 3, 4, 8, 4 | 8, 3 | 4, 4, 0])
            scan = LETTERS[rng.choice(letters)]
            if ((flags | 3 if flags & 3 else flags), scan) not in combos:
                combos.add(((flags | 3 if flags & 3 else flags), scan))
                break
        tr.define(n, flags, scan)
        ops.append(['kd', n, flags, scan])
    for n in nums + user:
        tr.handler.add(n)
        ops.append(['kg', n])
    for n in nums + user:
        if rng.random() < 0.85:
            tr.on.add(n)
            ops.append(['ko', n, 'ON'])

    def ev():
        r = rng.random()
        if r < 0.6:
            return letter_event(rng.choice(letters), rng.choice(['', '', 'S', 'C', 'A', 'CA', 'SC']))
        if r < 0.75:
            k = list(rng.choice(_fkeys() + CURSOR))
            return k + [rng.choice(['', '', 'S', 'C'])]
        return gen_key(rng, ext) + ['']

    def phase(out, nops, active, toggles=True):
        for _ in range(nops):
            r = rng.random()
            if r < 0.4 or not out or out[-1][0] in ('kd', 'kg', 'ko'):
                keys = [ev() for _ in range(rng.randint(1, 8))]
                if not active and tr.on and rng.random() < 0.7:
                    # the key of an enabled trap, typed while no program runs
                    n = rng.choice(sorted(tr.on))
                    if n in tr.user:
                        fl, sc = tr.user[n]
                        ch = [c for c, v in LETTERS.items() if v == sc][0]
                        keys.insert(rng.randint(0, len(keys)), letter_event(ch, ('S' if fl & 3 else '') + ('C' if fl & 4 else '') + ('A' if fl & 8 else '')))
                    else:
                        keys.insert(rng.randint(0, len(keys)), list((_fkeys() + CURSOR)[n - 1]) + [''])
                for k in keys:
                    if not (active and tr.swallows(k)):
                        m.key(key_bytes(k))
                out.append(['k', keys])
            elif r < 0.7:
                n = rng.randint(1, 5)
                for _ in range(n):
                    m.read()
                n += len(m.expansion)
                while m.expansion:
                    m.read()
                out.append(['r', n])
            elif r < 0.8 and toggles:
                n = rng.choice(nums + user)
                if n in tr.on:
                    tr.on.discard(n)
                    out.append(['ko', n, 'OFF'])
                else:
                    tr.on.add(n)
                    out.append(['ko', n, 'ON'])
            else:
                out.append(['p', rng.choice([0, 1])])

    if not idle:
        phase(ops, rng.randint(8, 30), True)
        ops.append(['p', 1])
        ops.append(['r', len(m.stream()) + 2])
        ops.append(['p', 0])
        return ops
    # a program that leaves traps enabled ends; keys are typed while BASIC is idle; the program is continued / run again
    phase(ops, rng.randint(3, 10), True)
    if not tr.on:
        n = rng.choice(nums + user)
        tr.on.add(n)
        ops.append(['ko', n, 'ON'])
    kind = rng.choice(['END', 'STOP', 'error', 'break', 'off-end'])
    idle_ops = []
    for _ in range(rng.randint(2, 5)):
        # BASIC is idle: key events are taken in by INKEY$ evaluated at the prompt, so a read follows every burst
        phase(idle_ops, 1, False, toggles=False)
        if idle_ops[-1][0] != 'k':
            continue
        n = rng.randint(1, 4)
        for _ in range(n):
            m.read()
        n += len(m.expansion)
        while m.expansion:
            m.read()
        idle_ops.append(['r', n])
        if rng.random() < 0.6:
            idle_ops.append(['p', rng.choice([0, 1])])
    then = rng.choice(['cont', 'cont', 'rerun']) if kind in ('END', 'STOP', 'break') else 'rerun'
    ops.append(['end', kind, idle_ops, then])
    if then == 'cont':
        phase(ops, rng.randint(3, 9), True)
        ops.append(['p', 1])
        ops.append(['r', 3])
    return ops


def _fkeys():
    """F1..F10 as [eascii, scancode]."""
    return [[u'\0' + chr(0x3a + n), 0x3a + n] for n in range(1, 11)]


MACRO_CHARS = u'abcXYZ019 ,:"'.replace(u'"', u'') + u'\r'


def macro_stmt(n, text):
    """KEY n,<string expression for text> (text: str of printable characters and CR)."""
    parts, cur = [], u''
    for ch in text:
        if ch == u'\r':
            if cur:
                parts.append(u'"%s"' % cur)
                cur = u''
            parts.append(u'CHR$(13)')
        else:
            cur += ch
    if cur or not parts:
        parts.append(u'"%s"' % cur)
    return (u'KEY %d,%s' % (n, u'+'.join(parts))).encode('ascii')


def gen_macro(rng):
    ln = rng.choice([0, 0, 0, 1, 2, 3, 5, 15, rng.randint(1, 15)])
    return u''.join(rng.choice(MACRO_CHARS) for _ in range(ln))


def key_bytes(k):
    """The byte string INKEY$ must return for keystroke k = [chars, scan]."""
    c = k[0]
    if c[0] == u'\0':
        return c.encode('latin-1')
    return c.encode('cp437')


def gen_key(rng, ext, input_safe=False, fkey=0.0):
    if not input_safe and fkey and rng.random() < fkey:
        return list(rng.choice(_fkeys()))
    r = rng.random()
    if input_safe or r < 0.55:
        return [rng.choice(PLAIN), None]
    if r < 0.68:
        return [rng.choice(PUNCT), None]
    if r < 0.76:
        return [u'\r', 28]
    if r < 0.82:
        return [rng.choice(CTRL), None]
    if r < 0.88:
        return [rng.choice(HIGH), None]
    return list(rng.choice(ext))


def gen_history(rng, ext, with_clear):
    """A history as a list of JSON-able ops, generated against a private model for feasibility."""
    m = rk.Kbd()
    ops = []
    style = rng.choice(['mixed', 'mixed', 'full', 'trickle', 'line', 'softkeys', 'softkeys'])
    fk = 0.3 if style == 'softkeys' else (0.03 if style in ('mixed', 'full') else 0.0)
    n_ops = rng.randint(8, 45)

    def drain():
        # never leave a soft-key text partly read before something other than a read happens
        if m.expansion:
            n = len(m.expansion)
            for _ in range(n):
                m.read()
            ops.append(['r', n])

    for _ in range(n_ops):
        r = rng.random()
        waiting = len(m.fifo)
        if style == 'softkeys' and rng.random() < 0.18 and not m.expansion and not any(rk.fkey_number(k) for k in m.fifo):
            # (re)define a soft key while none is waiting
            n, text = rng.randint(1, 10), gen_macro(rng)
            m.set_macro(n, text.encode('ascii'))
            ops.append(['m', n, text])
            continue
        if r < 0.34 or not ops:
            if style == 'full':
                n = rng.choice([14, 15, 16, 17, 20, 25, rng.randint(1, 25)])
            elif style == 'trickle':
                n = rng.randint(1, 4)
            else:
                n = rng.randint(1, 25) if rng.random() < 0.3 else rng.randint(1, 9)
            if style == 'line' and rng.random() < 0.7:
                keys = [gen_key(rng, ext, True) for _ in range(rng.randint(0, 6))] + [[u'\r', 28]]
            else:
                keys = [gen_key(rng, ext, fkey=fk) for _ in range(n)]
            for k in keys:
                m.key(key_bytes(k))
            ops.append(['k', keys])
        elif r < 0.62:
            if style == 'full' and rng.random() < 0.3:
                n = rng.randint(10, 18)
            else:
                n = rng.randint(1, 5)
            for _ in range(n):
                m.read()
            ops.append(['r', n])
            drain()
        elif r < 0.70:
            st = m.stream()
            if m.can_input():
                m.read_line()
                ops.append(['i'])
            elif st and len(st[0]) == 1:
                n = 1
                while n < len(st) and len(st[n]) == 1 and rng.random() < 0.6:
                    n += 1
                m.read_n(n)
                ops.append(['n', n])
                drain()
        elif r < 0.80 and with_clear and waiting and rng.random() < 0.45:
            # partial skip: head forward / tail back within the waiting range
            k = rng.randint(0, waiting)
            if rng.random() < 0.5:
                m.skip_head(k)
                ops.append(['h', k])
            else:
                m.pull_tail(k)
                ops.append(['t', k])
        elif r < 0.80 and with_clear:
            m.clear()
            ops.append(['c'])
            if rng.random() < 0.6:
                n = rng.randint(1, 3)
                ops.append(['r', n])
        elif r < 0.93:
            ops.append(['p', 0])
        else:
            ops.append(['p', 1])
    # finish by reading everything back and looking at the ring
    ops.append(['p', 1])
    ops.append(['r', len(m.stream()) + 2])
    ops.append(['p', 0])
    return ops


# ---------------------------------------------------------------------------------------
# running a history against the interpreter

def _trap_action(traps, act):
    if act[0] == 'kd':
        traps.define(act[1], act[2], act[3])
    elif act[0] == 'kg':
        traps.handler.add(act[1])
    elif act[0] == 'ko':
        (traps.on.add if act[2] == 'ON' else traps.on.discard)(act[1])


class Divergence(Exception):
    def __init__(self, kind, text):
        Exception.__init__(self, text)
        self.kind = kind
        self.text = text


class Runner(object):

    def __init__(self, res):
        from .. import harness
        self.h = harness
        self.res = res
        self.ext = _ext_keys()

    # -- counters shared by both modes ----------------------------------------------------
    def _deliver(self, m, keys):
        res = self.res
        for k in keys:
            before = len(m.fifo)
            if m.key(key_bytes(k)):
                res.count('keys_stored')
                if before == rk.CAPACITY - 1:
                    res.count('buffer_filled_to_15')
            else:
                res.count('keys_dropped_at_full')

    def _cmp_read(self, m, got, what):
        exp = m.read()
        if got == exp:
            self.res.count('reads_nonempty' if exp else 'reads_empty')
            return
        if exp == b'' and got:
            raise Divergence('read-from-empty-buffer', '%s returned %r although no keystroke is waiting' % (what, got))
        if got == b'':
            raise Divergence('waiting-key-lost', '%s returned "" although %r is waiting (%d waiting)' % (what, exp, len(m.fifo) + 1))
        raise Divergence('wrong-key-order', '%s returned %r, oldest waiting keystroke is %r' % (what, got, exp))

    def _partial(self, m, which, k):
        if which == 'h':
            m.skip_head(k)
        else:
            m.pull_tail(k)
        m.last_poke = 'partial'
        self.res.count('partial_pointer_pokes')
        if 0 < k and m.fifo:
            self.res.count('partial_pokes_leaving_keys_waiting')

    def _cmp_view(self, m, mem, full):
        wraps = m.wraps
        bad = m.check_view(mem)
        if bad:
            raise Divergence('ring-' + bad[0][0], 'PEEK view: ' + '; '.join(t for _, t in bad))
        self.res.count('peek_sweeps' if full else 'peek_pointers')
        if m.fifo:
            self.res.count('views_with_waiting_keys')
        if m.tail is not None and m.head is not None and m.tail < m.head:
            self.res.count('views_wrapped_head_above_tail')

    # -- direct mode ------------------------------------------------------------------------
    def run_direct(self, ops, m):
        """Each op is one or a few direct statements. Raises Divergence."""
        h = self.h
        with h.Box(budget=2000) as box:
            _, audio = h.record_queues(box.s, video=False)
            q = box.impl.queues.inputs
            box.ex(b'DEF SEG=0')
            try:
                for op in ops:
                    self._direct_op(box, q, op, m)
            finally:
                self._count_beeps(audio)

    def _count_beeps(self, audio):
        n = sum(1 for e in audio.log if e.event_type == self.h.signals.AUDIO_TONE and e.params[1] == 800)
        if n:
            self.res.count('full_buffer_beeps_logged', n)

    def _direct_op(self, box, q, op, m):
        h = self.h
        c = op[0]
        if c == 'k':
            for k in op[1]:
                q.put(mk_event(h, k))
            self._deliver(m, op[1])
        elif c == 'r':
            for _ in range(op[1]):
                out = box.ex(b'A$=INKEY$')
                if h.err_of(out)[0]:
                    raise Divergence('statement-error', 'A$=INKEY$ -> %r' % out)
                self._cmp_read(m, box.get('A$'), 'INKEY$')
        elif c == 'i':
            exp = m.read_line()
            out = box.ex(b'INPUT A$')
            if h.err_of(out)[0] or box.stepper.break_hit:
                raise Divergence('input-blocked', 'INPUT A$ did not complete (%r) although an Enter is waiting; expected %r' % (out[-40:], exp))
            got = box.get('A$')
            if got != exp:
                raise Divergence('input-line', 'INPUT A$ gave %r, keystrokes typed before Enter are %r' % (got, exp))
            self.res.count('input_reads')
        elif c == 'n':
            exp = m.read_n(op[1])
            out = box.ex(b'A$=INPUT$(%d)' % op[1])
            if h.err_of(out)[0] or box.stepper.break_hit:
                raise Divergence('input-blocked', 'INPUT$(%d) did not complete (%r); expected %r' % (op[1], out[-40:], exp))
            got = box.get('A$')
            if got != exp:
                raise Divergence('wrong-key-order', 'INPUT$(%d) gave %r, the oldest waiting keystrokes are %r' % (op[1], got, exp))
            self.res.count('inputstr_reads')
        elif c == 'c':
            out = box.ex(b'POKE 1050,PEEK(1052)')
            if h.err_of(out)[0]:
                raise Divergence('statement-error', 'POKE 1050,PEEK(1052) -> %r' % out)
            n = m.clear()
            self.res.count('clear_pokes')
            if n:
                self.res.count('clear_pokes_nonempty')
            m.cleared = True
            m.last_poke = 'clear'
        elif c == 'm':
            out = box.ex(macro_stmt(op[1], op[2]))
            if h.err_of(out)[0]:
                raise Divergence('statement-error', '%s -> %r' % (macro_stmt(op[1], op[2]), out))
            m.set_macro(op[1], op[2].encode('ascii'))
            self.res.count('soft_key_definitions')
        elif c in ('h', 't'):
            out = box.ex(poke_stmt(c, op[1]))
            if h.err_of(out)[0]:
                raise Divergence('statement-error', '%s -> %r' % (poke_stmt(c, op[1]), out))
            self._partial(m, c, op[1])
        elif c == 'p':
            # a statement first, so that pending keystrokes are taken in; then PEEK through the same function
            box.ex(b'DEF SEG=0')
            addrs = list(range(1050, 1086)) if op[1] else [1050, 1051, 1052, 1053]
            mem = {}
            for a in addrs:
                v = box.ev(b'PEEK(%d)' % a)
                if v is None:
                    raise Divergence('statement-error', 'PEEK(%d) raised an error' % a)
                mem[a] = int(v)
            self._cmp_view(m, mem, op[1])

    # -- program mode ---------------------------------------------------------------------------
    def compile(self, ops):
        """
        ops -> dict(lines, segs, marker). One statement per line; statement 0 (line 1) jumps over the trap handlers,
        statement i >= 1 is line 1000+10*i. A segment = what one RUN / CONT executes: its schedule {boundary: keys}
        (boundary 1 is the RUN / CONT statement itself), its actions [(statement index, action)] and the predicted
        trap handler runs. ['end', kind, idle_ops, then] ends segment 0: the program stops there with its traps
        still enabled (END / STOP / untrapped error / Ctrl+Break / running off the end).
        """
        stmts = []
        nr = [0]
        npk = [0]
        pending = []
        traps = rk.KeyTraps()
        segs = [{'sched': {}, 'actions': [], 'hits': {}, 'start': 0}]
        shift = [0]             # boundaries taken by trap handlers so far in this segment (2 statements per run)
        marker = {}

        def add(text, action=None):
            sg = segs[-1]
            if pending:
                sg['sched'].setdefault(len(stmts) - sg['start'] + 2 + shift[0], []).extend(pending)
                sg['actions'].append((len(stmts), ('k', list(pending))))
                for n in traps.firing(pending):
                    # the trapped key is seen at this boundary: its handler (2 statements) runs before the statement
                    shift[0] += 2
                    sg['hits'][n] = sg['hits'].get(n, 0) + 1
                del pending[:]
            if action:
                sg['actions'].append((len(stmts), action))
                _trap_action(traps, action)
            stmts.append(text)

        def body_of(op):
            c = op[0]
            if c == 'r':
                for _ in range(op[1]):
                    nr[0] += 1
                    yield (b'R$(%d)=INKEY$' % nr[0], ('r', nr[0]))
            elif c == 'i':
                nr[0] += 1
                yield (b'INPUT R$(%d)' % nr[0], ('i', nr[0]))
            elif c == 'n':
                nr[0] += 1
                yield (b'R$(%d)=INPUT$(%d)' % (nr[0], op[1]), ('n', nr[0], op[1]))
            elif c == 'c':
                yield (b'POKE 1050,PEEK(1052)', ('c',))
            elif c in ('h', 't'):
                yield (poke_stmt(c, op[1]), (c, op[1]))
            elif c == 'm':
                yield (macro_stmt(op[1], op[2]), ('m', op[1], op[2]))
            elif c == 'kd':
                yield (b'KEY %d,CHR$(%d)+CHR$(%d)' % (op[1], op[2], op[3]), ('kd', op[1], op[2], op[3]))
            elif c == 'kg':
                yield (b'ON KEY(%d) GOSUB %d' % (op[1], 10 + 20 * op[1]), ('kg', op[1]))
            elif c == 'ko':
                yield (b'KEY(%d) %s' % (op[1], op[2].encode()), ('ko', op[1], op[2]))
            elif c == 'p':
                addrs = list(range(1050, 1086)) if op[1] else [1050, 1051, 1052, 1053]
                first = npk[0]
                for i, a in enumerate(addrs):
                    yield (b'P%%(%d)=PEEK(%d)' % (npk[0], a), ('p', first, addrs, op[1]) if i == 0 else None)
                    npk[0] += 1

        body = []
        for op in ops:
            if op[0] == 'k':
                body.append(('k', op[1]))
            elif op[0] == 'end':
                body.append(('end', op[1], op[2], op[3]))
            else:
                body.extend(('s', t, a) for t, a in body_of(op))
        add(b'GOTO 1010')
        add(b'DEF SEG=0')
        add(b'DIM R$(%d)' % (nr[0] + 1))
        add(b'DIM P%%(%d)' % (npk[0] + 1))
        add(b'DIM H%(20)')
        for item in body:
            if item[0] == 'k':
                pending.extend(item[1])
            elif item[0] == 's':
                add(item[1], item[2])
            else:
                _, kind, idle, then = item
                if pending and kind in ('break', 'off-end'):
                    add(b'A=0')
                marker.update(kind=kind, idle=idle, then=then)
                act = ('end', kind)
                if kind == 'off-end':
                    segs[-1]['actions'].append((len(stmts), act))
                    marker['idx'] = len(stmts)
                elif kind == 'break':
                    sg = segs[-1]
                    sg['sched'].setdefault(len(stmts) - sg['start'] + 2 + shift[0], []).append('BREAK')
                    marker['idx'] = len(stmts)
                    sg['actions'].append((len(stmts), act))
                    if then == 'cont':
                        segs.append({'sched': {}, 'actions': [], 'hits': {}, 'start': len(stmts)})
                        shift[0] = 0
                    add(b'A=1')
                else:
                    marker['idx'] = len(stmts)
                    add({'END': b'END', 'STOP': b'STOP', 'error': b'ERROR 77'}[kind], act)
                    if then == 'cont':
                        segs.append({'sched': {}, 'actions': [], 'hits': {}, 'start': len(stmts)})
                        shift[0] = 0
        if marker.get('kind') != 'off-end':
            add(b'A=0')
            add(b'END')
        lines = [b'%d %s' % (1 if i == 0 else 1000 + 10 * i, t) for i, t in enumerate(stmts)]
        for n in sorted(traps.handler):
            lines.append(b'%d H%%(%d)=H%%(%d)+1' % (10 + 20 * n, n, n))
            lines.append(b'%d RETURN' % (15 + 20 * n))
        self.hits = {}
        for sg in segs:
            for n, c in sg['hits'].items():
                self.hits[n] = self.hits.get(n, 0) + c
        return {'lines': lines, 'segs': segs, 'marker': marker}

    def run_program(self, ops, m):
        h = self.h
        comp = self.compile(ops)
        lines, segs, marker = comp['lines'], comp['segs'], comp['marker']
        m.traps = rk.KeyTraps()
        brk = h.key_event(u'', h.scancode.BREAK, [h.scancode.CTRL])
        with h.Box(budget=len(lines) + 50 + 2 * sum(self.hits.values())) as box:
            _, audio = h.record_queues(box.s, video=False)
            box.enter(lines)
            q = box.impl.queues.inputs

            def run_seg(si, cmd):
                sg = segs[si]
                box.stepper.schedule = dict(
                    (b, [brk if k == 'BREAK' else mk_event(h, k) for k in keys]) for b, keys in sg['sched'].items())
                out = box.ex(cmd)
                box.stepper.schedule = {}
                self.res.count('keys_delivered_at_statement_boundaries',
                               sum(1 for v in sg['sched'].values() for k in v if k != 'BREAK'))
                self._replay(box, m, sg, out, marker if si == 0 else None)

            try:
                run_seg(0, b'RUN')
                if marker:
                    # the program has ended with traps still enabled: BASIC is idle, every key event reaches the buffer
                    self.res.count('programs_ended_with_traps_enabled_by_' + marker['kind'].replace('-', '_'))
                    m.idle = True
                    box.ex(b'DEF SEG=0')
                    for op in marker['idle']:
                        if op[0] == 'k':
                            nm = sum(1 for k in op[1] if m.traps.swallows(k))
                            if nm:
                                self.res.count('idle_key_events_matching_an_enabled_trap', nm)
                        self._idle_op(box, q, op, m)
                    m.idle = False
                    if marker['then'] == 'cont':
                        run_seg(1, b'CONT')
                        self.res.count('programs_continued_after_idle_keys')
                    elif marker['then'] == 'rerun':
                        m.traps = rk.KeyTraps()
                        run_seg(0, b'RUN')
                        self.res.count('programs_rerun_after_idle_keys')
            finally:
                self._count_beeps(audio)
            if self.hits and not marker:
                H = box.get('H%()')
                for n, cnt in sorted(self.hits.items()):
                    if H[n] != cnt:
                        raise Divergence('trap-handler-runs', 'handler of KEY(%d) ran %d times, its key arrived at %d statement '
                                         'boundaries while the trap was ON' % (n, H[n], cnt))
                self.res.count('key_trap_handler_runs', sum(self.hits.values()))

    def _idle_op(self, box, q, op, m):
        """
        An operation while BASIC is idle (no statement is executing): key events are put on the input queue and are taken
        in when INKEY$ is evaluated (Session.evaluate); PEEK likewise through evaluate. Every burst is followed by a read.
        """
        h = self.h
        c = op[0]
        if c == 'k':
            for k in op[1]:
                q.put(mk_event(h, k))
            self._deliver(m, op[1])
        elif c == 'r':
            for _ in range(op[1]):
                v = box.ev(b'INKEY$')
                if v is None:
                    raise Divergence('statement-error', 'INKEY$ raised an error')
                self._cmp_read(m, bytes(v), 'INKEY$')
        elif c == 'p':
            addrs = list(range(1050, 1086)) if op[1] else [1050, 1051, 1052, 1053]
            mem = {}
            for a in addrs:
                v = box.ev(b'PEEK(%d)' % a)
                if v is None:
                    raise Divergence('statement-error', 'PEEK(%d) raised an error' % a)
                mem[a] = int(v)
            self._cmp_view(m, mem, op[1])
        else:
            raise ValueError(op)

    def _replay(self, box, m, sg, out, marker):
        """Compare what one RUN / CONT left in R$() and P%() with the model, action by action."""
        h = self.h
        code, line = h.err_of(out)
        R = box.get('R$()')
        P = box.get('P%()')
        stopped = None
        if code or box.stepper.break_hit:
            # (a Break inside INPUT is announced without the error marker, so the stepper's flag is consulted too)
            mt = re.findall(br' in (\d+)', out)
            ln = int(mt[-1]) if mt else 1
            stopped = 0 if ln < 1000 else (ln - 1000) // 10
            if (marker and marker['kind'] in ('STOP', 'error', 'break') and not box.stepper.break_hit
                    and stopped >= marker['idx'] - 1):
                stopped = None      # the planned end of this run
        for idx, act in sg['actions']:
            c = act[0]
            if c == 'k':
                passed = [k for k in act[1] if not m.traps.swallows(k)]
                if len(passed) < len(act[1]):
                    self.res.count('key_events_swallowed_by_trap', len(act[1]) - len(passed))
                    self.res.count('same_key_other_shift_state_passed_trap',
                                   sum(1 for k in passed if len(k) > 2 and any(
                                       k[1] == sc for _, sc in m.traps.user.values())))
                self._deliver(m, passed)
                continue
            if c in ('kd', 'kg', 'ko'):
                _trap_action(m.traps, act)
                m.with_traps = True
                continue
            if c == 'end':
                break
            if stopped is not None and idx >= stopped:
                if c in ('i', 'n'):
                    exp = m.read_line() if c == 'i' else m.read_n(act[2])
                    raise Divergence('input-blocked', '%s did not complete (%r) although the keystrokes %r are waiting'
                                     % ('INPUT' if c == 'i' else 'INPUT$(%d)' % act[2], out[-40:], exp))
                raise Divergence('program-stopped', 'history program ended with %r' % out[-60:])
            if c == 'r':
                self._cmp_read(m, R[act[1]], 'INKEY$')
            elif c == 'i':
                exp = m.read_line()
                got = R[act[1]]
                if got != exp:
                    raise Divergence('input-line', 'INPUT gave %r, keystrokes typed before Enter are %r' % (got, exp))
                self.res.count('input_reads')
            elif c == 'n':
                exp = m.read_n(act[2])
                got = R[act[1]]
                if got != exp:
                    raise Divergence('wrong-key-order', 'INPUT$(%d) gave %r, the oldest waiting keystrokes are %r' % (act[2], got, exp))
                self.res.count('inputstr_reads')
            elif c == 'c':
                n = m.clear()
                self.res.count('clear_pokes')
                if n:
                    self.res.count('clear_pokes_nonempty')
                m.cleared = True
                m.last_poke = 'clear'
            elif c in ('h', 't'):
                self._partial(m, c, act[1])
            elif c == 'm':
                m.set_macro(act[1], act[2].encode('ascii'))
                self.res.count('soft_key_definitions')
            elif c == 'p':
                mem = dict((a, P[act[1] + i]) for i, a in enumerate(act[2]))
                self._cmp_view(m, mem, act[3])
        if stopped is not None:
            raise Divergence('program-stopped', 'history program ended with %r' % out[-60:])

    # -- one case ----------------------------------------------------------------------------------
    def case(self, ops, mode, tag):
        """Run one history; report. Returns True if it held."""
        res = self.res
        m = rk.Kbd()
        m.cleared = False
        m.last_poke = None
        m.with_traps = False
        m.idle = False
        if any(op[0] in ('kd', 'kg', 'ko', 'end') for op in ops):
            mode = 'program'        # key traps only act while a program runs
        case = {'mode': mode, 'ops': ops, 'origin': tag}
        try:
            if mode == 'direct':
                self.run_direct(ops, m)
            else:
                self.run_program(ops, m)
        except Divergence as d:
            if m.last_poke == 'partial' and d.kind != 'statement-error':
                key = PARTIAL_KEY
                text = 'after a POKE moving the head forward / the tail back within the waiting keys: ' + d.text
            elif m.last_poke == 'clear' and d.kind != 'statement-error':
                key = CLEAR_KEY
                text = 'after POKE 1050,PEEK(1052): ' + d.text
            elif getattr(m, 'idle', False) and d.kind != 'statement-error':
                key = 'kbd:idle-after-program-left-traps-on:' + d.kind
                text = 'keys typed in direct mode after a program ended with KEY traps enabled: ' + d.text
            elif m.with_traps and d.kind != 'statement-error':
                key = 'kbd:with-key-traps:' + d.kind
                text = 'KEY traps defined: ' + d.text
            else:
                key = 'kbd:' + d.kind
                text = d.text
            res.violation(key, '%s [%s history, %s]' % (text, mode, tag), case)
            res.case(repr(case), nontrivial=True)
            res.count('histories_abandoned_at_first_divergence')
            return False
        except self.h.Internal as e:
            res.violation(e.key, str(e), case)
            return False
        finally:
            res.maxc('max_keys_accepted_in_one_history', m.total)
            if m.wraps:
                res.count('ring_wraps', m.wraps)
            if m.expanded:
                res.count('soft_keys_delivered_as_text', m.expanded)
            if m.unexpanded:
                res.count('soft_keys_with_empty_text_delivered_as_key', m.unexpanded)
        res.case(repr(case), nontrivial=(m.total > 0))
        res.count('histories_held')
        return True


# ---------------------------------------------------------------------------------------
# directed core (seed-independent)

def _keys(text):
    return [[ch, None] for ch in text]


def directed_cases():
    out = []
    # D12 reproducer: 5 keys, read 1, clearing POKE -> later INKEY$ must be ""
    out.append(('d12', [['k', _keys(u'abcde')], ['r', 1], ['c'], ['r', 20], ['p', 1],
                        ['k', _keys(u'xyz')], ['r', 4], ['p', 1]]))
    # the same after a full buffer
    out.append(('d12-full', [['k', _keys(u'0123456789ABCDEFGH')], ['r', 2], ['c'], ['r', 18], ['p', 1]]))
    # clearing POKE at every ring position x every fill level, then new keys are read back in order
    for pos in range(16):
        for fill in range(16):
            ops = []
            if pos:
                ops += [['k', _keys(u'q' * pos)], ['r', pos]]
            if fill:
                ops += [['k', _keys(u'abcdefghijklmno'[:fill])]]
            ops += [['p', 0], ['c'], ['p', 1], ['r', 2], ['k', _keys(u'XYZ')], ['p', 1], ['r', 4], ['p', 0]]
            out.append(('clear@%d/%d' % (pos, fill), ops))
    # partial skips: head forward by k / tail back by k slots inside the waiting range; what INKEY$ then delivers
    # must be what the pointers and the slots between them show
    for pos in (0, 5, 11, 14):
        for fill in (2, 6, 9, 15):
            for k in range(1, fill):
                for which in ('h', 't'):
                    ops = []
                    if pos:
                        ops += [['k', _keys(u'q' * pos)], ['r', pos]]
                    ops += [['k', _keys(u'abcdefghijklmno'[:fill])], ['p', 0], [which, k], ['p', 1], ['r', 2],
                            ['k', _keys(u'XYZ')], ['p', 1], ['r', 17], ['p', 0]]
                    out.append(('poke-%s%d@%d/%d' % (which, k, pos, fill), ops))
    # soft keys in the key stream under every definition state: default texts, empty, 1 / 15 characters, CR inside
    FK = _fkeys()
    for n in range(1, 11):
        k = FK[n - 1]
        out.append(('softkey-default F%d' % n, [['k', [[u'x', None], k, [u'y', None]]], ['p', 1], ['r', 3], ['p', 0], ['r', 16], ['p', 1]]))
        out.append(('softkey-empty F%d' % n, [['m', n, u''], ['k', [[u'a', None], k, [u'b', None]]], ['p', 1], ['r', 2], ['p', 1], ['r', 3], ['p', 0]]))
        for text in (u'Q', u'0123456789abcde', u'ab\rcd', u'\r', u'go\r'):
            out.append(('softkey F%d %r' % (n, text), [['m', n, text], ['k', [k, [u'z', None], k]], ['p', 1], ['r', 1], ['p', 1],
                                                        ['r', 2 * len(text) + 3], ['p', 0]]))
    out.append(('softkey-mix', [['m', 1, u''], ['m', 2, u'two'], ['m', 3, u'x\r'], ['k', [FK[0], FK[1], FK[2], FK[0], [u'q', None], FK[3]]],
                                ['p', 1], ['r', 1], ['n', 3], ['p', 1], ['r', 3], ['p', 1], ['r', 12], ['p', 0]]))
    out.append(('softkey-full', [['m', 5, u'hi'], ['m', 6, u''], ['k', [FK[4], FK[5]] * 9], ['p', 1], ['r', 40], ['p', 1]]))
    out.append(('softkey-clear', [['m', 7, u''], ['k', [FK[6], [u'a', None], FK[6]]], ['r', 1], ['c'], ['r', 3], ['k', [FK[6]]], ['p', 1], ['r', 2]]))
    # KEY traps: exactly the trapped key / shift-state combination is taken away, everything else arrives in order
    for n in range(1, 15):
        scan = rk.KeyTraps.PREDEFINED[n]
        kk = (_fkeys() + CURSOR)[n - 1]
        other = (_fkeys() + CURSOR)[n % 14]
        burst = [[u'x', None, ''], kk + [''], [u'y', None, ''], kk + ['S'], other + [''], [u'z', None, '']]
        out.append(('trap KEY(%d)' % n, [['m', 1 + n % 10, u'']] + [['kg', n], ['ko', n, 'ON'], ['k', burst], ['p', 1], ['r', 6],
                                         ['ko', n, 'OFF'], ['k', burst], ['p', 1], ['r', 12], ['p', 0]]))
    shifts = ['', 'S', 'C', 'A', 'CA', 'SC']
    for i, flags in enumerate([0, 1, 2, 3, 4, 8, 12, 7]):
        n = 15 + i % 6
        ch = sorted(LETTERS)[i % len(LETTERS)]
        oth = sorted(LETTERS)[(i + 1) % len(LETTERS)]
        burst = [letter_event(ch, md) for md in shifts] + [letter_event(oth, md) for md in shifts] + [letter_event(ch, md) for md in reversed(shifts)]
        out.append(('trap KEY %d flags %d' % (n, flags),
                    [['kd', n, flags, LETTERS[ch]], ['kg', n], ['ko', n, 'ON'], ['k', burst[:9]], ['p', 1], ['r', 10], ['k', burst[9:]], ['p', 1], ['r', 10],
                     ['ko', n, 'OFF'], ['k', burst[:8]], ['r', 9], ['p', 0]]))
    out.append(('trap two', [['kd', 15, 4, LETTERS[u'a']], ['kd', 16, 0, LETTERS[u'a']], ['kg', 15], ['kg', 16], ['kg', 2], ['ko', 15, 'ON'], ['ko', 2, 'ON'],
                             ['k', [letter_event(u'a', ''), letter_event(u'a', 'C'), _fkeys()[1] + [''], letter_event(u'b', 'C'), letter_event(u'a', 'S')]],
                             ['p', 1], ['r', 4], ['ko', 16, 'ON'], ['k', [letter_event(u'a', ''), letter_event(u'a', 'A'), letter_event(u'a', 'C')]],
                             ['p', 1], ['r', 3], ['p', 0]]))
    # a program ends with traps still enabled; the trapped key typed while BASIC is idle must reach the buffer like any
    # other key; after CONT / RUN trapping works again
    ca = letter_event(u'a', 'C')
    f2 = _fkeys()[1] + ['']
    for kind in ('END', 'STOP', 'error', 'break', 'off-end'):
        for then in (['cont', 'rerun'] if kind in ('END', 'STOP', 'break') else ['rerun']):
            for setup, tk in (([['kd', 15, 4, LETTERS[u'a']], ['kg', 15], ['ko', 15, 'ON']], ca),
                              ([['m', 2, u''], ['kg', 2], ['ko', 2, 'ON']], f2)):
                b1 = [[u'x', None, ''], tk, letter_event(u'a', ''), [u'y', None, '']]
                idle = [['k', [[u'p', None, ''], tk, letter_event(u'a', 'S'), tk, [u'q', None, '']]], ['r', 3], ['p', 1],
                        ['k', [tk]], ['r', 1], ['p', 1], ['r', 4], ['p', 0]]
                ops = setup + [['k', b1], ['p', 1], ['r', 2], ['k', [tk, [u'w', None, '']]], ['end', kind, idle, then]]
                if then == 'cont':
                    ops += [['k', [tk, [u'v', None, ''], tk]], ['p', 1], ['r', 5], ['p', 0]]
                out.append(('idle %s %s %s' % (kind, then, 'user' if tk is ca else 'F2'), ops))
    # bursts around the capacity at every ring position: what is held, what is dropped, in which order
    for pos in range(16):
        for n in (14, 15, 16, 17, 18):
            ops = []
            if pos:
                ops += [['k', _keys(u'q' * pos)], ['r', pos]]
            ops += [['k', _keys(u'abcdefghijklmnopqrstuvwxyz'[:n])], ['p', 1], ['r', 3], ['k', _keys(u'12345')], ['p', 1],
                    ['r', 18], ['p', 0]]
            out.append(('burst%d@%d' % (n, pos), ops))
    # steady trickle: 40 keys through a buffer holding 1..3, pointers wrap twice
    ops = []
    for i in range(40):
        ops += [['k', _keys(PLAIN[i % len(PLAIN)])]]
        if i % 3 == 2:
            ops += [['r', 3], ['p', 1]]
    out.append(('trickle', ops))
    # lines through INPUT and INPUT$
    out.append(('input', [['k', _keys(u'hello\rab\rxyz')], ['i'], ['p', 1], ['i'], ['n', 2], ['r', 2], ['p', 0]]))
    # extended and non-ASCII keys
    from .. import harness
    sc = harness.scancode
    out.append(('extended', [['k', [[u'\0H', sc.UP], [u'a', None], [u'\xe9', None], [u'\0P', sc.DOWN], [u'\r', 28], [u'\x1b', None]]],
                             ['p', 1], ['r', 7], ['p', 1]]))
    return out


# ---------------------------------------------------------------------------------------

def plan(tier, seed):
    shards = [{'kind': 'directed', 'part': 0, 'parts': 2}, {'kind': 'directed', 'part': 1, 'parts': 2}]
    if tier == 'quick':
        for i in range(10):
            shards.append({'kind': 'hist', 'part': i, 'n': 300})
    else:
        for i in range(32):
            shards.append({'kind': 'hist', 'part': i, 'n': 2500})
    return shards


def _calibrate(runner, res):
    """Boundary numbering of the stepper against a stored program: key at boundary b is seen by statement b-1."""
    h = runner.h
    with h.Box(budget=100) as box:
        box.enter([b'10 DIM R$(6)'] + [b'%d R$(%d)=INKEY$' % (20 + 10 * i, i + 1) for i in range(5)])
        box.stepper.schedule = {5: [h.key_event(u'x')]}
        box.run()
        R = box.get('R$()')
    if R[:6] != [b'', b'', b'', b'x', b'', b'']:
        res.inconclusive('statement-boundary calibration failed: %r' % (R,))
        return False
    return True


def run_shard(spec, res):
    kind = spec['kind']
    runner = Runner(res)
    if not _calibrate(runner, res):
        return
    if kind == 'directed':
        cases = directed_cases()[spec['part']::spec['parts']]
        for tag, ops in cases:
            for mode in ('direct', 'program'):
                ok = runner.case(ops, mode, tag)
                if tag.startswith('d12') and ok:
                    res.count('d12_reproducer_held')
        res.sample({'kind': 'directed', 'case': cases[0][0], 'ops': cases[0][1]})
        res.count('directed_cases', 2 * len(cases))
        return
    if kind == 'hist':
        rng = random.Random('%s:C37:%s:%s' % (spec['seed'], kind, spec.get('part', 0)))
        for i in range(spec['n']):
            with_clear = (i % 2 == 1)
            if i % 8 == 6:
                # key traps defined and enabled while keys of every shift state arrive (stored program only)
                ops = gen_trap_history(rng, runner.ext, idle=(i % 16 == 14))
                mode = 'program'
            else:
                ops = gen_history(rng, runner.ext, with_clear)
                mode = 'direct' if (i // 2) % 2 == 0 else 'program'
            runner.case(ops, mode, 'random')
            if i < 2:
                res.sample({'kind': 'hist', 'mode': mode, 'ops': ops})
        return
    raise ValueError(kind)
