"""
C43 Session API values round-trip.

Oracle: the identity (what goes in through Session.set_variable comes out of Session.get_variable),
with R-NUM giving the admissible error for floats (one unit in the last place of the variable's
type; exact when the value is representable in that type), and the C07 shown-number reader giving the
value PRINT shows for the evaluate() comparison. Arrays: nested lists <-> DIMmed arrays, also read
element by element from BASIC (so a transposition consistent in both directions is seen).
"""
import math
import random
import unicodedata
from fractions import Fraction

from ..models import rnum
from ..models import c07_dectext as dt
from ..gen import c07_gen

META = {
    'property_id': 'C43',
    'technique': 'round-trip monitor on the public Session API (identity oracle, R-NUM tolerance for floats, shown-number reader for PRINT)',
    'level': 'exploration',
    'level_text': (
        'Runtime oracle on real sessions: set_variable/get_variable for every 16-bit integer (exhaustive, in integer, '
        'single and double variables), byte strings over all 256 byte values, unicode strings over the repertoire of '
        'several single- and double-byte codepages, floats across the whole exponent range (<= 1 ulp of the variable type, '
        'exact when representable, idempotent on a second trip); evaluate(e) against the value parsed from the output '
        'of PRINT e for generated numeric and string expressions (including soft and hard errors); nested lists of 1-3 '
        'dimensions into DIMmed arrays of all four types, both OPTION BASE settings, read back as lists and element-wise '
        'from BASIC. The same round trips under memory pressure: string space nearly full with and without garbage, '
        'new and existing variables of every type, scalars and arrays - the value must come back (and every other variable must '
        'be unchanged), or the call must raise Out of memory / Out of string space.'),
    'level_note': (
        'Trusted: the harness, Fraction arithmetic, the codepage tables as returned by pcbasic.data.read_codepage (the '
        'repertoire is taken from them). Not pinned, hence not generated: non-integer Python values for % variables; '
        'floats beyond the MBF range (overflow) or below the smallest magnitude; the glyph characters of the control '
        'codes the API deliberately returns as controls (BEL TAB LF VT FF CR FS GS RS US) and NUL; characters that a '
        'codepage maps onto printable ASCII positions (e.g. yen at 0x5C); single-byte characters that are also lead '
        'bytes in a double-byte codepage and double-byte characters containing the box-drawing bytes (their reading '
        'depends on the deliberate box-drawing protection); lists that do not match the DIMmed shape; expressions with '
        'RND/TIMER/INKEY$ (two evaluations differ legitimately). PRINT output is compared within the C07 bound '
        '(< 1 unit of the last digit shown, plus the rounding of a 56-bit double to a 53-bit Python float). Under memory '
        'pressure the statement does not say when memory is exhausted: BASIC errors 7 and 14 are accepted from set_variable at any '
        'fill level, the variable concerned is then not judged (it is set again later); nothing else is accepted.'),
    'rule': ('case = (kind, variable type, value) / (codepage, string) / expression text / (type, base, dims, list); distinct '
             'by that tuple; every case is non-trivial (a different value crossing the API)'),
    'design_ref': 'DESIGN.md section 4 C43',
    'assumptions': ['Python float arithmetic exact for the conversions used by the oracle (all done in Fraction)'],
    'exhaustive': {'quick': 'all 65536 integers through %, ! and # variables (other classes sampled)',
                   'thorough': 'all 65536 integers through %, ! and # variables (other classes sampled)'},
    'require_counters': {'any': [
        'int_roundtrips', 'bytes_roundtrips', 'unicode_roundtrips', 'dbcs_strings_seen', 'single_roundtrips',
        'single_inexact_seen', 'double_roundtrips', 'evaluate_numeric_compared', 'evaluate_string_compared',
        'evaluate_error_both_seen', 'evaluate_soft_error_seen', 'arrays_roundtrips', 'arrays_3d_seen', 'array_elements_read_from_basic',
        'pressure_roundtrips', 'pressure_new_string_scalar_roundtrips', 'pressure_collection_during_set_seen',
        'pressure_out_of_memory_seen', 'pressure_string_array_roundtrips',
    ]},
    'timeout': {'quick': 900, 'thorough': 10800},
}

CODEPAGES = ['437', '850', '852', '866', '737', '775', '857', '860', '862', '874', '1258', 'koi8-r', 'viscii',
             'mik', 'kamenicky', '932', '936', '949', '950']
# control codes the API returns as control characters rather than as their glyphs
CONTROL = (0x07, 0x09, 0x0a, 0x0b, 0x0c, 0x0d, 0x1c, 0x1d, 0x1e, 0x1f)


def plan(tier, seed):
    shards = [{'kind': 'ints'}, {'kind': 'directed'}]
    if tier == 'quick':
        shards += [{'kind': 'floats', 'n': 40000, 'part': i} for i in range(2)]
        shards += [{'kind': 'bytes', 'n': 30000, 'part': 0}]
        shards += [{'kind': 'unicode', 'n': 1200, 'part': i, 'parts': 2} for i in range(2)]
        shards += [{'kind': 'evaluate', 'n': 5000, 'part': i} for i in range(3)]
        shards += [{'kind': 'arrays', 'n': 1500, 'part': i} for i in range(2)]
        shards += [{'kind': 'pressure', 'n': 1200, 'part': i} for i in range(2)]
    else:
        shards += [{'kind': 'floats', 'n': 400000, 'part': i} for i in range(8)]
        shards += [{'kind': 'bytes', 'n': 250000, 'part': i} for i in range(4)]
        shards += [{'kind': 'unicode', 'n': 12000, 'part': i, 'parts': 6} for i in range(6)]
        shards += [{'kind': 'evaluate', 'n': 60000, 'part': i} for i in range(10)]
        shards += [{'kind': 'arrays', 'n': 20000, 'part': i} for i in range(8)]
        shards += [{'kind': 'pressure', 'n': 25000, 'part': i} for i in range(8)]
    return shards


def run_shard(spec, res):
    kind = spec['kind']
    rng = random.Random('%s:C43:%s:%s' % (spec['seed'], kind, spec.get('part', 0)))
    if kind == 'ints':
        _ints(res)
    elif kind == 'directed':
        _floats(res, rng, 0, directed=True)
        _bytes(res, rng, 0, directed=True)
        _evaluate(res, rng, 0, directed=True)
        _arrays(res, rng, 0, directed=True)
        _pressure(res, rng, 0, directed=True)
    elif kind == 'floats':
        _floats(res, rng, spec['n'])
    elif kind == 'bytes':
        _bytes(res, rng, spec['n'])
    elif kind == 'unicode':
        _unicode(res, rng, spec['n'], spec['part'], spec['parts'])
    elif kind == 'evaluate':
        _evaluate(res, rng, spec['n'])
    elif kind == 'arrays':
        _arrays(res, rng, spec['n'])
    elif kind == 'pressure':
        _pressure(res, rng, spec['n'])
    else:
        raise ValueError(kind)


def _api(res, fn, case, *args):
    """Call an API function; a host exception or BASIC error escaping is reported. Returns (ok, value)."""
    from .. import harness
    from pcbasic.basic.base import error
    try:
        return True, fn(*args)
    except harness.Internal as e:
        res.violation(e.key, str(e), case)
    except error.BASICError as e:
        res.violation('api:basic-error-%s-on-valid-value' % e.err, '%r raised %r' % (case, e), case)
    return False, None


# -------------------------------------------------------------------------------------------------
# integers

def _ints(res):
    from .. import harness
    with harness.Box() as box:
        for name, conv in (('A%', int), ('A!', float), ('A#', float)):
            bad = 0
            for i in range(-32768, 32768):
                ok, _ = _api(res, box.set, ['set', name, i], name, i)
                if not ok:
                    continue
                ok, got = _api(res, box.get, ['get', name, i], name)
                if not ok:
                    continue
                if got != i or type(got) is not conv:
                    bad += 1
                    res.violation('int:%s-variable:value' % {'%': 'integer', '!': 'single', '#': 'double'}[name[-1]],
                                  'set_variable(%s, %d) then get_variable -> %r' % (name, i, got), ['int', name, i])
            res.bulk(65536, 65536)
            res.count('int_roundtrips', 65536)
        # the same through BASIC: what the API stored is what the program sees, and vice versa
        for i in list(range(-32768, 32768, 257)) + [32767, -1, 0, 1]:
            box.set('A%', i)
            v = box.ev(b'A%')
            if v != i:
                res.violation('int:api-set-not-seen-by-basic', 'set A%%=%d, expression A%% evaluates to %r' % (i, v), ['int-basic', i])
            box.ex(b'B%%=%d' % i if i >= 0 else b'B%%=-%d' % -i)
            g = box.get('B%')
            if g != i:
                res.violation('int:basic-assignment-not-seen-by-api', 'B%%=%d in BASIC, get_variable -> %r' % (i, g), ['int-basic', i])
            res.case(('int-basic', i))
        # as_type conversions that cannot lose anything
        for i in (0, 1, -1, 32767, -32768, 255, 12345):
            box.set('A%', i)
            g = box.s.get_variable('A%', float)
            if g != float(i) or not isinstance(g, float):
                res.violation('int:as_type-float', 'get_variable(A%%, float) for %d -> %r' % (i, g), ['as_type', i])
            box.set('A!', float(i))
            g = box.s.get_variable('A!', int)
            if g != i or not isinstance(g, int):
                res.violation('float:as_type-int-of-whole-number', 'get_variable(A!, int) for %d.0 -> %r' % (i, g), ['as_type', i])
            res.case(('as_type', i))
        res.sample({'kind': 'ints', 'range': 'all -32768..32767 through A%, A!, A#'})


# -------------------------------------------------------------------------------------------------
# floats

FLOAT_DIRECTED = [0.0, -0.0, 1.0, -1.0, 0.5, 0.1, 0.2, 0.3, 1 / 3.0, 2 / 3.0, 1.1, 1e-38, 1e38, 1.7e38, -1.7e38, 3e-39,
                  2.0 ** -127, 2.0 ** -128, 2.0 ** 126, 2.0 ** 127 * (1 - 2.0 ** -24), 2.0 ** 127 * (1 - 2.0 ** -53),
                  16777215.0, 16777216.0, 16777217.0, 8.187989234924316, 8.18798828125, 4194303.5, 8388607.5, 8388607.0,
                  0.999999940395355, 0.9999999999999999, 1.0000001192092896, 1.0000000000000002, 123456.789, 1e10, 1e-10,
                  9007199254740991.0, 9007199254740992.0, 4503599627370495.5, 32767.0, 32768.0, -32768.0, 65535.0,
                  3.4028234663852886e+38 / 2.5, 5e-324 * 0 + 7.0e-39]


def _rand_float(rng):
    r = rng.random()
    if r < 0.35:
        # any exponent in the MBF range, random 53-bit mantissa
        e = rng.randint(-127, 126)
        m = 1 + rng.random()
        v = math.ldexp(m, e)
    elif r < 0.55:
        # exactly representable single
        b = rng.getrandbits(24).to_bytes(3, 'little') + bytes([rng.randint(1, 255)])
        v = float(rnum.decode(b))
    elif r < 0.70:
        # few significant bits / one more bit than a single holds / just below a power of two
        e = rng.randint(-127, 126)
        k = rng.choice((1, 2, 3, 23, 24, 25, 26, 52))
        m = (1 << k) + rng.getrandbits(k) | 1
        v = math.ldexp(float(m), e - k)
        if rng.random() < 0.3:
            v = math.ldexp(1.0, e) * (1 - 2.0 ** -rng.choice((24, 25, 30, 53)))
    elif r < 0.85:
        v = rng.choice((1, 10, 100, 1000)) * rng.random() * rng.choice((1, 1, 1e-3, 1e3, 1e-6))
    elif r < 0.93:
        v = float(rng.randint(-10 ** rng.randint(1, 15), 10 ** rng.randint(1, 15)))
    else:
        v = float('%.*g' % (rng.randint(1, 17), rng.random() * 10.0 ** rng.randint(-38, 37)))
    if rng.random() < 0.3:
        v = -v
    return v


def _in_range(v):
    a = abs(v)
    return v == 0 or (2.0 ** -127 <= a < 2.0 ** 127 * (1 - 2.0 ** -20))


def _floats(res, rng, n, directed=False):
    from .. import harness
    vals = [v for v in FLOAT_DIRECTED if _in_range(v)] if directed else []
    vals += [_rand_float(rng) for _ in range(n)]
    sampled = 0
    with harness.Box() as box:
        for v in vals:
            if not _in_range(v):
                continue
            fv = Fraction(v)
            for name, nb in (('A!', 4), ('A#', 8)):
                case = ['float', name, repr(v)]
                ok, _ = _api(res, box.set, case, name, v)
                if not ok:
                    continue
                ok, got = _api(res, box.get, case, name)
                if not ok:
                    continue
                res.case(('float', name, v))
                tname = 'single' if nb == 4 else 'double'
                res.count('%s_roundtrips' % tname)
                if not isinstance(got, float):
                    res.violation('float:%s:python-type' % tname, 'get_variable(%s) returns %r (%s)' % (name, got, type(got).__name__), case)
                    continue
                fg = Fraction(got)
                lo, hi = rnum.neighbours(fv, nb)
                representable = (lo == fv)
                if representable:
                    if fg != fv:
                        res.violation('float:%s:representable-value-changed' % tname,
                                      'set_variable(%s, %r) reads back %r (the value is exactly representable in the type)'
                                      % (name, v, got), case)
                else:
                    res.count('%s_inexact_seen' % tname)
                    u = rnum.ulp(nb, fv)
                    if abs(fg - fv) > u:
                        # where: just below a power of two (the binade is misjudged) or anywhere
                        m, _e = math.frexp(abs(v))
                        where = 'just-below-power-of-two' if m > 1 - 2.0 ** -40 else 'general'
                        res.violation('float:%s:error>1ulp:%s' % (tname, where), 'set_variable(%s, %r) reads back %r: %.3f ulp off'
                                      % (name, v, got, float(abs(fg - fv) / u)), case)
                    elif fg not in (lo, hi):
                        res.violation('float:%s:not-a-neighbour' % tname, 'set_variable(%s, %r) reads back %r, not an adjacent %s'
                                      % (name, v, got, tname), case)
                # second trip: what came out goes in and comes out unchanged
                ok, _ = _api(res, box.set, case, name, got)
                if ok:
                    ok, got2 = _api(res, box.get, case, name)
                    if ok and got2 != got:
                        res.violation('float:%s:second-trip-changes-value' % tname,
                                      '%s: %r -> %r -> %r' % (name, v, got, got2), case)
            if sampled < 2:
                sampled += 1
                res.sample({'kind': 'float', 'value': repr(v), 'single_back': repr(box.get('A!')), 'double_back': repr(box.get('A#'))})
        # BASIC sees what the API stored, bit for bit (MKS$/MKD$ of the variable against R-NUM's decode)
        for v in vals[:400]:
            if not _in_range(v):
                continue
            box.set('A#', v)
            b = box.ev(b'MKD$(A#)')
            if rnum.decode(b) != Fraction(v):
                res.violation('float:double:api-set-not-seen-by-basic', 'set A#=%r, BASIC holds %s' % (v, b.hex()), ['float-basic', repr(v)])
            box.set('B$', c07_gen.encode_floor(Fraction(v), 4) or b'\0\0\0\0')
            box.ex(b'C!=CVS(B$)')
            g = box.get('C!')
            want = rnum.decode(c07_gen.encode_floor(Fraction(v), 4) or b'\0\0\0\0')
            if Fraction(g) != want:
                res.violation('float:single:basic-value-not-seen-by-api', 'C!=CVS(%s) in BASIC, get_variable -> %r' % (box.get('B$').hex(), g),
                              ['float-basic', repr(v)])
            res.case(('float-basic', v))


# -------------------------------------------------------------------------------------------------
# byte strings

def _bytes(res, rng, n, directed=False):
    from .. import harness
    vals = []
    if directed:
        vals += [b'', b' ', b'\0', b'\xff', bytes(range(256))[:255], bytes(range(1, 256)), b'a' * 255, b'\r\n', b'"', b'\x1a',
                 b'\0' * 255, bytes(range(255, 0, -1))]
        vals += [bytes([c]) for c in range(256)]
    for _ in range(n):
        t = rng.random()
        ln = rng.randint(0, 12) if t < 0.5 else (rng.randint(0, 255) if t < 0.95 else 255)
        vals.append(bytes(rng.getrandbits(8) for _ in range(ln)))
    with harness.Box() as box:
        for i, s in enumerate(vals):
            name = ('A$', 'B$', 'LONGNAME$')[i % 3]
            case = ['bytes', name, s]
            ok, _ = _api(res, box.set, case, name, s)
            if not ok:
                continue
            ok, got = _api(res, box.get, case, name)
            if not ok:
                continue
            res.case(('bytes', s))
            res.count('bytes_roundtrips')
            if got != s or not isinstance(got, bytes):
                res.violation('string:bytes:value', 'set_variable(%s, %r) reads back %r' % (name, s[:40], got[:40] if got else got), case)
            if i % 16 == 0:
                v = box.ev(name.encode())
                if v != s:
                    res.violation('string:api-set-not-seen-by-basic', 'set %s=%r, the expression evaluates to %r' % (name, s[:40], v), case)
                ln = box.ev(b'LEN(' + name.encode() + b')')
                if ln != len(s):
                    res.violation('string:api-set-not-seen-by-basic', 'set %s of length %d, LEN gives %r' % (name, len(s), ln), case)
        res.sample({'kind': 'bytes', 'example': vals[-1] if vals else b''})


# -------------------------------------------------------------------------------------------------
# unicode strings over codepage repertoires

def _repertoire(table):
    """
    Characters (unicode clusters) of a codepage table {bytes: cluster} that the statement covers,
    as list of (cluster, bytes). See META level_note for what is left out and why.
    """
    singles = {k: v for k, v in table.items() if len(k) == 1}
    doubles = {k: v for k, v in table.items() if len(k) == 2}
    leads = set(k[:1] for k in doubles)
    box = set(k for k, v in singles.items() if v in (u'─', u'═')) if doubles else set()
    counts = {}
    for k, v in table.items():
        v = unicodedata.normalize('NFC', v)
        counts[v] = counts.get(v, 0) + 1
    out = []
    for k, v in table.items():
        v = unicodedata.normalize('NFC', v)
        if not v or u'\0' in v:
            continue
        if len(k) == 1:
            c = k[0]
            if c in CONTROL or c == 0:
                continue
            if 0x20 <= c <= 0x7e:
                if v != chr(c):
                    continue        # glyph substitute on a printable ASCII position
            elif len(v) == 1 and ord(v) < 0x80 and ord(v) != c:
                continue            # maps onto an ASCII character owned by another position
            if k in leads:
                continue
        else:
            if k[:1] in box or k[1:] in box:
                continue
        out.append((v, k))
    # printable ASCII is always part of the repertoire
    have = set(v for v, _ in out)
    for c in range(0x20, 0x7f):
        if chr(c) not in have:
            out.append((chr(c), bytes([c])))
    return out, counts


def _unicode(res, rng, n, part, parts):
    from .. import harness
    from pcbasic.data import read_codepage
    names = CODEPAGES[part::parts]
    for name in names:
        table = read_codepage(name)
        rep, counts = _repertoire(table)
        dbcs = [r for r in rep if len(r[1]) == 2]
        sbcs = [r for r in rep if len(r[1]) == 1]
        high = [r for r in sbcs if r[1][0] >= 0x7f or r[1][0] < 0x20]
        with harness.Box(codepage=table) as box:
            sampled = 0
            for i in range(n):
                t = rng.random()
                ln = rng.randint(0, 10) if t < 0.5 else rng.randint(0, 120)
                chars = []
                nbytes = 0
                for _ in range(ln):
                    r = rng.random()
                    pool = dbcs if (dbcs and r < 0.5) else (high if (high and r < 0.8) else sbcs)
                    c = rng.choice(pool)
                    if nbytes + len(c[1]) > 255:
                        break
                    chars.append(c)
                    nbytes += len(c[1])
                u = u''.join(c[0] for c in chars)
                if unicodedata.normalize('NFC', u) != u:
                    # neighbouring characters compose into something else: outside the repertoire-wise construction
                    res.count('unicode_composing_sequence_skipped')
                    continue
                case = ['unicode', name, u]
                ok, _ = _api(res, box.set, case, 'U$', u)
                if not ok:
                    continue
                ok, got = _api(res, box.s.get_variable, case, 'U$', str)
                if not ok:
                    continue
                res.case(('unicode', name, u))
                res.count('unicode_roundtrips')
                if any(len(c[1]) == 2 for c in chars):
                    res.count('dbcs_strings_seen')
                if got != u:
                    res.violation('string:unicode:value:%s' % ('dbcs-codepage' if dbcs else 'single-byte-codepage'),
                                  'codepage %s: set_variable(U$, %r) reads back %r' % (name, u[:30], got[:30] if got else got), case)
                    continue
                # the bytes BASIC holds are the codepage bytes of the characters (where the table is one-to-one)
                raw = box.get('U$')
                if all(counts.get(c[0], 1) == 1 for c in chars):
                    want = b''.join(c[1] for c in chars)
                    if raw != want:
                        res.violation('string:unicode:codepage-bytes', 'codepage %s: %r stored as %r, table gives %r'
                                      % (name, u[:30], raw[:40], want[:40]), case)
                # and bytes in -> unicode out -> same bytes back in
                ok, _ = _api(res, box.set, case, 'V$', raw)
                if ok:
                    ok, got2 = _api(res, box.s.get_variable, case, 'V$', str)
                    if ok and got2 != u:
                        res.violation('string:unicode:bytes-then-unicode', 'codepage %s: bytes %r read as %r, expected %r'
                                      % (name, raw[:40], got2[:30], u[:30]), case)
                if sampled < 1:
                    sampled += 1
                    res.sample({'kind': 'unicode', 'codepage': name, 'string': u, 'bytes': raw})


# -------------------------------------------------------------------------------------------------
# evaluate(e) against PRINT e

NUM_ATOMS = ['0', '1', '2', '3', '7', '10', '100', '255', '256', '32767', '-1', '-32768', '0.5', '1.5', '2.25', '.1', '3.14159',
             '1E10', '1E-10', '1.5E38', '1D15', '1#', '.1#', '123456789#', '2!', '1234567', '12345678', 'A%', 'B!', 'C#', 'D',
             '&H7FFF', '&HFFFF', '&O17', '16777216', '9999999', '99999999#']
STR_ATOMS = ['""', '"a"', '"abc"', '"Hello, World"', '" x "', '"12"', '"1.5E3"', 'S$', 'T$', '"%"']
NUM_FUNCS = ['ABS', 'SGN', 'INT', 'FIX', 'CINT', 'CSNG', 'CDBL', 'SQR', 'SIN', 'COS', 'TAN', 'ATN', 'EXP', 'LOG']
BINOPS = ['+', '-', '*', '/', '\\', ' MOD ', '^', ' AND ', ' OR ', ' XOR ', '=', '<', '>', '<=', '>=', '<>']


def _num_expr(rng, depth):
    r = rng.random()
    if depth <= 0 or r < 0.25:
        return rng.choice(NUM_ATOMS)
    if r < 0.6:
        return '(%s%s%s)' % (_num_expr(rng, depth - 1), rng.choice(BINOPS), _num_expr(rng, depth - 1))
    if r < 0.8:
        return '%s(%s)' % (rng.choice(NUM_FUNCS), _num_expr(rng, depth - 1))
    if r < 0.85:
        return '-%s' % _num_expr(rng, depth - 1)
    if r < 0.88:
        return 'NOT %s' % _num_expr(rng, depth - 1)
    t = rng.random()
    if t < 0.3:
        return 'LEN(%s)' % _str_expr(rng, depth - 1)
    if t < 0.5:
        return 'VAL(%s)' % _str_expr(rng, depth - 1)
    if t < 0.65:
        return 'ASC(%s)' % _str_expr(rng, depth - 1)
    if t < 0.8:
        return 'INSTR(%s,%s)' % (_str_expr(rng, depth - 1), _str_expr(rng, depth - 1))
    return '(%s%s%s)' % (_str_expr(rng, depth - 1), rng.choice(('=', '<', '>', '<>')), _str_expr(rng, depth - 1))


def _str_expr(rng, depth):
    r = rng.random()
    if depth <= 0 or r < 0.3:
        return rng.choice(STR_ATOMS)
    if r < 0.5:
        return '%s+%s' % (_str_expr(rng, depth - 1), _str_expr(rng, depth - 1))
    if r < 0.6:
        return 'LEFT$(%s,%s)' % (_str_expr(rng, depth - 1), rng.choice(('0', '1', '2', '5', '300', '-1')))
    if r < 0.7:
        return 'RIGHT$(%s,%s)' % (_str_expr(rng, depth - 1), rng.choice(('0', '1', '2', '5')))
    if r < 0.78:
        return 'MID$(%s,%s,%s)' % (_str_expr(rng, depth - 1), rng.choice(('1', '2', '3', '0')), rng.choice(('0', '1', '2', '9')))
    if r < 0.86:
        return 'STR$(%s)' % _num_expr(rng, depth - 1)
    if r < 0.9:
        return 'CHR$(%s)' % rng.choice(('65', '48', '32', '126', '33', '256', '-1'))
    if r < 0.94:
        return 'STRING$(%s,%s)' % (rng.choice(('0', '1', '3', '20')), rng.choice(('"x"', '65', '""')))
    if r < 0.97:
        return rng.choice(('HEX$', 'OCT$')) + '(%s)' % _num_expr(rng, depth - 1)
    return 'SPACE$(%s)' % rng.choice(('0', '1', '5'))


EVAL_DIRECTED = ['1', '-1', '32767', '32767+1', '1/3', '1#/3', '2^0.5', '1/0', '-1/0', '1E38*10', '1E38*10#', 'LOG(0)', 'SQR(-1)',
                 'CINT(32767.5)', 'CINT(-32768.5)', '"abc"', '""', 'STR$(1.5)', 'LEFT$("abc",-1)', '1+"a"', 'A%', 'B!', 'C#', 'S$',
                 '.1+.2', '.1#+.2#', '16777216+1', '1234567', '12345678', '1E7', '1D16', '9999999.5#', '99999999', '1E-39', '7 MOD 0',
                 '3 AND 5', '2=2', '"a"<"b"', 'NOT 0', 'VAL("1E5")', 'LEN(S$)', 'ASC("")', 'A%*A%', 'B!*C#', '&HFFFF', '10\\3', '2^15',
                 '2^127', '2^128', 'EXP(88)', 'EXP(89)', 'ATN(1)*4', 'ATN(1#)*4', 'CDBL(.1)', 'CSNG(.1#)', 'INT(-.5)', 'FIX(-.5)',
                 '.99999999999999999#', '9.9999999999999996#', '0E5', 'STRING$(300,"x")']


def _evaluate(res, rng, n, directed=False):
    from .. import harness
    exprs = list(EVAL_DIRECTED) if directed else []
    for _ in range(n):
        exprs.append(_num_expr(rng, rng.randint(2, 4)) if rng.random() < 0.7 else _str_expr(rng, rng.randint(2, 4)))
    sampled = 0
    with harness.Box() as box:
        box.ex(b'WIDTH 255')
        box.set('A%', 1234)
        box.set('B!', 2.5)
        box.set('C#', 3.000000000001)
        box.set('S$', b'some string')
        box.set('T$', b'')
        for e in exprs:
            eb = e.encode('ascii')
            case = ['evaluate', e]
            try:
                v = box.ev(eb)
                out = box.ex(b'PRINT ' + eb)
            except harness.Internal as ex:
                res.violation(ex.key, str(ex), case)
                continue
            res.case(('evaluate', e))
            code = harness.err_of(out)[0]
            if sampled < 2 and v is not None:
                sampled += 1
                res.sample({'kind': 'evaluate', 'expression': e, 'evaluate': repr(v), 'PRINT': out})
            if code:
                res.count('evaluate_error_both_seen' if v is None else 'evaluate_error_mismatch')
                if v is not None:
                    res.violation('evaluate:value-where-print-errors', 'evaluate(%r) = %r but PRINT gives %r' % (e, v, out[-60:]), case)
                continue
            if v is None:
                res.violation('evaluate:none-where-print-shows-value', 'evaluate(%r) is None but PRINT shows %r' % (e, out[-60:]), case)
                continue
            if not out.endswith(b'\r\n'):
                res.violation('evaluate:print-output-shape', 'PRINT %r -> %r' % (e, out[-60:]), case)
                continue
            body = out[:-2]
            if isinstance(v, bytes):
                res.count('evaluate_string_compared')
                # a soft error inside the expression prints its message line first
                while body.startswith((b'Overflow\r\n', b'Division by zero\r\n')) and body != v:
                    body = body.partition(b'\r\n')[2]
                    res.count('evaluate_soft_error_seen')
                if body != v:
                    res.violation('evaluate:string-differs-from-print', 'evaluate(%r) = %r, PRINT shows %r' % (e, v[:60], body[:60]), case)
                continue
            # numeric: soft errors print a message line first
            lines = body.split(b'\r\n')
            if len(lines) > 1:
                res.count('evaluate_soft_error_seen')
                if any(l not in (b'Overflow', b'Division by zero') for l in lines[:-1]):
                    res.violation('evaluate:print-output-shape', 'PRINT %r -> %r' % (e, out[-80:]), case)
                    continue
            shown = lines[-1]
            if not shown.endswith(b' '):
                res.violation('evaluate:print-output-shape', 'PRINT %r -> %r' % (e, out[-60:]), case)
                continue
            s = dt.parse_shown(shown[:-1])
            if s is None:
                res.violation('evaluate:print-output-shape', 'PRINT %r -> %r' % (e, out[-60:]), case)
                continue
            res.count('evaluate_numeric_compared')
            fv = Fraction(v)
            if isinstance(v, int):
                ok = (s.value == fv)
            else:
                # a Python float holds 53 bits, a double-precision BASIC number 56: evaluate() may have
                # rounded the value by up to one unit of the 53rd bit before it reaches the caller
                ok = abs(s.value - fv) < s.unit + abs(fv) * Fraction(1, 1 << 52)
            if not ok:
                res.violation('evaluate:number-differs-from-print', 'evaluate(%r) = %r, PRINT shows %r' % (e, v, shown), case)


# -------------------------------------------------------------------------------------------------
# nested lists <-> arrays

def _rand_elem(rng, sigil):
    if sigil == '%':
        return rng.choice((0, 1, -1, 32767, -32768)) if rng.random() < 0.2 else rng.randint(-32768, 32767)
    if sigil == '!':
        b = rng.getrandbits(24).to_bytes(3, 'little') + bytes([rng.randint(100, 160)])
        return float(rnum.decode(b))
    if sigil == '#':
        return math.ldexp(rng.random() - 0.5, rng.randint(-40, 40))
    ln = rng.choice((0, 1, 2, 5, 30))
    return bytes(rng.getrandbits(8) for _ in range(ln))


def _build(rng, sigil, dims):
    if len(dims) == 1:
        return [_rand_elem(rng, sigil) for _ in range(dims[0])]
    return [_build(rng, sigil, dims[1:]) for _ in range(dims[0])]


def _arrays(res, rng, n, directed=False):
    from .. import harness
    shapes = []
    if directed:
        for sigil in '%!#$':
            for base in (0, 1):
                for ub in ((0 + base,), (1 + base,), (10,), (2, 3), (3, 2), (1 + base, 1 + base), (2, 3, 4), (4, 3, 2), (1 + base, 2, 1 + base), (5, 1 + base)):
                    shapes.append((sigil, base, ub))
    for _ in range(n):
        sigil = rng.choice('%%!#$')
        base = rng.choice((0, 1))
        nd = rng.choice((1, 1, 2, 2, 3))
        while True:
            ub = tuple(rng.randint(base, rng.choice((2, 4, 9, 20))) for _ in range(nd))
            cells = 1
            for u in ub:
                cells *= (u - base + 1)
            if cells <= 400:
                break
        shapes.append((sigil, base, ub))
    boxes = {}
    try:
        for base in (0, 1):
            boxes[base] = harness.Box()
            if base:
                boxes[base].ex(b'OPTION BASE 1')
        count = {0: 0, 1: 0}
        sampled = 0
        for sigil, base, ub in shapes:
            box = boxes[base]
            count[base] += 1
            if count[base] % 40 == 0:
                # a fresh variable space now and then (CLEAR keeps OPTION BASE out: set it again)
                box.ex(b'CLEAR')
                if base:
                    box.ex(b'OPTION BASE 1')
            name = 'ARR' + sigil
            dims = tuple(u - base + 1 for u in ub)
            lst = _build(rng, sigil, dims)
            case = ['array', sigil, base, list(ub)]
            out = box.ex(b'ERASE ARR' + sigil.encode())
            out = box.ex(b'DIM ARR' + sigil.encode() + b'(' + b','.join(b'%d' % u for u in ub) + b')')
            if out:
                res.violation('array:dim-failed', 'DIM %s%r -> %r' % (name, ub, out), case)
                continue
            ok, _ = _api(res, box.set, case, name + '()', lst)
            if not ok:
                continue
            ok, got = _api(res, box.get, case, name + '()')
            if not ok:
                continue
            res.case(('array', sigil, base, ub, repr(lst)[:200]))
            res.count('arrays_roundtrips')
            if len(ub) == 3:
                res.count('arrays_3d_seen')
            if got != lst:
                shape = _shape(got)
                res.violation('array:list-roundtrip:%s' % ('shape' if shape != list(dims) else 'values'),
                              '%s%r base %d: list of shape %r reads back with shape %r%s' % (
                                  name, ub, base, list(dims), shape, '' if shape != list(dims) else ' and different values'), case)
                continue
            # element-wise from BASIC
            for _ in range(4):
                idx = tuple(rng.randint(base, u) for u in ub)
                want = lst
                for i in idx:
                    want = want[i - base]
                v = box.ev(b'ARR' + sigil.encode() + b'(' + b','.join(b'%d' % i for i in idx) + b')')
                res.count('array_elements_read_from_basic')
                if v != want:
                    res.violation('array:element-placement', '%s%r base %d: list element %r is %r, BASIC reads %r there'
                                  % (name, ub, base, idx, want, v), case)
                    break
            if sampled < 2:
                sampled += 1
                res.sample({'kind': 'array', 'name': name, 'base': base, 'DIM': list(ub), 'list': repr(lst)[:200]})
    finally:
        for b in boxes.values():
            b.close()


def _shape(l):
    s = []
    while isinstance(l, list):
        s.append(len(l))
        l = l[0] if l else None
    return s


# -------------------------------------------------------------------------------------------------
# round trips under memory pressure

def _fill(box, target, garbage):
    """
    Use up free memory until FRE(0) <= target without ever forcing a collection. garbage=True: by reassigning one
    variable (every earlier value stays behind as garbage in string space); False: by live strings G0$, G1$, ...
    Returns (free, names of live filler variables created).
    """
    live = []
    box.ex(b'X$=""')
    for i in range(60):
        free = int(box.ev(b'FRE(0)'))
        if free <= target:
            break
        if garbage:
            out = box.ex(b'X$=STRING$(%d,65)' % max(1, min(250, free - (target - 20))))
        else:
            # a new live variable each time; its record (name + 4 bytes) needs room as well
            k = min(250, free - target - 10)
            if k < 1:
                break
            out = box.ex(b'G%d$=STRING$(%d,66)' % (i, k))
            live.append('G%d$' % i)
        if out:
            # an error message (out of memory): as full as it gets
            break
    return int(box.ev(b'FRE(0)')), live


def _pressure_value(rng, sigil, n):
    if sigil == '$':
        a = rng.randrange(256)
        return bytes((a + j * 7) % 256 for j in range(n))
    if sigil == '%':
        return rng.randint(-32768, 32767)
    # exactly representable in both float types
    return rng.randint(-(1 << 20), 1 << 20) / 8.0


def _pressure(res, rng, n, directed=False):
    from .. import harness
    from pcbasic.basic.base import error
    trials = []
    if directed:
        # a new string scalar whose value leaves 0..14 bytes free, names of several lengths, garbage present
        for nlen in (1, 2, 8, 20, 39):
            for d in range(-2, 15):
                for target in (60, 250):
                    trials.append(('new-string-scalar', nlen, d, target, True))
        for d in range(-2, 12, 2):
            trials.append(('existing-string-scalar', 2, d, 120, True))
            trials.append(('string-array', 3, d, 250, True))
            trials.append(('new-numeric-scalar', 8, d, 30, True))
            trials.append(('new-string-scalar', 8, d, 120, False))
        # an array that does not exist yet (auto-dimensioned on first use) receiving strings
        for d in (0, 4, 8, 16):
            for target in (40, 60, 120):
                trials.append(('new-string-array', 3, d, target, True))
    for _ in range(n):
        q = rng.random()
        op = ('new-string-scalar' if q < 0.4 else 'existing-string-scalar' if q < 0.55 else 'string-array' if q < 0.7
              else 'new-numeric-scalar' if q < 0.8 else 'existing-numeric-scalar' if q < 0.87 else 'numeric-array' if q < 0.93
              else 'new-string-array')
        trials.append((op, rng.choice((1, 2, 2, 5, 8, 13, 25, 39, 40)), rng.choice((-8, -3, -1, 0, 1, 2, 3, 4, 5, 6, 8, 10, 13, 20, 40)),
                       rng.choice((20, 60, 120, 250, 250, 400)), rng.random() < 0.75))
    counter = 0
    sampled = 0
    box = None
    known = {}

    def fresh_box():
        nonlocal box, known
        if box is not None:
            box.close()
        box = harness.Box()
        box.ex(b'CLEAR ,%d' % rng.choice((5600, 6000, 7000, 9000)))
        known = {}
        box.ex(b'DIM PA$(5),PB$(2,2),PN%(6),PD#(3)')
        for name, val in (('ES$', b'existing string'), ('ET$', b''), ('EI%', -12345), ('EF!', 2.5), ('ED#', -1234.125)):
            box.set(name, val)
            known[name] = val
        for name, val in (('PA$()', [b'a', b'', b'ccc', b'dddd', b'e' * 20, b'\0\xff']), ('PN%()', [1, -2, 3, -4, 5, -6, 32767]),
                          ('PD#()', [0.5, -0.25, 1e10, 3.0])):
            box.set(name, val)
            known[name] = val

    def verify_others(case, skip):
        for nm, want in list(known.items()):
            if nm == skip:
                continue
            try:
                got = box.get(nm)
            except (harness.Internal, error.BASICError) as e:
                key = e.key if isinstance(e, harness.Internal) else 'api:basic-error-%s-on-get' % e.err
                res.violation(key, 'get_variable(%s) after %r: %s' % (nm, case, e), case)
                known.pop(nm, None)
                continue
            if got != want:
                res.violation('pressure:other-variable-changed', 'after %r the variable %s reads %r, it was set to %r'
                              % (case, nm, got if not isinstance(got, (bytes, list)) else got[:6], want if not isinstance(want, (bytes, list)) else want[:6]), case)
                known[nm] = got

    try:
        fresh_box()
        for op, nlen, d, target, garbage in trials:
            counter += 1
            # start over when little is left even after a collection
            box.ex(b'X$=""')
            if int(box.ev(b'FRE("")')) < target + 150 or len(known) > 60:
                fresh_box()
            try:
                free, live = _fill(box, target, garbage)
            except harness.Internal as e:
                res.violation(e.key, str(e), ['fill', target, garbage])
                fresh_box()
                continue
            sigil = '$'
            if op == 'new-string-scalar':
                name = ('Q%d' % counter + 'Z' * 40)[:nlen - 1] + '$' if nlen > len('Q%d' % counter) + 1 else 'Q%d$' % counter
                val = _pressure_value(rng, '$', max(0, min(255, free - d)))
            elif op == 'existing-string-scalar':
                name = rng.choice(('ES$', 'ET$'))
                val = _pressure_value(rng, '$', max(0, min(255, free - d)))
            elif op == 'new-numeric-scalar':
                sigil = rng.choice('%!#')
                name = ('R%d' % counter + 'Y' * 40)[:max(nlen - 1, len('R%d' % counter))] + sigil
                val = _pressure_value(rng, sigil, 0)
            elif op == 'existing-numeric-scalar':
                name = rng.choice(('EI%', 'EF!', 'ED#'))
                sigil = name[-1]
                val = _pressure_value(rng, sigil, 0)
            elif op == 'string-array':
                name = rng.choice(('PA$()', 'PB$()'))
                total = max(0, free - d)
                if name == 'PA$()':
                    lens = [min(255, total // 6 + (1 if i < total % 6 else 0)) for i in range(6)]
                    val = [_pressure_value(rng, '$', k) for k in lens]
                else:
                    lens = [min(255, total // 9 + (1 if i < total % 9 else 0)) for i in range(9)]
                    flat = [_pressure_value(rng, '$', k) for k in lens]
                    val = [flat[0:3], flat[3:6], flat[6:9]]
            elif op == 'numeric-array':
                name = rng.choice(('PN%()', 'PD#()'))
                val = [_pressure_value(rng, '%', 0) for _ in range(7)] if name == 'PN%()' else [_pressure_value(rng, '#', 0) for _ in range(4)]
            else:
                # an array that does not exist yet: BASIC dimensions it 0..10 on first use
                name = 'NA%d$()' % counter
                per = max(0, (free - d) // 11)
                val = [_pressure_value(rng, '$', min(255, per)) for _ in range(11)]
            case = ['pressure', op, name, 'free %d' % free, 'garbage' if garbage else 'no garbage',
                    val if not isinstance(val, list) else 'list']
            res.case(('pressure', op, nlen, d, target, garbage, counter))
            try:
                box.set(name, val)
            except error.BASICError as e:
                if e.err in (7, 14):
                    res.count('pressure_out_of_memory_seen')
                    known.pop(name, None)
                    verify_others(case, name)
                else:
                    res.violation('api:basic-error-%s-on-valid-value' % e.err, '%r raised %r' % (case, e), case)
                continue
            except harness.Internal as e:
                res.violation('pressure:%s:%s' % (op, e.key), 'set_variable under memory pressure: %s' % e, case)
                fresh_box()
                continue
            try:
                got = box.get(name)
                seen = box.ev(name.encode()) if not name.endswith('()') else None
                after = int(box.ev(b'FRE(0)'))
            except error.BASICError as e:
                res.violation('api:basic-error-%s-on-get' % e.err, 'get_variable(%s) after a successful set_variable: %r' % (name, e), case)
                continue
            except harness.Internal as e:
                res.violation('pressure:%s:%s' % (op, e.key), 'get_variable(%s) after a successful set_variable (%d bytes free before, %s): %s'
                              % (name, free, 'garbage present' if garbage else 'no garbage', e), case)
                fresh_box()
                continue
            res.count('pressure_roundtrips')
            res.count('pressure_%s_roundtrips' % op.replace('-', '_'))
            if after > free:
                res.count('pressure_collection_during_set_seen')
            if got != val:
                res.violation('pressure:%s:value' % op, 'set_variable(%s) with %d bytes free (%s) reads back %r, set to %r'
                              % (name, free, 'garbage present' if garbage else 'no garbage',
                                 got[:8] if isinstance(got, (bytes, list)) else got, val[:8] if isinstance(val, (bytes, list)) else val), case)
                known.pop(name, None)
            else:
                if seen is not None and seen != val:
                    res.violation('pressure:%s:api-set-not-seen-by-basic' % op, '%s set to %r, the expression evaluates to %r'
                                  % (name, val[:8] if isinstance(val, bytes) else val, seen[:8] if isinstance(seen, bytes) else seen), case)
                known[name] = val
            verify_others(case, name)
            if sampled < 2 and op == 'new-string-scalar':
                sampled += 1
                res.sample({'kind': 'pressure', 'op': op, 'name': name, 'free_before': free, 'free_after': after, 'value_length': len(val),
                            'garbage': garbage})
    finally:
        if box is not None:
            box.close()
