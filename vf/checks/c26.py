"""
C26 File sharing and record locks exclude each other.

Oracle: R-FILE lock table (vf.models.c26_locks) built from what BASIC *reported* (successful
OPEN / LOCK / UNLOCK / CLOSE) in a real sandboxed Session with 2-3 file numbers on one host
file of a native mount. After every step the statement's obligations are evaluated on that
boundary-level history; the interpreter's internal lock sets are inspected read-only as a
second, informational view.
"""
import random

from ..models import c26_locks as M

DEV_OPEN = 'open:file-open-for-output-or-append-opened-again-for-input-or-random'
DEV_GET = 'access:get-inside-lock-held-through-output-or-append-number-accepted'

META = {
    'property_id': 'C26',
    'technique': 'lock-table reference model over the BASIC-level history of OPEN/LOCK/UNLOCK/GET/PUT/CLOSE on 2-3 file numbers; directed 13-Allen-relation matrix',
    'level': 'exploration',
    'level_text': (
        'Every OPEN spells the one host file differently (bare name, C: prefix, leading backslash, .\\, SUB\\..\\, mixed case). Runtime oracle: (1) while a number holds the file FOR OUTPUT/APPEND every further OPEN (all modes, ACCESS and LOCK clauses) must '
        'fail and a plain OPEN must succeed again after CLOSE; (2) the table of ranges BASIC reported as locked and not yet unlocked/closed '
        'must stay pairwise non-overlapping (a <= d and c <= b; whole-file lock overlaps everything), same or different numbers; (3) LOCK of '
        'a range overlapping a held one must give exactly error 70; (4) GET/PUT of a record inside a range held through another number must '
        'fail, with an explicit record number or without one (record after the last one accessed through that number, record 1 on a fresh number); (5) a successful UNLOCK must name exactly the bounds of a range held through that number. Directed core in both tiers: all 13 '
        'Allen relations x both acquisition orders x same/different number x default/SHARED opens, the D4 shape (#1 holds 5 TO 6, LOCK #2, '
        '4 TO 7), whole-file locks, unlock with 8 perturbed bounds, OUTPUT/APPEND x second-open matrix; plus seeded adaptive histories.'),
    'level_note': (
        'Trusted: the harness, error messages mapped to codes. Pinned from the tree / GW-BASIC manual: LOCK and UNLOCK through a sequential-mode number (INPUT, OUTPUT, APPEND) ignore the bounds given and act on the whole file, so the model holds a whole-file lock for them and every LOCK / GET / PUT through another number must be refused whatever the bounds said. Not pinned by the statement, hence only observed and counted: whether a '
        'non-overlapping LOCK, an exact UNLOCK, an access outside foreign locks, or a second OPEN among INPUT/RANDOM numbers succeeds '
        '(sharing matrix of ACCESS/LOCK clauses); which error a refused OPEN/GET/PUT/UNLOCK gives; locks of a CLOSEd number (the model '
        'drops them); access inside one\'s own lock;  the record position after a refused access (the model forgets it; no implicit access until an explicit one succeeds); reversed or out-of-range bounds; bounds above 2^24 (record numbers are single precision in GW-BASIC, so e.g. 26228589 and 26228588 are the same bound: observed, UNLOCK with the aliased bound succeeds). Internal lock-set inspection is informational '
        '(skipped silently if the attributes are renamed). Two GW-BASIC-compatible behaviours contradict the literal statement and are '
        'reported under their own keys: OPEN FOR INPUT/RANDOM of a file open FOR OUTPUT/APPEND is accepted, and GET inside a lock held '
        'through such an OUTPUT/APPEND number is accepted (tests/basic/unsorted/LockFilesOutput model from GW-BASIC 3.23).'),
    'rule': ('case = one executed history (ops with outcomes); distinct by the expanded history; non-trivial = at least two numbers were '
             'open together and at least one LOCK was requested'),
    'design_ref': 'DESIGN.md section 4 C26',
    'assumptions': ['interval overlap = a <= d and c <= b on record numbers'],
    'require_counters': {'any': ['locks_granted', 'locks_refused', 'unlocks_granted', 'unlocks_refused_other_bounds',
                                 'access_refused_in_foreign_lock', 'second_open_refused', 'histories_with_3_numbers',
                                 'opens_with_other_spelling_of_open_file', 'locks_refused_across_spellings',
                                 'implicit_access_refused_in_foreign_lock', 'implicit_first_access_of_fresh_number',
                                 'ranged_locks_held_through_sequential_number', 'access_refused_by_lock_of_sequential_number',
                                 'allen_relations_exercised']},
    'timeout': {'quick': 900, 'thorough': 10800},
}

FNAME = 'L.DAT'
RECLEN = 8
# spellings of the ONE host file <mount>/L.DAT (SUB is an empty directory created in the mount); every OPEN picks one
SPELLINGS = [b'L.DAT', b'C:L.DAT', b'\\L.DAT', b'C:\\L.DAT', b'.\\L.DAT', b'SUB\\..\\L.DAT', b'l.dat', b'L.dat',
             b'c:\\Sub\\..\\l.Dat', b'C:.\\L.DAT']


def plan(tier, seed):
    shards = [{'kind': 'directed', 'part': i} for i in range(3)]
    if tier == 'quick':
        for i in range(9):
            shards.append({'kind': 'random', 'part': i, 'n': 170})
    else:
        for i in range(40):
            shards.append({'kind': 'random', 'part': i, 'n': 1500})
    return shards


# ---------------------------------------------------------------------------------------
# statement text

def open_cmd(op):
    n = op['f']
    fname = SPELLINGS[op.get('spell', 0) % len(SPELLINGS)]
    if op.get('syntax') == 'old':
        return b'OPEN "%s",#%d,"%s",%d' % (op['mode'].encode(), n, fname, RECLEN)
    mode = {'R': b'FOR RANDOM ', 'I': b'FOR INPUT ', 'O': b'FOR OUTPUT ', 'A': b'FOR APPEND ', '': b''}[op['mode'] if not op.get('nomode') else '']
    acc = {'': b'', 'R': b'ACCESS READ ', 'W': b'ACCESS WRITE ', 'RW': b'ACCESS READ WRITE '}[op.get('access', '')]
    lck = {'': b'', 'SHARED': b'SHARED ', 'R': b'LOCK READ ', 'W': b'LOCK WRITE ', 'RW': b'LOCK READ WRITE '}[op.get('lock', '')]
    tail = b' LEN=%d' % RECLEN if op['mode'] == 'R' else b''
    return b'OPEN "%s" %s%s%sAS #%d%s' % (fname, mode, acc, lck, n, tail)


def range_text(rng, form='to'):
    if rng == M.WHOLE:
        return b''
    a, b = rng
    if a == b and form == 'single':
        return b', %d' % a
    return b', %d TO %d' % (a, b)


# ---------------------------------------------------------------------------------------
# one executed history

class Stop(Exception):
    pass


class History(object):

    def __init__(self, box, res):
        self.box = box
        self.res = res
        self.open = {}        # number -> op dict of the successful OPEN
        self.table = M.LockTable()
        self.trace = []
        self.max_open = 0
        self.lock_requests = 0
        self.differently_spelled = False
        self.pos = {}         # R-mode number -> last record accessed successfully (0 = none yet), None = not pinned

    # -- helpers ------------------------------------------------------------------------
    def fail(self, key, what):
        self.res.violation(key, what, {'history': self.trace})
        raise Stop()

    def note(self, key, what):
        self.res.violation(key, what, {'history': self.trace})

    def ex(self, cmd):
        from .. import harness
        out = self.box.ex(cmd)
        code, _ = harness.err_of(out)
        if not code and out.strip():
            code = -1
        self.trace.append([cmd.decode('latin-1'), code])
        return code, out

    def inspect_internal(self):
        """Informational second view: the interpreter's own lock sets must be pairwise disjoint as well."""
        try:
            locks = self.box.impl.files._devices[b'C:']._locks._locking_parameters
            held = []
            for num, par in locks.items():
                for (a, b) in par.lock_set:
                    held.append((num, M.WHOLE if a is None and b is None else (a, b)))
        except Exception:
            return
        self.res.count('internal_lock_sets_inspected')
        for i in range(len(held)):
            for j in range(i + 1, len(held)):
                if M.overlaps(held[i][1], held[j][1]):
                    self.fail('lockset:internal-ranges-overlap', 'internal lock sets hold overlapping ranges %r and %r' % (held[i], held[j]))

    # -- steps ---------------------------------------------------------------------------
    def step(self, op):
        kind = op['op']
        getattr(self, 'do_' + kind)(op)
        pairs = self.table.overlapping_pairs()
        if pairs:
            self.fail('lock:table-of-granted-ranges-overlaps', 'ranges reported as held overlap: %r' % (pairs[0],))
        self.inspect_internal()
        self.max_open = max(self.max_open, len(self.open))

    def do_open(self, op):
        n = op['f']
        if n in self.open:
            return
        holders = [m for m, o in self.open.items() if o['mode'] in 'OA']
        code, out = self.ex(open_cmd(op))
        if self.open and any(o.get('spell', 0) % len(SPELLINGS) != op.get('spell', 0) % len(SPELLINGS) for o in self.open.values()):
            self.res.count('opens_with_other_spelling_of_open_file')
            if code == 0:
                self.differently_spelled = True
        if holders:
            first = self.open[holders[0]]['mode']
            if code == 0:
                if op['mode'] in 'IR':
                    self.note(DEV_OPEN, 'file open FOR %s as #%d was opened again by %r' % (
                        {'O': 'OUTPUT', 'A': 'APPEND'}[first], holders[0], open_cmd(op)))
                else:
                    self.note('open:file-open-for-output-or-append-opened-again-for-output-or-append',
                              'file open FOR %s as #%d was opened again by %r' % ({'O': 'OUTPUT', 'A': 'APPEND'}[first], holders[0], open_cmd(op)))
                if op.get('keep'):
                    self.open[n] = op
                    self.pos[n] = 0
                else:
                    self.ex(b'CLOSE #%d' % n)
            else:
                self.res.count('second_open_refused')
            return
        if code == 0:
            self.open[n] = op
            self.pos[n] = 0
            self.res.count('opens_granted')
            if len(self.open) == 3:
                self.res.count('histories_with_3_numbers')
        else:
            if op.get('must_succeed'):
                self.fail('open:refused-after-output-holder-closed', '%r -> %r although no number holds the file' % (open_cmd(op), out))
            self.res.count('opens_refused_unpinned')

    def do_close(self, op):
        n = op['f']
        if n not in self.open:
            return
        code, out = self.ex(b'CLOSE #%d' % n)
        if code:
            self.fail('stmt:unexpected-error:close', 'CLOSE #%d -> %r' % (n, out))
        del self.open[n]
        self.pos.pop(n, None)
        self.table.drop_number(n)

    def do_lock(self, op):
        n = op['f']
        if n not in self.open:
            return
        rng = op['range'] if op['range'] == M.WHOLE else tuple(op['range'])
        asked = rng
        if self.open[n]['mode'] != 'R':
            # a lock through a sequential-mode number (INPUT / OUTPUT / APPEND) covers the whole file whatever
            # bounds are given (GW-BASIC manual; pinned from the tree): the model holds WHOLE for it
            if rng != M.WHOLE:
                self.res.count('ranged_lock_requests_through_sequential_number')
            rng = M.WHOLE
        self.lock_requests += 1
        conflicts = self.table.conflicts(rng)
        code, out = self.ex(b'LOCK #%d%s' % (n, range_text(asked, op.get('form', 'to'))))
        for hn, hr in conflicts:
            self.res.count('allen_relations_exercised')
            self.res.count('rel_' + M.allen(rng, hr))
        if conflicts:
            hn, hr = conflicts[0]
            who = 'same-number' if hn == n else 'other-number'
            rel = M.allen(rng, hr)
            if code == 0:
                self.table.add(n, rng)
                self.fail('lock:new-range-%s-held-range-accepted:%s' % (rel, who),
                          '#%d holds %r; LOCK #%d, %r was granted' % (hn, hr, n, rng))
            if code != 70:
                self.fail('lock:overlapping-range-refused-with-other-error', '#%d holds %r; LOCK #%d, %r -> %r (expected Permission denied)' % (hn, hr, n, rng, out))
            self.res.count('locks_refused')
            if self.differently_spelled:
                self.res.count('locks_refused_across_spellings')
            if who == 'same-number':
                self.res.count('locks_refused_same_number')
        else:
            for hn, hr in self.table.held:
                self.res.count('allen_relations_exercised')
                self.res.count('rel_' + M.allen(rng, hr))
            if code == 0:
                self.table.add(n, rng)
                self.res.count('locks_granted')
                if asked != rng:
                    self.res.count('ranged_locks_held_through_sequential_number')
                self.res.maxc('max_ranges_held', len(self.table.held))
            else:
                self.res.count('nonoverlapping_lock_refused_unpinned')

    def do_unlock(self, op):
        n = op['f']
        if n not in self.open:
            return
        rng = op['range'] if op['range'] == M.WHOLE else tuple(op['range'])
        asked = rng
        if self.open[n]['mode'] != 'R':
            # bounds are ignored on sequential-mode numbers: any UNLOCK names the whole-file lock
            rng = M.WHOLE
        code, out = self.ex(b'UNLOCK #%d%s' % (n, range_text(asked, op.get('form', 'to'))))
        if code == 0:
            if self.table.holds(n, rng):
                self.table.remove(n, rng)
                self.res.count('unlocks_granted')
                return
            others = [m for m in self.table.holders_of(rng) if m != n]
            if others:
                self.fail('unlock:succeeds-for-range-held-through-another-number', 'UNLOCK #%d, %r succeeded; that range is held through #%d' % (n, rng, others[0]))
            own = [r for m, r in self.table.held if m == n and M.overlaps(r, rng)]
            if own:
                self.fail('unlock:other-bounds-accepted', 'UNLOCK #%d, %r succeeded; #%d holds %r' % (n, rng, n, own[0]))
            self.fail('unlock:never-locked-range-accepted', 'UNLOCK #%d, %r succeeded; nothing with these bounds is held' % (n, rng))
        else:
            if self.table.holds(n, rng):
                self.res.count('exact_unlock_refused_unpinned')
            else:
                self.res.count('unlocks_refused_other_bounds')

    def _access(self, op, verb):
        """
        GET / PUT with an explicit record number, or without one: then the record addressed is the one after the
        last record this number accessed successfully (record 1 on a fresh number). After a refused access the
        position is not pinned, so the model forgets it and no implicit access is issued until an explicit one succeeds.
        """
        n = op['f']
        if n not in self.open or self.open[n]['mode'] != 'R':
            return
        implicit = op.get('r') is None
        if implicit:
            if self.pos.get(n) is None:
                self.res.count('implicit_access_skipped_position_unknown')
                return
            r = self.pos[n] + 1
            cmd = b'%s #%d' % (verb, n)
            how = 'implicit-'
            self.res.count('implicit_accesses')
            if self.pos[n] == 0:
                self.res.count('implicit_first_access_of_fresh_number')
        else:
            r = op['r']
            cmd = b'%s #%d, %d' % (verb, n, r)
            how = ''
        foreign = self.table.locked_by_other(n, r)
        code, out = self.ex(cmd)
        self.pos[n] = r if code == 0 else None
        if foreign:
            hn, hr = foreign[0]
            if code == 0:
                if verb == b'GET' and self.open[hn]['mode'] in 'OA':
                    self.note(DEV_GET, '#%d (open FOR %s) holds %r; GET #%d, %d succeeded' % (hn, self.open[hn]['mode'], hr, n, r))
                    return
                self.fail('access:%s%s-inside-range-locked-through-another-number-accepted' % (how, verb.decode().lower()),
                          '#%d holds %r; %r reached record %d and succeeded' % (hn, hr, cmd, r))
            self.res.count('access_refused_in_foreign_lock')
            if hr == M.WHOLE and self.open[hn]['mode'] != 'R':
                self.res.count('access_refused_by_lock_of_sequential_number')
            if implicit:
                self.res.count('implicit_access_refused_in_foreign_lock')
        else:
            if code == 0:
                self.res.count('access_granted_outside_foreign_locks')
                if self.table.locked_by_self(n, r):
                    self.res.count('access_granted_in_own_lock')
            else:
                self.res.count('access_refused_unpinned')

    def do_get(self, op):
        self._access(op, b'GET')

    def do_put(self, op):
        self._access(op, b'PUT')


# ---------------------------------------------------------------------------------------
# adaptive random histories

def _related_range(rng, held):
    if held == M.WHOLE:
        a = rng.randint(1, 12)
        return (a, a + rng.randint(0, 3))
    rel = rng.choice(M.OVERLAPPING + M.DISJOINT)
    c, d = held
    n = d - c
    pick = {
        'before': (c - 3, c - 2), 'meets': (c - 2, c - 1), 'met-by': (d + 1, d + 2), 'after': (d + 2, d + 4),
        'equals': (c, d), 'starts': (c, d - 1), 'started-by': (c, d + 1), 'finishes': (c + 1, d), 'finished-by': (c - 1, d),
        'during': (c + 1, d - 1), 'contains': (c - 1, d + 1), 'overlaps': (c - 1, c), 'overlapped-by': (d, d + 1),
    }[rel]
    a, b = pick
    if a < 1 or b < a:
        return (max(1, c), max(1, c))
    return (a, b)


def _rand_range(rng, table):
    x = rng.random()
    if x < 0.05:
        return M.WHOLE
    if x < 0.5 and table.held:
        return _related_range(rng, rng.choice(table.held)[1])
    if x < 0.54:
        a = rng.randint(10 ** 6, 2 ** 24 - 2000)   # above 2^24 record numbers alias in single precision: not pinned
        return (a, a + rng.randint(0, 1000))
    a = rng.randint(1, 14)
    return (a, a + rng.choice([0, 0, 1, 2, 3, 6]))


def _perturb(rng, r):
    if r == M.WHOLE:
        a = rng.randint(1, 10)
        return (a, a + 2)
    a, b = r
    cand = [(a, b + 1), (a + 1, b), (a - 1, b), (a, b - 1), (a + 1, b + 1), (a, a), (b, b), (a - 1, b + 1), M.WHOLE, (1, b)]
    cand = [c for c in cand if c == M.WHOLE or (c[0] >= 1 and c[1] >= c[0] and c != r)]
    return rng.choice(cand)


def random_history(rng, h):
    family = rng.choice(['', '', 'SHARED', 'SHARED', 'mixed'])
    nops = rng.randint(12, 40)

    def rand_open(n):
        mode = rng.choice('RRRRRRRRIIOA')
        op = {'op': 'open', 'f': n, 'mode': mode, 'spell': 0 if rng.random() < 0.3 else rng.randrange(len(SPELLINGS))}
        if family == 'mixed':
            op['lock'] = rng.choice(['', 'SHARED', 'R', 'W', 'RW'])
            op['access'] = rng.choice(['', '', 'R', 'W', 'RW'])
        else:
            op['lock'] = family
            op['access'] = rng.choice(['', '', '', 'RW', 'R' if mode in 'RI' else 'W'])
        if mode == 'I' and op['access'] not in ('', 'R'):
            op['access'] = 'R'
        if mode == 'O' and op['access'] not in ('', 'W'):
            op['access'] = 'W'
        if mode == 'A' and op['access'] not in ('', 'RW'):
            op['access'] = ''
        if mode in 'IR' and rng.random() < 0.3:
            # if this OPEN is accepted next to an OUTPUT/APPEND holder (known deviation), keep both numbers open
            op['keep'] = True
        if not op['lock'] and not op['access'] and rng.random() < 0.3:
            op['syntax'] = 'old'
        elif mode == 'R' and rng.random() < 0.2:
            op['nomode'] = True
        return op

    for _ in range(nops):
        closed = [n for n in (1, 2, 3) if n not in h.open]
        x = rng.random()
        if closed and (len(h.open) < 2 and x < 0.7 or x < 0.10):
            h.step(rand_open(rng.choice(closed)))
            continue
        if not h.open:
            continue
        n = rng.choice(sorted(h.open))
        if x < 0.16:
            h.step({'op': 'close', 'f': n})
        elif x < 0.48:
            r = _rand_range(rng, h.table)
            h.step({'op': 'lock', 'f': n, 'range': r, 'form': rng.choice(['to', 'single'])})
        elif x < 0.66:
            y = rng.random()
            mine = [r for m, r in h.table.held if m == n]
            if y < 0.5 and mine:
                r = rng.choice(mine)
            elif y < 0.7 and h.table.held:
                r = rng.choice(h.table.held)[1]
            elif h.table.held:
                r = _perturb(rng, rng.choice(mine or [q for m, q in h.table.held]))
            else:
                r = _rand_range(rng, h.table)
            h.step({'op': 'unlock', 'f': n, 'range': r, 'form': rng.choice(['to', 'single'])})
        else:
            held = [r for m, r in h.table.held if r != M.WHOLE and r[0] <= 40]
            verb = 'put' if rng.random() < 0.5 else 'get'
            foreign = [r for m, r in h.table.held if m != n and r != M.WHOLE and r[0] <= 40]
            y = rng.random()
            if y < 0.3 and h.pos.get(n) is not None:
                # no record number: the record after the last one accessed through this number
                h.step({'op': verb, 'f': n, 'r': None})
                continue
            if y < 0.5 and foreign:
                # walk into a foreign lock without naming the record: position just before it, then implicit access
                a, b = rng.choice(foreign)
                if a > 1:
                    h.step({'op': 'get', 'f': n, 'r': a - 1})
                if a > 1 or h.pos.get(n) == 0:
                    h.step({'op': verb, 'f': n, 'r': None})
                    if rng.random() < 0.5:
                        h.step({'op': 'put' if verb == 'get' else 'get', 'f': n, 'r': None})
                    continue
            if held and rng.random() < 0.6:
                a, b = rng.choice(held)
                r = rng.choice([a, b, rng.randint(a, b), max(1, a - 1), b + 1])
            else:
                r = rng.randint(1, 16)
            h.step({'op': verb, 'f': n, 'r': r})
    for n in sorted(h.open):
        h.step({'op': 'close', 'f': n})


# ---------------------------------------------------------------------------------------
# directed core

def _op_open(n, mode='R', lock='', access='', **kw):
    d = {'op': 'open', 'f': n, 'mode': mode, 'lock': lock, 'access': access}
    d.update(kw)
    return d


def directed_scripts(part):
    scripts = []
    base = (10, 20)
    ex = M.relation_examples(base)
    if part == 0:
        # 13 Allen relations x both acquisition orders x same / different number x default / SHARED
        for fam in ('', 'SHARED'):
            for rel, other in sorted(ex.items()):
                for first, second in ((base, other), (other, base)):
                    for n1, n2 in ((1, 2), (1, 1), (2, 1)):
                        s = [_op_open(1, lock=fam), _op_open(2, lock=fam),
                             {'op': 'lock', 'f': n1, 'range': first}, {'op': 'lock', 'f': n2, 'range': second}]
                        # accesses from the other number on both ends and the middle of the first range
                        o = 2 if n1 == 1 else 1
                        a, b = first
                        for r in (a, b, (a + b) // 2):
                            s += [{'op': 'get', 'f': o, 'r': r}, {'op': 'put', 'f': o, 'r': r}]
                        s += [{'op': 'get', 'f': o, 'r': max(1, a - 1)}, {'op': 'put', 'f': o, 'r': b + 1}]
                        # the same without naming the record: position on a-1, then GET / PUT with no record number
                        s += [{'op': 'get', 'f': o, 'r': a - 1}, {'op': 'get', 'f': o, 'r': None},
                              {'op': 'put', 'f': o, 'r': a - 1}, {'op': 'put', 'f': o, 'r': None},
                              {'op': 'get', 'f': o, 'r': a - 2}, {'op': 'put', 'f': o, 'r': None}, {'op': 'get', 'f': o, 'r': None}]
                        # unlock with other bounds, through the other number, then exactly
                        for p in ((a, b + 1), (a + 1, b), (a - 1, b), (a, b - 1), (a, a), (b, b), (a - 1, b + 1), M.WHOLE):
                            if p == M.WHOLE or (p[0] >= 1 and p[1] >= p[0]):
                                s.append({'op': 'unlock', 'f': n1, 'range': p})
                        s += [{'op': 'unlock', 'f': o, 'range': first}, {'op': 'unlock', 'f': n1, 'range': first},
                              {'op': 'unlock', 'f': n1, 'range': first}, {'op': 'lock', 'f': o, 'range': first},
                              {'op': 'close', 'f': 1}, {'op': 'close', 'f': 2}]
                        scripts.append(s)
    elif part == 1:
        # the D4 shape and its neighbours, single-record ranges, whole-file locks, three numbers
        for fam in ('', 'SHARED'):
            scripts.append([_op_open(1, lock=fam), _op_open(2, lock=fam), {'op': 'lock', 'f': 1, 'range': (5, 6)},
                            {'op': 'lock', 'f': 2, 'range': (4, 7)}, {'op': 'close', 'f': 1}, {'op': 'close', 'f': 2}])
            for held in ((5, 5), (5, 6), (1, 1), (3, 9)):
                for new in ((4, 7), (5, 5), (1, 16000000), (held[0] - 1 or 1, held[1] + 1), (held[1], held[1] + 3), (1, held[0]), M.WHOLE):
                    for n2 in (1, 2, 3):
                        scripts.append([_op_open(1, lock=fam), _op_open(2, lock=fam), _op_open(3, lock=fam),
                                        {'op': 'lock', 'f': 1, 'range': held, 'form': 'single'}, {'op': 'lock', 'f': n2, 'range': new, 'form': 'single'},
                                        {'op': 'get', 'f': 3, 'r': held[0]}, {'op': 'put', 'f': 2, 'r': held[1]}, {'op': 'get', 'f': 1, 'r': held[0]},
                                        {'op': 'unlock', 'f': 1, 'range': new}, {'op': 'unlock', 'f': 1, 'range': held},
                                        {'op': 'close', 'f': 1}, {'op': 'close', 'f': 2}, {'op': 'close', 'f': 3}])
            for n2 in (1, 2):
                scripts.append([_op_open(1, lock=fam), _op_open(2, lock=fam), {'op': 'lock', 'f': 1, 'range': M.WHOLE},
                                {'op': 'lock', 'f': n2, 'range': (3, 4)}, {'op': 'lock', 'f': n2, 'range': M.WHOLE},
                                {'op': 'get', 'f': 2, 'r': 1}, {'op': 'put', 'f': 2, 'r': 9}, {'op': 'unlock', 'f': 1, 'range': (1, 9)},
                                {'op': 'unlock', 'f': 2, 'range': M.WHOLE}, {'op': 'unlock', 'f': 1, 'range': M.WHOLE},
                                {'op': 'lock', 'f': 2, 'range': (3, 4)}, {'op': 'lock', 'f': 1, 'range': M.WHOLE},
                                {'op': 'close', 'f': 2}, {'op': 'lock', 'f': 1, 'range': M.WHOLE}, {'op': 'close', 'f': 1}])
            # first access of a fresh number without a record number (addresses record 1), then walking on
            for held in ((1, 1), (1, 2), (2, 2), M.WHOLE):
                for verb in ('get', 'put'):
                    scripts.append([_op_open(1, lock=fam), _op_open(2, lock=fam), {'op': 'lock', 'f': 1, 'range': held},
                                    _op_open(3, lock=fam), {'op': verb, 'f': 3, 'r': None}, {'op': verb, 'f': 2, 'r': None},
                                    {'op': verb, 'f': 2, 'r': None}, {'op': 'get', 'f': 1, 'r': None},
                                    {'op': 'unlock', 'f': 1, 'range': held}, {'op': 'get', 'f': 3, 'r': 1}, {'op': 'lock', 'f': 1, 'range': (2, 3)},
                                    {'op': verb, 'f': 3, 'r': None}, {'op': 'get', 'f': 2, 'r': 3}, {'op': 'get', 'f': 2, 'r': 1}, {'op': 'put', 'f': 2, 'r': None},
                                    {'op': 'close', 'f': 1}, {'op': 'close', 'f': 2}, {'op': 'close', 'f': 3}])
            # ranged LOCK / UNLOCK through a sequential-mode number (INPUT, OUTPUT, APPEND) next to a RANDOM number
            for seqmode in 'IOA':
                for held in ((3, 5), (1, 1), (12, 40)):
                    a, b = held
                    scripts.append([_op_open(1, mode=seqmode, lock=fam), _op_open(2, lock=fam, keep=True), _op_open(3, lock=fam, keep=True),
                                    {'op': 'lock', 'f': 1, 'range': held, 'form': 'single'},
                                    {'op': 'get', 'f': 2, 'r': a}, {'op': 'put', 'f': 2, 'r': b}, {'op': 'get', 'f': 3, 'r': b + 4},
                                    {'op': 'put', 'f': 2, 'r': b + 4}, {'op': 'put', 'f': 3, 'r': b + 1}, {'op': 'put', 'f': 3, 'r': None},
                                    {'op': 'lock', 'f': 2, 'range': (b + 3, b + 4)}, {'op': 'lock', 'f': 3, 'range': held}, {'op': 'lock', 'f': 1, 'range': (b + 6, b + 7)},
                                    {'op': 'unlock', 'f': 2, 'range': held}, {'op': 'unlock', 'f': 1, 'range': (a, b + 1)},
                                    {'op': 'lock', 'f': 2, 'range': (b + 3, b + 4)}, {'op': 'lock', 'f': 1, 'range': (a, b)},
                                    {'op': 'put', 'f': 3, 'r': b + 3}, {'op': 'put', 'f': 3, 'r': a},
                                    {'op': 'unlock', 'f': 2, 'range': (b + 3, b + 4)}, {'op': 'lock', 'f': 1, 'range': (50, 60)},
                                    {'op': 'put', 'f': 2, 'r': a}, {'op': 'lock', 'f': 3, 'range': (1, 2)}, {'op': 'unlock', 'f': 1, 'range': M.WHOLE},
                                    {'op': 'put', 'f': 2, 'r': a}, {'op': 'close', 'f': 1}, {'op': 'close', 'f': 2}, {'op': 'close', 'f': 3}])
            # a sequential-mode number next to a random one
            scripts.append([_op_open(1, lock=fam), _op_open(2, mode='I', lock=fam), {'op': 'lock', 'f': 2, 'range': M.WHOLE},
                            {'op': 'lock', 'f': 1, 'range': (2, 3)}, {'op': 'get', 'f': 1, 'r': 2}, {'op': 'put', 'f': 1, 'r': 5},
                            {'op': 'unlock', 'f': 2, 'range': M.WHOLE}, {'op': 'lock', 'f': 1, 'range': (2, 3)},
                            {'op': 'lock', 'f': 2, 'range': M.WHOLE}, {'op': 'close', 'f': 1}, {'op': 'close', 'f': 2}])
    else:
        # OUTPUT / APPEND exclusion matrix
        for first in 'OA':
            for fl in ('', 'SHARED', 'W'):
                for second in 'IOAR':
                    for sl in ('', 'SHARED', 'RW'):
                        for sa in ('', {'I': 'R', 'O': 'W', 'A': 'RW', 'R': 'RW'}[second]):
                            scripts.append([_op_open(1, mode=first, lock=fl), _op_open(2, mode=second, lock=sl, access=sa),
                                            {'op': 'close', 'f': 1}, _op_open(2, mode=second if second != 'O' else 'I', must_succeed=True),
                                            {'op': 'close', 'f': 2}])
                    scripts.append([_op_open(1, mode=first, lock=fl), _op_open(3, mode=second, syntax='old'), {'op': 'close', 'f': 1},
                                    {'op': 'close', 'f': 3}])
            # same-number double lock on the output file; lock held through the OUTPUT number vs a RANDOM number
            scripts.append([_op_open(1, mode=first), {'op': 'lock', 'f': 1, 'range': M.WHOLE}, {'op': 'lock', 'f': 1, 'range': M.WHOLE},
                            {'op': 'unlock', 'f': 1, 'range': M.WHOLE}, {'op': 'unlock', 'f': 1, 'range': M.WHOLE}, {'op': 'close', 'f': 1}])
            scripts.append([_op_open(1, mode=first), {'op': 'lock', 'f': 1, 'range': M.WHOLE}, _op_open(3, mode='R', keep=True),
                            {'op': 'get', 'f': 3, 'r': 2}, {'op': 'put', 'f': 3, 'r': 2}, {'op': 'lock', 'f': 3, 'range': (1, 3)},
                            {'op': 'close', 'f': 3}, {'op': 'close', 'f': 1}])
    return scripts


# ---------------------------------------------------------------------------------------

def _fresh_file(box):
    import os
    os.makedirs(box.path('SUB'), exist_ok=True)
    with open(box.path(FNAME), 'wb') as f:
        f.write(bytes(i & 0xff for i in range(RECLEN * 24)))


def _run(res, n, make):
    from .. import harness
    box = None
    try:
        for i in range(n):
            if box is None:
                box = harness.Box(budget=20000)
            _fresh_file(box)
            h = History(box, res)
            try:
                make(i, h)
            except Stop:
                pass
            except harness.Internal as e:
                res.violation(e.key, str(e), {'history': h.trace})
            res.case(repr(h.trace), nontrivial=(h.max_open >= 2 and h.lock_requests >= 1))
            res.count('histories')
            if i < 2:
                res.sample({'history': h.trace})
            try:
                box.ex(b'CLOSE')
            except harness.Internal:
                box.close()
                box = None
    finally:
        if box is not None:
            box.close()


def run_shard(spec, res):
    kind = spec['kind']
    rng = random.Random('%s:C26:%s:%s' % (spec['seed'], kind, spec.get('part', 0)))
    if kind == 'directed':
        scripts = directed_scripts(spec['part'])
        res.count('directed_histories', len(scripts))

        def make(i, h):
            # every OPEN of a directed history spells the file differently (rotating through SPELLINGS)
            k = 0
            for op in scripts[i]:
                if op['op'] == 'open':
                    op = dict(op, spell=(i * 3 + 4 * k) % len(SPELLINGS) if k else i % len(SPELLINGS))
                    k += 1
                h.step(op)
        return _run(res, len(scripts), make)
    return _run(res, spec['n'], lambda i, h: random_history(rng, h))
