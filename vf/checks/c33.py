"""
C33 DRAW moves the pen exactly as its commands specify.

A case is a STRUCTURED command list (vf.models.gfx.pen_run is the reference; it never sees the text)
rendered into DRAW text with random surface variation: counts given / omitted, blanks, ';',
'=var;' references (integer and single variables), X substrings by name and by VARPTR$,
B / N prefixes, relative and absolute M, S n, C n.  No A / TA (the statement excludes turning).

 main session : [PSET (x,y),0]  ->  start = POINT(0),POINT(1) read back
                DRAW <text>     ->  POINT(0),POINT(1) must equal the reference pen position
                                    (sum over moves of trunc(offset*scale/4) per axis, absolute M,
                                    B, N)                                        draw:pen-position
 twin session : LINE (x0,y0)-(x1,y1),c for every reference segment, in order
                page of main == page of twin                                      draw:segment-differs-from-LINE
 a well-formed string raising an error                                            draw:error
"""
import random
import time

from .. import harness
from ..models import gfx

META = {
    'property_id': 'C33',
    'technique': 'reference pen arithmetic on structured commands vs POINT(0)/POINT(1); drawn picture vs the same segments drawn by LINE on a twin session',
    'level': 'exploration',
    'level_text': (
        'Runtime oracle on the real interpreter: generated DRAW strings (U D L R E F G H with and without counts, M+-x,+-y, Mx,y, S 1..255, '
        'B, N, C, nested X substrings, =var; references, blanks and semicolons) are executed; the pen position read back through '
        'POINT(0)/POINT(1) is compared with an independent model and the whole page is compared with a twin session that drew the model\'s '
        'segments with LINE. 8 adapter/mode pairs including non-square pixels (SCREEN 2, Hercules, Tandy 160x200). A seed-independent core '
        'enumerates every direction x count x scale 1..12,16,60,255 (truncation table), all sign forms of M, prefixes, nesting and references.'),
    'level_note': (
        'pcbasic applies no per-axis aspect scaling when the angle is 0, so the statement\'s plain arithmetic is used in every mode. '
        'Between DRAW statements every other statement that can move the graphics cursor is interleaved (PSET, PRESET, LINE forms, CIRCLE, PAINT, GET, PUT, VIEW, WINDOW, CLS, SCREEN): a twin that reached the same point by PSET instead of DRAW must then report the same POINT(0)/POINT(1) and show the same page, and the next DRAW continues from there. B and N may stand apart from their move, in either order, with C, S, A0, TA0, move-free X substrings, blanks and semicolons in between: the reference keeps the prefix pending until the next move (a pending prefix in front of a substring that itself moves is not pinned and not generated). Not pinned by the statement and therefore not generated: turning (A/TA other than 0), P, negative or blank-split counts, colours outside the attribute '
        'range, the colour used before any C (every string starts with an explicit C), whether S persists over CLS (strings without S '
        'are only run in a fresh session before any S was given; all others begin with an explicit S). Per-segment equality with LINE is '
        'observed as equality of the final pages after the same segment sequence (single-segment strings give it exactly). '
        'Truncation is taken toward zero. Pen positions are kept within about +-400 pixels of the screen.'),
    'rule': ('case = (mode, start position, structured command list, rendered text); distinct by the rendered statement + start; '
             'non-trivial = at least one move command (every generated string has one)'),
    'design_ref': 'DESIGN.md section 4 C33',
    'assumptions': ['POINT(0)/POINT(1) after PSET report the PSET position (used as the start of the pen)'],
    'require_counters': {'any': ['interleaved_statements', 'interleaved_circle', 'interleaved_paint', 'interleaved_put', 'interleaved_view', 'interleaved_cls', 'interleaved_screen_trip', 'strings', 'moves', 'moves_without_count', 'scaled_fractional_moves', 'relative_m', 'absolute_m',
                                 'prefix_b', 'prefix_n', 'detached_prefix_b', 'detached_prefix_n', 'prefix_kept_over_commands', 'substrings', 'varptr_substrings', 'variable_refs', 'no_scale_strings',
                                 'segments_compared', 'colour_changes', 'pen_offscreen_end']},
    'timeout': {'quick': 900, 'thorough': 3600},
}

MODES_Q = ['cga:1', 'cga:2', 'ega:9', 'vga:7', 'hercules:3', 'olivetti:3', 'tandy:3', 'pcjr:6']
MODES_T = MODES_Q + ['ega:8', 'egamono:10', 'tandy:5', 'ega64k:9']


def plan(tier, seed):
    shards = []
    if tier == 'quick':
        for l in MODES_Q:
            big = gfx.mode_cost(gfx.MODE_BY_LABEL[l]) > 150000
            for p in range(2 if big else 1):
                shards.append({'kind': 'draw', 'mode': l, 'n': 500 if big else 900, 'part': '%s.%d' % (l, p), 'directed': p == 0})
    else:
        for l in MODES_T:
            for p in range(5):
                shards.append({'kind': 'draw', 'mode': l, 'n': 2400, 'part': '%s.%d' % (l, p), 'directed': p == 0})
    return shards


# ---------------------------------------------------------------------------------------
# generation of structured commands (keeps the pen near the screen)

class Gen(object):

    def __init__(self, rng, g, start, allow_scale=True, scale=4):
        self.rng = rng
        self.g = g
        self.pos = list(start)
        self.scale = scale
        self.allow_scale = allow_scale
        self.nsub = 0

    def _room(self):
        g = self.g
        return (-300 - self.pos[0], g.w + 300 - self.pos[0], -300 - self.pos[1], g.h + 300 - self.pos[1])

    def mid(self):
        """Non-move commands that may stand between a B / N prefix and its move."""
        rng = self.rng
        out = []
        for _ in range(rng.choice([0, 1, 1, 1, 2, 3])):
            r = rng.random()
            if r < 0.35:
                out.append(['C', rng.randrange(self.g.nattr)])
            elif r < 0.6 and self.allow_scale:
                self.scale = rng.choice([1, 2, 3, 4, 5, 6, 8, 12, 20])
                out.append(['S', self.scale])
            elif r < 0.8 and self.nsub < 3:
                self.nsub += 1
                sub = [['C', rng.randrange(self.g.nattr)]]
                if self.allow_scale and rng.random() < 0.5:
                    self.scale = rng.choice([1, 3, 4, 7, 10])
                    sub.append(['S', self.scale])
                out.append(['X', sub])
            elif r < 0.9:
                out.append(['A', 0])
            else:
                out.append(['TA', 0])
        return out

    def move(self):
        """-> list of commands: [prefix commands, in-between commands,] one move"""
        rng = self.rng
        b = rng.random() < 0.18
        nn = rng.random() < 0.18
        pre = []
        if (b or nn) and rng.random() < 0.5:
            # prefixes on their own, in either order, with other commands before the move
            tags = ([['B']] if b else []) + ([['N']] if nn else [])
            rng.shuffle(tags)
            k = rng.randrange(len(tags) + 1)
            pre = tags[:k] + (self.mid() if rng.random() < 0.85 else []) + tags[k:] + (self.mid() if rng.random() < 0.5 else [])
            return pre + self._move(False, False, nn)
        return self._move(b, nn, nn)

    def _move(self, b, nn, stays):
        """one move command; `stays`: the pen returns (N given attached or pending)"""
        rng = self.rng
        r = rng.random()
        lo_x, hi_x, lo_y, hi_y = self._room()
        if r < 0.62:
            letter = rng.choice('UDLREFGH')
            ux, uy = gfx.DIRS[letter]
            # head back toward the screen when far out
            if (ux > 0 and hi_x < 50) or (ux < 0 and lo_x > -50) or (uy > 0 and hi_y < 50) or (uy < 0 and lo_y > -50):
                letter = {'U': 'D', 'D': 'U', 'L': 'R', 'R': 'L', 'E': 'G', 'G': 'E', 'F': 'H', 'H': 'F'}[letter]
                ux, uy = gfx.DIRS[letter]
            if rng.random() < 0.18:
                n = None
            else:
                maxn = max(1, min(250, 1000 // self.scale))
                n = rng.choice([rng.randint(0, 9), rng.randint(1, min(40, maxn)), rng.randint(1, maxn)])
            c = ['mv', letter, n, b, nn]
            k = 1 if n is None else n
            dx, dy = gfx.trunc_scale(ux * k, self.scale), gfx.trunc_scale(uy * k, self.scale)
        elif r < 0.82:
            lim = max(1, min(200, 800 // self.scale))
            dx0 = rng.choice([0, rng.randint(-9, 9), rng.randint(-lim, lim)])
            dy0 = rng.choice([0, rng.randint(-9, 9), rng.randint(-lim, lim)])
            dx, dy = gfx.trunc_scale(dx0, self.scale), gfx.trunc_scale(dy0, self.scale)
            if not (lo_x <= dx <= hi_x):
                dx0, dx = -dx0, -dx
            if not (lo_y <= dy <= hi_y):
                dy0, dy = -dy0, -dy
            c = ['mr', dx0, dy0, b, nn]
        else:
            g = self.g
            x = rng.choice([rng.randrange(g.w), rng.randrange(g.w), 0, g.w - 1, g.w + rng.randint(0, 60)])
            y = rng.choice([rng.randrange(g.h), rng.randrange(g.h), 0, g.h - 1, g.h + rng.randint(0, 60), -rng.randint(1, 40)])
            c = ['ma', x, y, b, nn]
            dx, dy = x - self.pos[0], y - self.pos[1]
        if not stays:
            self.pos[0] += dx
            self.pos[1] += dy
        return [c]

    def commands(self, n, depth=0):
        rng = self.rng
        out = []
        for _ in range(n):
            r = rng.random()
            if r < 0.70:
                out += self.move()
            elif r < 0.80 and self.allow_scale:
                s = rng.choice([1, 2, 3, 4, 4, 5, 6, 7, 8, 9, 10, 12, 16, 20, 31, 60, 100, 255, rng.randint(1, 255)])
                self.scale = s
                out.append(['S', s])
            elif r < 0.88:
                out.append(['C', rng.randrange(self.g.nattr)])
            elif r < 0.97 and depth < 2 and self.nsub < 3:
                self.nsub += 1
                out.append(['X', self.commands(rng.randint(1, 4), depth + 1)])
            else:
                out += self.move()
        return out


def count_features(cmds, res, scale):
    """Behavioural counters from the structured form; returns the scale in force afterwards."""
    pending = between = False
    for c in cmds:
        op = c[0]
        if op in ('B', 'N'):
            pending = True
        elif op in ('mv', 'mr', 'ma'):
            if pending and between:
                res.count('prefix_kept_over_commands')
            pending = between = False
        elif pending:
            between = True
        if op == 'S':
            scale = c[1]
            res.count('scale_commands')
        elif op == 'C':
            res.count('colour_changes')
        elif op == 'X':
            res.count('substrings')
            scale = count_features(c[1], res, scale)
        elif op in ('B', 'N'):
            res.count('detached_prefix_' + op.lower())
        elif op in ('A', 'TA'):
            res.count('angle_zero_commands')
        else:
            res.count('moves')
            if op == 'mv':
                if c[2] is None:
                    res.count('moves_without_count')
                k = 1 if c[2] is None else c[2]
                if (k * scale) % 4:
                    res.count('scaled_fractional_moves')
            elif op == 'mr':
                res.count('relative_m')
                if (c[1] * scale) % 4 or (c[2] * scale) % 4:
                    res.count('scaled_fractional_moves')
                if c[1] < 0 or c[2] < 0:
                    res.count('relative_m_negative')
            else:
                res.count('absolute_m')
            if c[-2]:
                res.count('prefix_b')
            if c[-1]:
                res.count('prefix_n')
    return scale


# ---------------------------------------------------------------------------------------
# rendering to DRAW text

class Render(object):
    """
    Structured commands -> (assignment statements, DRAW argument expression).
    plain=True gives the canonical text (no variables, no blanks): used by the directed tables.
    """

    def __init__(self, rng, plain=False, parent=None):
        self.rng = rng
        self.plain = plain
        self.top = parent.top if parent is not None else self
        if parent is None:
            self.assign = []          # [bytes] statements executed before DRAW
            self.nvar = 0
            self.nstr = 0
            self.uses_varptr = False
            self.nrefs = 0

    def _numvar(self, value):
        top = self.top
        top.nvar += 1
        sig = self.rng.choice([b'%', b'%', b'!'])
        name = b'V%d' % top.nvar + sig
        top.assign.append(name + b'=%d' % value)
        top.nrefs += 1
        return name

    def unsigned(self, v):
        """A non-negative number: digits or =var;"""
        if not self.plain and self.rng.random() < 0.12:
            return b'=' + self._numvar(v) + b';'
        return b'%d' % v

    def signed(self, v, force_sign):
        """Number with an explicit sign when force_sign (relative M x) or when negative."""
        rng = self.rng
        if not self.plain and rng.random() < 0.12:
            # sign in the text, magnitude (possibly negative itself) in a variable
            if force_sign or v < 0 or rng.random() < 0.3:
                if rng.random() < 0.5:
                    return b'+=' + self._numvar(v) + b';'
                return b'-=' + self._numvar(-v) + b';'
            return b'=' + self._numvar(v) + b';'
        if v < 0:
            return b'-%d' % -v
        if force_sign or (not self.plain and rng.random() < 0.2):
            return b'+%d' % v
        return b'%d' % v

    def sep(self):
        if self.plain:
            return b''
        return self.rng.choice([b'', b'', b'', b' ', b' ', b';', b'; ', b' ;', b'  '])

    def gap(self):
        """Optional blanks inside a command (between letter and number, around the comma)."""
        if self.plain:
            return b''
        return self.rng.choice([b'', b'', b'', b'', b' '])

    def parts(self, cmds):
        """-> list of parts: bytes (literal text) or ('varptr', name)"""
        out = [b'']

        def emit(b):
            if isinstance(out[-1], bytes):
                out[-1] += b
            else:
                out.append(b)
        for c in cmds:
            op = c[0]
            if op == 'S':
                emit(b'S' + self.gap() + self.unsigned(c[1]))
            elif op == 'C':
                emit(b'C' + self.gap() + self.unsigned(c[1]))
            elif op in ('B', 'N'):
                emit(op.encode())
            elif op in ('A', 'TA'):
                emit(op.encode() + self.gap() + b'%d' % c[1])
            elif op == 'X':
                sub = Render(self.rng, self.plain, parent=self)
                sparts = sub.parts(c[1])
                top = self.top
                top.nstr += 1
                name = b'Q%d$' % top.nstr
                top.assign.append(name + b'=' + expr(sparts))
                if not self.plain and self.rng.random() < 0.35:
                    emit(b'X')
                    out.append(('varptr', name))
                    out.append(b'')
                    top.uses_varptr = True
                else:
                    emit(b'X' + name + b';')
            else:
                pre = b''
                if c[-2] and c[-1]:
                    pre = self.rng.choice([b'BN', b'NB'])
                elif c[-2]:
                    pre = b'B'
                elif c[-1]:
                    pre = b'N'
                if pre and not self.plain and self.rng.random() < 0.2:
                    pre += b' '
                if op == 'mv':
                    emit(pre + c[1].encode() + (b'' if c[2] is None else self.gap() + self.unsigned(c[2])))
                elif op == 'mr':
                    emit(pre + b'M' + self.gap() + self.signed(c[1], True) + self.gap() + b',' + self.gap() + self.signed(c[2], False))
                elif op == 'ma':
                    emit(pre + b'M' + self.gap() + self.unsigned(c[1]) + self.gap() + b',' + self.gap() + self.signed(c[2], False))
            emit(self.sep())
        return out


def expr(parts):
    """BASIC string expression for a list of parts."""
    terms = []
    for p in parts:
        if isinstance(p, bytes):
            if p:
                terms.append(b'"' + p + b'"')
        else:
            terms.append(b'VARPTR$(' + p[1] + b')')
    return b'+'.join(terms) if terms else b'""'


# ---------------------------------------------------------------------------------------

class Pair(object):
    """main + twin session in the same mode."""

    def __init__(self, m, res):
        self.res = res
        self.m = m
        self.main = gfx.GBox(m)
        self.twin = gfx.GBox(m)
        self.scale_known = 4      # scale in force in main as far as the harness issued it
        self.s_given = False
        self.dirty = None
        self.n = 0
        for g in (self.main, self.twin):
            g.direct(b'DIM A%(600)')

    INTERLEAVED = ['PSET', 'PRESET', 'LINE', 'LINE-B', 'LINE-BF', 'LINE-TO', 'PSET-STEP', 'CIRCLE', 'CIRCLE-STEP', 'PAINT', 'GET', 'PUT',
                   'VIEW', 'VIEW-SCREEN', 'WINDOW', 'CLS', 'SCREEN', 'SCREEN-TRIP']

    def pen(self, g):
        try:
            return (g.box.ev(b'POINT(0)'), g.box.ev(b'POINT(1)'))
        except harness.Internal as e:
            self.res.violation(e.key, 'POINT(0)/POINT(1): %s' % e, {'mode': self.m['label']})
            raise

    def interleave(self, rng, kind):
        """
        Another statement between two DRAW statements.  MAIN reached its last point by DRAW, the TWIN gets the
        same point by PSET (no DRAW history); the statement is then executed on both.  Where the graphics
        cursor is afterwards, and what the statement drew (forms that start at the last point), must not depend
        on how the last point was reached:  POINT(0)/POINT(1) and the pages of both sessions must agree.
        -> True if the following DRAW may continue from the pen (nothing was printed over the pictures)
        """
        res, g, tw = self.res, self.main, self.twin
        label = self.m['label']
        p = self.pen(g)
        px, py = int(p[0]), int(p[1])
        if 0 <= px < g.w and 0 <= py < g.h:
            tw.direct(b'PSET(%d,%d),%d' % (px, py, tw.active()[py * g.w + px]))
        else:
            tw.direct(b'PSET(%d,%d),0' % (px, py))
        c = rng.randrange(1, g.nattr)
        x, y = rng.randint(20, g.w - 40), rng.randint(20, g.h - 30)
        stmt = {
            'PSET': b'PSET(%d,%d),%d' % (x, y, c),
            'PRESET': b'PRESET(%d,%d)' % (x, y),
            'LINE': b'LINE(%d,%d)-(%d,%d),%d' % (x, y, x + rng.randint(-15, 15), y + rng.randint(-15, 15), c),
            'LINE-B': b'LINE(%d,%d)-(%d,%d),%d,B' % (x, y, x + 9, y + 6, c),
            'LINE-BF': b'LINE(%d,%d)-(%d,%d),%d,BF' % (x + 9, y + 6, x, y, c),
            'LINE-TO': b'LINE-(%d,%d),%d' % (x, y, c),
            'PSET-STEP': b'PSET STEP(%d,%d),%d' % (rng.randint(-9, 9), rng.randint(-9, 9), c),
            'CIRCLE': b'CIRCLE(%d,%d),%d,%d' % (x, y, rng.randint(0, 12), c),
            'CIRCLE-STEP': b'CIRCLE STEP(%d,%d),%d,%d' % (rng.randint(-9, 9), rng.randint(-9, 9), rng.randint(1, 9), c),
            'PAINT': b'LINE(%d,%d)-(%d,%d),%d,B:PAINT(%d,%d),%d,%d' % (x, y, x + 12, y + 8, c, x + 3, y + 3, c, c),
            'GET': b'GET(%d,%d)-(%d,%d),A%%' % (x, y, x + 9, y + 5),
            'PUT': b'GET(%d,%d)-(%d,%d),A%%:PUT(%d,%d),A%%,XOR' % (x, y, x + 9, y + 5, x - 7, y + 3),
            'VIEW': b'VIEW(%d,%d)-(%d,%d)' % (g.w // 8, g.h // 8, g.w - g.w // 8, g.h - g.h // 8),
            'VIEW-SCREEN': b'VIEW SCREEN(%d,%d)-(%d,%d)' % (g.w // 8, g.h // 8, g.w - g.w // 8, g.h - g.h // 8),
            'WINDOW': b'WINDOW(-1,-1)-(1,1)',
            'CLS': b'CLS',
            'SCREEN': b'SCREEN %d' % self.m['screen'],
            'SCREEN-TRIP': b'SCREEN 0:SCREEN %d' % self.m['screen'],
        }[kind]
        case = {'mode': label, 'pen_after_draw': [px, py], 'stmt': stmt}
        try:
            c1 = g.direct(stmt)
            c2 = tw.direct(stmt)
        except harness.Internal as e:
            res.violation(e.key, '%s: %s after DRAW: %s' % (label, stmt.decode(), e), case)
            raise
        res.case((label, 'interleave', (px, py), stmt))
        res.count('interleaved_statements')
        res.count('interleaved_' + kind.lower().replace('-', '_'))
        ok = not c1 and not c2
        if c1 != c2:
            res.violation('draw:statement-after-DRAW-error-differs:' + kind,
                          '%s: %s gave error %d after a DRAW history and %d after PSET at the same point %r' % (label, stmt.decode(), c1, c2, (px, py)), case)
        if ok:
            pm, pt = self.pen(g), self.pen(tw)
            if pm != pt:
                res.violation('draw:last-point-after:' + kind,
                              '%s: DRAW left the pen at %r; after %s POINT(0),POINT(1) = %r, but %r when the same point was reached by PSET' % (
                                  label, (px, py), stmt.decode(), pm, pt), case)
            a, b = g.active(), tw.active()
            if a != b:
                d = gfx.diff_points(a, b, g.w, g.h, limit=3)
                res.violation('draw:statement-after-DRAW-draws-differently:' + kind,
                              '%s: pen %r, %s: page differs from the session that reached the point by PSET, at %r' % (label, (px, py), stmt.decode(), d), case)
                ok = False
        if kind == 'WINDOW':
            # DRAW under a WINDOW is not pinned: back to physical coordinates, the cursor must still agree
            g.direct(b'WINDOW')
            tw.direct(b'WINDOW')
            if ok and self.pen(g) != self.pen(tw):
                res.violation('draw:last-point-after:WINDOW-reset', '%s: after WINDOW(-1,-1)-(1,1):WINDOW the cursors differ: %r / %r' % (
                    label, self.pen(g), self.pen(tw)), case)
        if kind in ('CLS', 'SCREEN-TRIP'):
            self.dirty = None
        return ok, kind

    def after_interleave(self, kind):
        """Undo VIEW and wipe both pages."""
        if kind in ('VIEW', 'VIEW-SCREEN'):
            self.main.direct(b'VIEW')
            self.twin.direct(b'VIEW')
        self.clear(full=True)

    def close(self):
        self.main.close()
        self.twin.close()

    def clear(self, full=False):
        g = self.main
        if full or self.dirty is None:
            box = (0, 0, g.w - 1, g.h - 1)
        else:
            box = self.dirty
        stmt = b'LINE(%d,%d)-(%d,%d),0,BF' % box
        self.main.direct(stmt)
        self.twin.direct(stmt)
        self.dirty = None

    def case(self, cmds, rng, start=None, plain=False, keep=False):
        """Run one DRAW case. cmds must begin with what makes colour (and scale, once any S was given) explicit."""
        res, g, tw = self.res, self.main, self.twin
        label = self.m['label']
        if start is not None:
            g.direct(b'PSET(%d,%d),0' % start)
        try:
            p0 = (g.box.ev(b'POINT(0)'), g.box.ev(b'POINT(1)'))
        except harness.Internal as e:
            res.violation(e.key, 'POINT(0)/POINT(1): %s' % e, {'mode': label})
            raise
        if start is not None and p0 != start:
            # harness assumption (not part of the statement) broken: nothing can be decided
            res.inconclusive('harness: after PSET%r POINT(0),POINT(1) = %r in %s' % (start, p0, label))
            return
        p0 = (int(p0[0]), int(p0[1]))
        rd = Render(rng, plain)
        parts = rd.parts(cmds)
        stmt = b':'.join(rd.assign + [b'DRAW ' + expr(parts)])
        if len(stmt) > 250:
            res.count('too_long_skipped')
            return
        final, segs, scale_after, _ = gfx.pen_run(cmds, p0, self.scale_known)
        case = {'mode': label, 'start': list(p0), 'stmt': stmt, 'commands': cmds, 'expected_pen': list(final), 'scale_before': self.scale_known}
        try:
            code = g.direct(stmt)
        except harness.Internal as e:
            res.violation(e.key, '%s: %s: %s' % (label, stmt.decode('latin-1'), e), case)
            raise
        self.n += 1
        res.case((label, p0, stmt))
        res.count('strings')
        if not self.s_given and not _has_scale(cmds):
            res.count('no_scale_strings')
        if _has_scale(cmds):
            self.s_given = True
        self.scale_known = count_features(cmds, res, self.scale_known)
        if rd.nrefs:
            res.count('variable_refs', rd.nrefs)
        if rd.uses_varptr:
            res.count('varptr_substrings')
        if self.n <= 2:
            res.sample(case)
        if code:
            res.violation('draw:error', '%s: %s raised error %d' % (label, stmt.decode('latin-1'), code), case)
            self.clear(full=True)
            self.scale_known = scale_after
            return
        try:
            p1 = (g.box.ev(b'POINT(0)'), g.box.ev(b'POINT(1)'))
        except harness.Internal as e:
            res.violation(e.key, 'POINT(0)/POINT(1): %s' % e, case)
            raise
        bad = False
        if p1 != final:
            bad = True
            res.violation('draw:pen-position', '%s: from %r, %s: POINT(0),POINT(1) = %r, expected %r' % (
                label, p0, stmt.decode('latin-1'), p1, final), case)
        if not (0 <= final[0] < g.w and 0 <= final[1] < g.h):
            res.count('pen_offscreen_end')
        # twin: the same segments by LINE
        lines = [b'LINE(%d,%d)-(%d,%d),%d' % s for s in segs]
        buf = b''
        for l in lines:
            if len(buf) + len(l) + 1 > 240:
                tw.direct(buf)
                buf = b''
            buf = buf + b':' + l if buf else l
        if buf:
            c2 = tw.direct(buf)
            if c2:
                res.inconclusive('harness: twin LINE failed with error %d' % c2)
        res.count('segments_compared', len(segs))
        if len(segs) == 1:
            res.count('single_segment_strings')
        a, b = g.active(), tw.active()
        if a != b:
            bad = True
            d = gfx.diff_points(a, b, g.w, g.h, limit=4)
            res.violation('draw:segment-differs-from-LINE',
                          '%s: from %r, %s: page differs from the twin that drew %d segment(s) with LINE, first at %r (main=%d twin=%d)' % (
                              label, p0, stmt.decode('latin-1'), len(segs), d[0], a[d[0][1] * g.w + d[0][0]], b[d[0][1] * g.w + d[0][0]]), case)
        # clean up what was drawn (keep: another statement follows directly on this DRAW; wiping the page would
        # itself be a statement that moves the graphics cursor)
        if keep and not bad:
            self.dirty = None
            return
        if bad:
            self.clear(full=True)
        else:
            xs = [p0[0], final[0]] + [s[0] for s in segs] + [s[2] for s in segs]
            ys = [p0[1], final[1]] + [s[1] for s in segs] + [s[3] for s in segs]
            x0, y0 = max(0, min(xs) - 1), max(0, min(ys) - 1)
            x1, y1 = min(g.w - 1, max(xs) + 1), min(g.h - 1, max(ys) + 1)
            if x0 <= x1 and y0 <= y1:
                self.dirty = (x0, y0, x1, y1)
                self.clear()


def _has_scale(cmds):
    for c in cmds:
        if c[0] == 'S' or (c[0] == 'X' and _has_scale(c[1])):
            return True
    return False


def random_start(rng, g):
    return (rng.randint(g.w // 4, 3 * g.w // 4), rng.randint(g.h // 4, 3 * g.h // 4))


def random_cases(pair, rng, n, no_scale):
    g = pair.main
    for _ in range(n):
        start = random_start(rng, g) if (pair.n == 0 or rng.random() < 0.7) else None
        if start is None:
            # continue from where the pen is; bring it back when it strayed
            px, py = g.box.ev(b'POINT(0)'), g.box.ev(b'POINT(1)')
            if not (0 <= px < g.w and 0 <= py < g.h):
                start = random_start(rng, g)
            else:
                start_pos = (int(px), int(py))
        gen = Gen(rng, g, start if start is not None else start_pos, allow_scale=not no_scale,
                  scale=4 if no_scale else pair.scale_known)
        head = [['C', rng.randrange(1, g.nattr)]]
        if not no_scale:
            s = rng.choice([4, 4, 1, 2, 3, 5, 6, 7, 8, 12, 16, rng.randint(1, 64), rng.randint(1, 255)])
            gen.scale = s
            head.insert(rng.randrange(2), ['S', s])
        r = rng.random()
        k = 1 if r < 0.2 else rng.randint(2, 6) if r < 0.7 else rng.randint(6, 12)
        body = gen.commands(k)
        if not any(c[0] in ('mv', 'mr', 'ma', 'X') for c in body):
            body += gen.move()
        inter = rng.random() < 0.15
        pair.case(head + body, rng, start, keep=inter)
        if inter:
            interleaved_pair(pair, rng, rng.choice(pair.INTERLEAVED), no_scale)


def interleaved_pair(pair, rng, kind, no_scale=False, plain=False):
    """<another statement> then a DRAW that continues from wherever that statement left the graphics cursor."""
    g = pair.main
    ok, kind = pair.interleave(rng, kind)
    if ok:
        p = pair.pen(g)
        gen = Gen(rng, g, (int(p[0]), int(p[1])), allow_scale=False, scale=4 if no_scale else 5)
        body = gen.commands(rng.randint(1, 4))
        if not any(c[0] in ('mv', 'mr', 'ma') for c in body):
            body += gen.move()
        head = [['C', 1 + rng.randrange(g.nattr - 1)]] + ([] if no_scale else [['S', 5]])
        pair.case(head + body, rng, None, plain=plain)
    pair.after_interleave(kind)


def directed(pair):
    """Seed-independent tables (canonical text): truncation, directions, M forms, prefixes, nesting."""
    g = pair.main
    rng = random.Random('C33:directed')
    c = g.nattr - 1
    cx, cy = g.w // 2, g.h // 2
    # no S ever given in this session: scale factor must be 4/4
    for letter in 'UDLREFGH':
        for n in (None, 1, 2, 7):
            pair.case([['C', c], ['mv', letter, n, False, False]], rng, (cx, cy), plain=True)
    pair.case([['C', c], ['mr', 5, -3, False, False], ['mr', -7, 2, False, False], ['ma', cx - 9, cy + 4, False, False],
               ['mv', 'R', 3, True, False], ['mv', 'D', 4, False, True], ['mr', 6, 6, True, True]], rng, (cx, cy), plain=True)
    # truncation table: every direction x count x scale
    for s in list(range(1, 13)) + [16, 60, 255]:
        for letter in 'UDLREFGH':
            counts = [1, 2, 3, 5, 6, 7, 9] if s < 60 else [1, 2, 3]
            cmds = [['S', s], ['C', c]] + [['mv', letter, n, False, False] for n in counts]
            pair.case(cmds, rng, (cx, cy), plain=True)
        for (dx, dy) in [(1, 1), (3, -5), (-3, 5), (-7, -7), (2, 0), (0, -2), (9, 10), (-10, 9)]:
            if s >= 60:
                dx, dy = (dx > 0) - (dx < 0), (dy > 0) - (dy < 0)
            pair.case([['S', s], ['C', c], ['mr', dx, dy, False, False]], rng, (cx, cy), plain=True)
            pair.case([['S', s], ['C', c], ['mr', dx, dy, False, True], ['mr', -dx, dy, True, False], ['mv', 'E', 3, False, False]], rng, (cx, cy), plain=True)
    # absolute M is not scaled; B and N on it
    pair.case([['S', 9], ['C', c], ['ma', 10, 12, False, False], ['ma', g.w - 3, g.h - 2, False, True], ['ma', 7, 30, True, False],
               ['mv', 'F', 5, False, False]], rng, (cx, cy), plain=True)
    pair.case([['S', 4], ['C', c], ['ma', g.w + 20, 5, False, False], ['ma', 5, -8, False, False], ['mv', 'D', 20, False, False]], rng, (cx, cy), plain=True)
    # nesting, scale and colour set inside substrings, N/B around them
    sub2 = [['S', 6], ['mv', 'G', 5, False, False], ['C', 1 % g.nattr]]
    sub1 = [['mv', 'R', 9, False, False], ['X', sub2], ['mv', 'U', None, False, True]]
    pair.case([['S', 4], ['C', c], ['mv', 'L', 4, False, False], ['X', sub1], ['mv', 'H', 3, False, False], ['X', sub2], ['mr', -5, 5, False, False]],
              rng, (cx, cy), plain=True)
    # every other statement that can move the graphics cursor, between two DRAW statements
    for i, kind in enumerate(pair.INTERLEAVED):
        for rep in range(2):
            pair.case([['S', 4], ['C', c], ['mv', 'R', 9 + i, False, False], ['mv', 'D', 5 + rep, False, False], ['mr', -3, 7, True, False]],
                      rng, (cx - 20 + i, cy - 15 + 3 * rep), plain=True, keep=True)
            interleaved_pair(pair, rng, kind, plain=True)
    # pen carried over from one DRAW statement to the next (no PSET in between)
    pair.case([['S', 8], ['C', c], ['mv', 'E', 7, False, False]], rng, (cx, cy), plain=True)
    pair.case([['S', 8], ['C', c], ['mv', 'F', 7, False, False], ['mv', 'L', None, True, False]], rng, None, plain=True)
    pair.case([['S', 3], ['C', c], ['mv', 'H', 5, False, True], ['mv', 'D', 5, False, False]], rng, None, plain=True)
    # B / N apart from their move: every prefix combination x what stands in between x kind of move
    c1 = 1 % g.nattr or 1
    mids = [[], [['C', c1]], [['S', 6]], [['X', [['C', c1]]]], [['X', [['S', 10], ['C', c]]]], [['A', 0]], [['TA', 0]],
            [['C', c1], ['S', 3], ['X', [['C', c]]]]]
    moves = [['mv', 'R', 10, False, False], ['mv', 'G', None, False, False], ['mr', 8, 4, False, False], ['mr', -6, -9, False, False],
             ['ma', cx + 17, cy - 11, False, False]]
    k = 0
    for tags in ([['B']], [['N']], [['B'], ['N']], [['N'], ['B']]):
        for mid in mids:
            for mv in moves:
                k += 1
                if len(tags) == 2 and k % 2:
                    seq = [tags[0]] + mid + [tags[1]]       # second prefix after the in-between commands
                else:
                    seq = tags + mid
                # a visible stroke before and after shows whether the prefixed move drew and where the pen went
                pair.case([['S', 4], ['C', c], ['mv', 'U', 3, False, False]] + seq + [mv, ['mv', 'E', 4, False, False]],
                          rng, (cx, cy), plain=(k % 3 != 0))
    # surface forms: variables, VARPTR$, blanks and semicolons (fixed generator)
    for i in range(40):
        gen = Gen(rng, g, (cx, cy), allow_scale=True, scale=4)
        s = [1, 2, 3, 5, 6, 7, 10, 13][i % 8]
        gen.scale = s
        body = gen.commands(5)
        if not any(k[0] in ('mv', 'mr', 'ma', 'X') for k in body):
            body += gen.move()
        pair.case([['S', s], ['C', 1 + i % (g.nattr - 1)]] + body, rng, (cx, cy))


def run_shard(spec, res):
    t0 = time.process_time()
    rng = random.Random('%s:C33:%s:%s' % (spec['seed'], spec['kind'], spec.get('part', 0)))
    m = gfx.MODE_BY_LABEL[spec['mode']]
    todo = spec['n']
    first = True
    guard = 0
    while (todo > 0 or first) and guard < 40:
        guard += 1
        pair = None
        try:
            pair = Pair(m, res)
            pair.clear(full=True)
            if first and spec.get('directed'):
                directed(pair)
                res.count('modes_covered')
                first = False
                continue
            first = False
            chunk = min(todo, 300)
            nos = min(chunk, 40)
            # fresh session, no S issued yet: strings without any S
            random_cases(pair, rng, nos, no_scale=True)
            random_cases(pair, rng, chunk - nos, no_scale=False)
            todo -= chunk
            for g in (pair.main, pair.twin):
                if not g.validate_fast():
                    res.count('snapshot_fallbacks')
        except gfx.ModeMismatch as e:
            res.inconclusive('mode table: %s' % e)
            break
        except gfx.Corrupt as e:
            res.violation('frame:page-buffer-corrupted:%s' % e.what, '%s: the screen can no longer be observed: %s' % (spec['mode'], e), {'mode': spec['mode']})
            todo -= 50
        except harness.Internal:
            res.count('internal_errors')
            todo -= 50
        finally:
            if pair is not None:
                pair.close()
    res.count('cpu_seconds', int(round(time.process_time() - t0)))
