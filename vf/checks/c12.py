"""
C12 Array subscripts address distinct elements within declared bounds.

Oracle: no model of the flat index is needed - every in-bounds subscript tuple is given a value that
is a function of the tuple (so a collision is self-evident), written and read back through BASIC
statements and through the Session variable API; failing accesses (outside the bounds, wrong number
of subscripts, negative) must raise 9 / 9 / 5 and leave every element of every array unchanged;
first use of an undeclared array gives bounds 10; re-DIM gives Duplicate Definition; DIM after ERASE
works and yields a fresh array.
"""
import itertools
import random

META = {
    'property_id': 'C12',
    'technique': 'unique-value-per-subscript-tuple write/read-back monitor + error-class and frame checks, BASIC level',
    'level': 'exploration',
    'level_text': (
        'Runtime oracle. A finite space is enumerated completely in both tiers: every array shape with 1 dimension '
        '(bounds base..base+7), 2 dimensions (each bound base..base+4), 3 dimensions (base..base+3) and 4 dimensions '
        '(base..base+1), under OPTION BASE unset / 0 / 1, and for each shape EVERY subscript tuple in '
        '[-1 .. bound+1]^k is accessed at BASIC level (in-bounds: own value; otherwise error 9, or 5 when negative). '
        'Random shapes with 1-4 dimensions and bounds 0-30 (all tuples of arrays up to 4000 elements are written and read; '
        'larger arrays: all corners, edge neighbours and 2000 random tuples at BASIC level plus a full dump through the API), '
        'all four element types, and DIM / ERASE / implicit-DIM histories over several arrays with a dictionary model. '
        'Assignments whose right-hand side itself raises an error (SQR(-1), LOG(0), type mismatch, overflow, string too '
        'long) are mixed in everywhere: with a bad subscript the subscript error must still be reported (the element '
        'is located before the value is computed), in bounds the right-hand side error is reported and nothing changes, '
        'and a first use of an undeclared array still dimensions it (dump shape and Duplicate Definition on DIM).'),
    'level_note': (
        'Trusted: the harness, get_variable/set_variable for whole-array dumps (C43) - every shape is additionally '
        'read and written through BASIC statements. Not pinned by the statement and therefore not generated or accepted as a '
        'set: a tuple that is both negative and otherwise out of range/wrong arity may give 5 or 9; subscripts beyond '
        '32767, fractional subscripts, DIM with a bound below the base, ERASE of an unknown array, OPTION BASE after '
        'an array exists. A first use is a first use also when it fails (subscript above 10, or failing right-hand side): '
        'the array then exists with bounds 10 (dump shape, Duplicate Definition on DIM, ERASE works). '
        'FOR counters cannot be array elements and READ/INPUT targets have no failing right-hand side; not generated. '
        'The exhaustive space cycles the four element types over the shapes instead of crossing them.'),
    'rule': ('case = (shape, option base, element type, subscript tuple, access kind) for element accesses, '
             '(history id, step) for history steps; distinct by that tuple; non-trivial = every access whose tuple lies in '
             '[-1..bound+1+50]^k (each is a different subscript tuple of a different shape); whole-array API dumps are '
             'counted per element by the comparing loop'),
    'design_ref': 'DESIGN.md section 4 C12',
    'assumptions': ['the unique value of a tuple is computed by the check, not by the interpreter, except in the '
                    'BASIC-loop write mode where integer arithmetic on values below 32768 is trusted (C02)'],
    'exhaustive': {
        'quick': 'all shapes k=1 (8 bounds), k=2 (5x5), k=3 (4x4x4), k=4 (2^4) x OPTION BASE unset/0/1, every subscript tuple in [-1..bound+1]^k read (and failing ones also written) at BASIC level',
        'thorough': 'same finite space as quick (fully enumerated); random shapes on top'},
    'require_counters': {'any': ['err9_bounds_seen', 'err9_arity_seen', 'err5_negative_seen', 'err10_redim_seen',
                                 'erase_then_dim_seen', 'implicit_dim_seen', 'option_base1_seen',
                                 'failing_rhs_with_bad_subscript_seen', 'failing_rhs_first_use_seen',
                                 'failing_rhs_in_bounds_seen', 'first_use_out_of_range_seen']},
    'timeout': {'quick': 900, 'thorough': 7200},
}

SIGILS = ['%', '!', '#', '$']
SIZE = {'%': 2, '!': 4, '#': 8, '$': 3}


def plan(tier, seed):
    shards = []
    # exhaustive finite space: one shard per (base setting, dimension group)
    for base in ('unset', '0', '1'):
        shards.append({'kind': 'exhaustive', 'base': base, 'dims': [1, 2, 4], 'part': len(shards)})
        shards.append({'kind': 'exhaustive', 'base': base, 'dims': [3], 'half': 0, 'part': len(shards)})
        shards.append({'kind': 'exhaustive', 'base': base, 'dims': [3], 'half': 1, 'part': len(shards)})
    shards.append({'kind': 'directed', 'part': 0})
    if tier == 'quick':
        for i in range(8):
            shards.append({'kind': 'shapes', 'n': 50, 'part': i})
        for i in range(3):
            shards.append({'kind': 'history', 'n': 60, 'part': i})
    else:
        for i in range(40):
            shards.append({'kind': 'shapes', 'n': 250, 'part': i})
        for i in range(12):
            shards.append({'kind': 'history', 'n': 500, 'part': i})
    return shards


# ---------------------------------------------------------------------------------------------
# helpers

def lo_of(base):
    return 1 if base == '1' else 0


def tuples_of(bounds, lo):
    return itertools.product(*[range(lo, b + 1) for b in bounds])


def count_of(bounds, lo):
    n = 1
    for b in bounds:
        n *= (b + 1 - lo)
    return n


def rank(t, bounds, lo):
    """The check's own numbering of in-bounds tuples (last subscript fastest)."""
    r = 0
    for i, b in zip(t, bounds):
        r = r * (b + 1 - lo) + (i - lo)
    return r


def unique(sigil, t, bounds, lo, salt=0):
    r = rank(t, bounds, lo) + 1 + salt
    if sigil == '%':
        return r
    if sigil == '!':
        return float(r)
    if sigil == '#':
        return r + 0.5
    return b'.'.join(b'%d' % i for i in t) + (b'/%d' % salt if salt else b'')


def default(sigil):
    return b'' if sigil == '$' else 0


def nested(bounds, lo, fn, prefix=()):
    """Nested list [i1][i2].. as the API returns/accepts it."""
    if len(prefix) == len(bounds) - 1:
        return [fn(prefix + (i,)) for i in range(lo, bounds[-1] + 1)]
    return [nested(bounds, lo, fn, prefix + (i,)) for i in range(lo, bounds[len(prefix)] + 1)]


def flatten(lst, depth):
    if depth == 1:
        return list(lst)
    out = []
    for x in lst:
        out.extend(flatten(x, depth - 1))
    return out


def shape_of(lst):
    s = []
    while isinstance(lst, list):
        s.append(len(lst))
        lst = lst[0] if lst else None
    return s


def lit(sigil, v):
    if sigil == '$':
        return b'"' + v + b'"'
    if sigil == '#':
        return (b'%r#' % v) if v != int(v) else b'%d#' % int(v)
    return b'%d' % int(v)


def sub(t):
    return b'(' + b','.join(b'%d' % i for i in t) + b')'


class Ctx(object):
    """One sandboxed session + reporting helpers."""

    def __init__(self, res):
        from .. import harness
        self.h = harness
        self.res = res
        self.box = harness.Box()
        self.uses = 0

    def fresh(self, base):
        """CLEAR everything (also resets OPTION BASE); new session now and then."""
        self.uses += 1
        if self.uses % 40 == 0:
            self.box.close()
            self.box = self.h.Box()
        self.box.ex(b'NEW')
        self.box.ex(b'CLEAR')
        if base in ('0', '1'):
            out = self.box.ex(b'OPTION BASE ' + base.encode())
            if self.h.err_of(out)[0]:
                self.res.violation('option-base:rejected-after-clear', 'OPTION BASE %s after CLEAR -> %r' % (base, out), [base])
            if base == '1':
                self.res.count('option_base1_seen')

    def ex(self, stmt, case):
        """Execute; returns error code (0 = none) or None after an internal error (reported)."""
        try:
            out = self.box.ex(stmt)
        except self.h.Internal as e:
            self.res.violation(e.key, '%s while executing %r' % (e, stmt), case)
            self.box.close()
            self.box = self.h.Box()
            return None
        return self.h.err_of(out)[0]

    def dump(self, name):
        return self.box.get(name + '()')

    def close(self):
        self.box.close()


def check_dump(ctx, name, sigil, bounds, lo, expect_fn, key, what, case):
    """Full API dump of an array against expect_fn(tuple). Returns True if equal."""
    res = ctx.res
    try:
        got = ctx.dump(name + sigil)
    except ctx.h.Internal as e:
        res.violation(e.key, str(e), case)
        return False
    want_shape = [b + 1 - lo for b in bounds]
    if shape_of(got) != want_shape:
        res.violation(key + ':shape', '%s: array %s%s dumps with shape %r, declared bounds %r base %d' % (
            what, name, sigil, shape_of(got), list(bounds), lo), case)
        return False
    flat = flatten(got, len(bounds))
    n = 0
    for t, v in zip(tuples_of(bounds, lo), flat):
        e = expect_fn(t)
        n += 1
        if v != e:
            res.violation(key, '%s: %s%s%s reads %r, expected %r (bounds %r, base %d)' % (
                what, name, sigil, sub(t).decode(), v, e, list(bounds), lo), case)
            return False
    res.bulk(n, 0)
    return True


def read_basic(ctx, name, sigil, tuples, case):
    """Read elements through BASIC assignments R0..R7 = A(t); returns list of values or None."""
    out = []
    for i in range(0, len(tuples), 8):
        chunk = tuples[i:i + 8]
        stmt = b':'.join(b'R%d%s=%s%s%s' % (j, sigil.encode(), name.encode(), sigil.encode(), sub(t)) for j, t in enumerate(chunk))
        code = ctx.ex(stmt, case)
        if code is None:
            return None
        if code:
            ctx.res.violation('in-bounds-read:error', 'reading in-bounds elements %r of %s%s raised error %d' % (
                chunk, name, sigil, code), case)
            return None
        for j in range(len(chunk)):
            out.append(ctx.box.get('R%d%s' % (j, sigil)))
    return out


def bad_tuples(bounds, lo, rng=None):
    """(tuple, expected codes, class) for the failing accesses pinned by the statement."""
    k = len(bounds)
    inb = lambda: tuple((rng.randint(lo, b) if rng else lo) for b in bounds)
    out = []
    for d in range(k):
        t = list(inb())
        t[d] = bounds[d] + 1
        out.append((tuple(t), (9,), 'bounds'))
        t = list(inb())
        t[d] = bounds[d] + 2 + (rng.randint(0, 50) if rng else 7)
        out.append((tuple(t), (9,), 'bounds'))
        if lo == 1:
            t = list(inb())
            t[d] = 0
            out.append((tuple(t), (9,), 'bounds'))
        t = list(inb())
        t[d] = -1 - (rng.randint(0, 3) if rng else 0)
        out.append((tuple(t), (5,), 'negative'))
    out.append((inb() + (lo,), (9,), 'arity'))
    if k > 1:
        out.append((inb()[:-1], (9,), 'arity'))
    return out


BAD_RHS_NUM = [(b'SQR(-1)', 5), (b'LOG(0)', 5), (b'"x"', 13), (b'CINT(1E10)', 6)]
BAD_RHS_STR = [(b'1', 13), (b'CHR$(256)', 5), (b'STRING$(200,"a")+STRING$(100,"b")', 15)]


def bad_rhs(sigil, n, avoid=()):
    """A right-hand side that itself raises an error (text, code), its code not in avoid."""
    pool = [x for x in (BAD_RHS_STR if sigil == '$' else BAD_RHS_NUM) if x[1] not in avoid]
    return pool[n % len(pool)]


def failing_access(ctx, name, sigil, t, codes, cls, write, case, rhs=None, stored=False):
    """rhs=(text, code): the assigned expression fails as well - the element is located (and its
    subscripts checked) before the value is computed, so the subscript error must still be reported."""
    nm = name.encode() + sigil.encode()
    if write and rhs is not None:
        stmt = nm + sub(t) + b'=' + rhs[0]
        cls = cls + '-with-failing-right-hand-side'
        ctx.res.count('failing_rhs_with_bad_subscript_seen')
    elif write:
        stmt = nm + sub(t) + b'=' + lit(sigil, unique(sigil, (9, 9), (99, 99), 0, 4000))
    else:
        stmt = b'R0' + sigil.encode() + b'=' + nm + sub(t)
    if stored:
        ctx.box.ex(b'10 ' + stmt + b':END')   # storing a line clears nothing here: callers use it before DIM only
        code = ctx.ex(b'GOTO 10', case)
    else:
        code = ctx.ex(stmt, case)
    if code is None:
        return
    if code == 9:
        ctx.res.count('err9_arity_seen' if cls == 'arity' else 'err9_bounds_seen')
    elif code == 5:
        ctx.res.count('err5_negative_seen')
    if code not in codes:
        ctx.res.violation('%s-subscript:%s:error-class' % (cls, 'write' if write else 'read'),
                          '%r -> error %d, expected %r' % (stmt, code, list(codes)), case)


def failing_rhs_in_bounds(ctx, name, sigil, t, n, case, first_use=False):
    """In-bounds (or first-use) assignment whose right-hand side fails: that error is reported, no element
    changes (checked by the caller's dump), and a first use still dimensions the array."""
    text, want = bad_rhs(sigil, n)
    stmt = name.encode() + sigil.encode() + sub(t) + b'=' + text
    code = ctx.ex(stmt, case)
    if code is None:
        return None
    ctx.res.count('failing_rhs_first_use_seen' if first_use else 'failing_rhs_in_bounds_seen')
    if code != want:
        ctx.res.violation('failing-right-hand-side:%s:error-class' % ('first-use' if first_use else 'in-bounds'),
                          '%r -> error %d, expected %d' % (stmt, code, want), case)
    return stmt


def first_use_created(ctx, name, sigil, k, lo, how, case):
    """After a first use (also a failing one) the array exists with bounds 10 in each of its k dimensions:
    dump shape, all elements default, subscript 11 still out of range, DIM -> Duplicate Definition, ERASE works."""
    res = ctx.res
    nm = name.encode() + sigil.encode()
    ok = check_dump(ctx, name, sigil, (10,) * k, lo, lambda t: default(sigil),
                    'implicit-dim:failing-first-use-did-not-dimension', 'after ' + how, case)
    t11 = (11,) + (lo,) * (k - 1)
    failing_access(ctx, name, sigil, t11, (9,), 'bounds-after-failing-first-use', write=False, case=case)
    code = ctx.ex(b'DIM ' + nm + sub((20,) * k), case)
    if code == 10:
        res.count('err10_redim_seen')
    elif code is not None:
        res.violation('redim:after-failing-first-use:error-class',
                      'DIM %s%s after %s -> error %d, expected 10 (Duplicate Definition)' % (
                          nm.decode(), sub((20,) * k).decode(), how, code), case)
    code = ctx.ex(b'ERASE ' + nm, case)
    if code:
        res.violation('erase:after-failing-first-use:error', 'ERASE %s after %s -> error %d' % (nm.decode(), how, code), case)
    elif code == 0:
        code = ctx.ex(b'DIM ' + nm + sub((2,) * k), case)
        if code:
            res.violation('dim-after-erase:error', 'DIM %s after ERASE -> error %d' % (nm.decode(), code), case)
        else:
            res.count('erase_then_dim_seen')
            check_dump(ctx, name, sigil, (2,) * k, lo, lambda t: default(sigil), 'dim-after-erase:not-fresh',
                       'after ERASE and DIM', case)
    return ok


# ---------------------------------------------------------------------------------------------
# exhaustive finite space

def exhaustive_shapes(dims, lo):
    for k in dims:
        span = {1: 8, 2: 5, 3: 4, 4: 2}[k]
        for bounds in itertools.product(range(lo, lo + span), repeat=k):
            yield bounds


def run_exhaustive(spec, res):
    base = spec['base']
    lo = lo_of(base)
    ctx = Ctx(res)
    nshape = 0
    try:
        for ishape, bounds in enumerate(exhaustive_shapes(spec['dims'], lo)):
            if 'half' in spec and ishape % 2 != spec['half']:
                continue
            sigil = SIGILS[(nshape + spec.get('half', 0)) % 4]
            nshape += 1
            case = {'bounds': list(bounds), 'base': base, 'type': sigil}
            ctx.fresh(base)
            name = 'A'
            code = ctx.ex(b'DIM G%(2),A' + sigil.encode() + sub(bounds) + b',H$(2)', case)
            if code is None:
                continue
            if code:
                res.violation('dim:error', 'DIM A%s%s under base %s -> error %d' % (sigil, sub(bounds).decode(), base, code), case)
                continue
            uf = lambda t: unique(sigil, t, bounds, lo)
            # write every element through the API (odd shapes) or BASIC assignments (even shapes)
            if nshape % 2:
                try:
                    ctx.box.set('A' + sigil + '()', nested(bounds, lo, uf))
                except ctx.h.Internal as e:
                    res.violation(e.key, str(e), case)
                    continue
            else:
                ts = list(tuples_of(bounds, lo))
                for i in range(0, len(ts), 6):
                    stmt = b':'.join(b'A' + sigil.encode() + sub(t) + b'=' + lit(sigil, uf(t)) for t in ts[i:i + 6])
                    code = ctx.ex(stmt, case)
                    if code:
                        res.violation('in-bounds-write:error', '%r -> error %d' % (stmt[:80], code), case)
            ctx.ex((b'' if lo else b'G%(0)=11:') + b'G%(1)=12:G%(2)=13:H$(2)="h"', case)
            if not check_dump(ctx, 'A', sigil, bounds, lo, uf, 'element-collision', 'after writing a unique value to every tuple', case):
                continue
            # every tuple of the surrounding box [-1..b+1]^k at BASIC level
            inb, bad = [], []
            for t in itertools.product(*[range(-1, b + 2) for b in bounds]):
                if all(lo <= i <= b for i, b in zip(t, bounds)):
                    inb.append(t)
                else:
                    neg = any(i < 0 for i in t)
                    oob = any((0 <= i < lo) or i > b for i, b in zip(t, bounds))
                    bad.append((t, (5, 9) if (neg and oob) else ((5,) if neg else (9,)), 'negative' if neg else 'bounds'))
            vals = read_basic(ctx, 'A', sigil, inb, case)
            if vals is not None:
                for t, v in zip(inb, vals):
                    res.case(('x', base, sigil, bounds, t, 'r'))
                    if v != uf(t):
                        res.violation('element-collision:basic-read', 'A%s%s reads %r, expected %r (bounds %r base %s)' % (
                            sigil, sub(t).decode(), v, uf(t), list(bounds), base), case)
                        break
            for n, (t, codes, cls) in enumerate(bad):
                res.case(('x', base, sigil, bounds, t, 'e'))
                failing_access(ctx, 'A', sigil, t, codes, cls, write=(n % 2 == 1), case=dict(case, tuple=list(t)),
                               rhs=(bad_rhs(sigil, n, avoid=codes) if n % 4 == 3 else None))
            for t, codes, cls in bad_tuples(bounds, lo):
                if cls == 'arity':
                    res.case(('x', base, sigil, bounds, t, 'a'))
                    failing_access(ctx, 'A', sigil, t, codes, cls, write=(len(t) % 2 == 0), case=dict(case, tuple=list(t)))
                    failing_access(ctx, 'A', sigil, t, codes, cls, write=True, case=dict(case, tuple=list(t)),
                                   rhs=bad_rhs(sigil, len(t), avoid=codes))
            # in-bounds assignments whose right-hand side fails: its error, nothing changes
            for n, t in enumerate(inb[:3]):
                failing_rhs_in_bounds(ctx, 'A', sigil, t, n + nshape, dict(case, tuple=list(t)))
            # nothing changed by the failing accesses
            check_dump(ctx, 'A', sigil, bounds, lo, uf, 'failing-access-changed-element', 'after the failing accesses', case)
            g = ctx.dump('G%')
            if g != [11, 12, 13][lo:] or ctx.dump('H$')[-1] != b'h':
                res.violation('access-changed-other-array', 'neighbour arrays now G%%=%r H$=%r' % (g, ctx.dump('H$')), case)
        res.count('exhaustive_shapes', nshape)
        res.sample({'kind': 'exhaustive', 'base': base, 'dims': spec['dims'], 'shapes': nshape,
                    'tuples_per_shape': '[-1..bound+1]^k'})
    finally:
        ctx.close()


# ---------------------------------------------------------------------------------------------
# directed core: default bounds, re-DIM, ERASE/DIM, OPTION BASE

def run_directed(spec, res):
    ctx = Ctx(res)
    try:
        for base in ('unset', '0', '1'):
            lo = lo_of(base)
            for sigil in SIGILS:
                for k in (1, 2, 3):
                    if k == 3 and sigil == '#':
                        pass
                    case = {'directed': 'implicit', 'base': base, 'type': sigil, 'dims': k}
                    res.case(('implicit', base, sigil, k))
                    ctx.fresh(base)
                    nm = b'B' + sigil.encode()
                    first = tuple([3, 10, lo][:k])
                    val = unique(sigil, first, (10,) * k, lo)
                    # first use: write for odd k, read for even k
                    if k % 2:
                        code = ctx.ex(nm + sub(first) + b'=' + lit(sigil, val), case)
                        exp_first = val
                    else:
                        code = ctx.ex(b'R0' + sigil.encode() + b'=' + nm + sub(first), case)
                        exp_first = default(sigil)
                    if code:
                        res.violation('implicit-dim:first-use-error', 'first use of undeclared %s%s -> error %d' % (
                            nm.decode(), sub(first).decode(), code), case)
                        continue
                    res.count('implicit_dim_seen')
                    bounds = (10,) * k
                    ok = check_dump(ctx, 'B', sigil, bounds, lo,
                                    lambda t: exp_first if t == first else default(sigil),
                                    'implicit-dim:bounds-not-10', 'after first use of an undeclared array', case)
                    if not ok:
                        continue
                    # BASIC level: subscript 10 fine, 11 out of range, base-1 out of range, redim duplicate
                    top = (10,) * k
                    code = ctx.ex(nm + sub(top) + b'=' + lit(sigil, unique(sigil, top, bounds, lo)), case)
                    if code:
                        res.violation('implicit-dim:subscript-10-rejected', '%s%s -> error %d' % (nm.decode(), sub(top).decode(), code), case)
                    for t, codes, cls in bad_tuples(bounds, lo):
                        failing_access(ctx, 'B', sigil, t, codes, cls, write=False, case=dict(case, tuple=list(t)))
                    for newb in ((10,) * k, (5,) * k, (20,)):
                        code = ctx.ex(b'DIM ' + nm + sub(newb), case)
                        if code == 10:
                            res.count('err10_redim_seen')
                        elif code is not None:
                            res.violation('redim:error-class', 'DIM %s%s of an implicitly dimensioned array -> error %d, expected 10' % (
                                nm.decode(), sub(newb).decode(), code), case)
                    check_dump(ctx, 'B', sigil, bounds, lo,
                               lambda t: exp_first if t == first else (unique(sigil, top, bounds, lo) if t == top else default(sigil)),
                               'failing-access-changed-element', 'after failing accesses / re-DIM', case)
                    # ERASE, then DIM with other bounds
                    code = ctx.ex(b'ERASE ' + nm, case)
                    if code:
                        res.violation('erase:error', 'ERASE %s -> error %d' % (nm.decode(), code), case)
                        continue
                    nb = tuple([4, 2, 3][:k])
                    code = ctx.ex(b'DIM ' + nm + sub(nb), case)
                    if code:
                        res.violation('dim-after-erase:error', 'DIM %s%s after ERASE -> error %d' % (nm.decode(), sub(nb).decode(), code), case)
                        continue
                    res.count('erase_then_dim_seen')
                    check_dump(ctx, 'B', sigil, nb, lo, lambda t: default(sigil), 'dim-after-erase:not-fresh',
                               'after ERASE and DIM with new bounds', case)
                    for t, codes, cls in bad_tuples(nb, lo):
                        failing_access(ctx, 'B', sigil, t, codes, cls, write=True, case=dict(case, tuple=list(t)))
        # first use / bad subscript in an assignment whose right-hand side fails (direct and stored line)
        n = 0
        for base in ('unset', '0', '1'):
            lo = lo_of(base)
            for sigil in SIGILS:
                for k in (1, 2):
                    for stored in (False, True):
                        n += 1
                        case = {'directed': 'failing-rhs', 'base': base, 'type': sigil, 'dims': k, 'stored_line': stored}
                        res.case(('failing-rhs', base, sigil, k, stored))
                        nm = b'B' + sigil.encode()
                        first = tuple([3, 10][:k])
                        text, want = bad_rhs(sigil, n)
                        ctx.fresh(base)
                        if stored:
                            ctx.box.ex(b'10 ' + nm + sub(first) + b'=' + text + b':END')
                            if base in ('0', '1'):
                                ctx.ex(b'OPTION BASE ' + base.encode(), case)
                            code = ctx.ex(b'GOTO 10', case)
                        else:
                            code = ctx.ex(nm + sub(first) + b'=' + text, case)
                        if code is None:
                            continue
                        res.count('failing_rhs_first_use_seen')
                        if code != want:
                            res.violation('failing-right-hand-side:first-use:error-class',
                                          '%s%s=%s on an undeclared array -> error %d, expected %d' % (
                                              nm.decode(), sub(first).decode(), text.decode(), code, want), case)
                        # the first use dimensioned the array although the assignment did not complete
                        check_dump(ctx, 'B', sigil, (10,) * k, lo, lambda t: default(sigil),
                                   'implicit-dim:first-use-with-failing-right-hand-side-did-not-dimension',
                                   'after %s%s=%s' % (nm.decode(), sub(first).decode(), text.decode()), case)
                        code = ctx.ex(b'DIM ' + nm + sub((20,) * k), case)
                        if code == 10:
                            res.count('err10_redim_seen')
                        elif code is not None:
                            res.violation('redim:after-first-use-with-failing-right-hand-side:error-class',
                                          'DIM after %s%s=%s -> error %d, expected 10' % (
                                              nm.decode(), sub(first).decode(), text.decode(), code), case)
                        # bad subscripts with a failing right-hand side on the (now existing) array: subscript error wins
                        for j, (t, codes, cls) in enumerate(bad_tuples((10,) * k, lo)):
                            failing_access(ctx, 'B', sigil, t, codes, cls, write=True, case=dict(case, tuple=list(t)),
                                           rhs=bad_rhs(sigil, j + n, avoid=codes))
        # a first use whose subscript is too large is still a first use: error 9, and the array exists with bounds 10
        n = 0
        for base in ('unset', '0', '1'):
            lo = lo_of(base)
            for sigil in SIGILS:
                for k in (1, 2, 3, 4):
                    if k == 4 and sigil in '!#':
                        continue        # 11^4 singles/doubles do not fit the data segment
                    for mode in ('read', 'write', 'write-failing-rhs'):
                        for big in (11, 12, 255, 32767):
                            n += 1
                            if (n + k) % 4 and big > 12:
                                continue
                            ctx.fresh(base)
                            pos = n % k
                            t = tuple(big if d == pos else (lo + (3 * d + n) % 8) for d in range(k))
                            case = {'directed': 'first-use-out-of-range', 'base': base, 'type': sigil, 'dims': k,
                                    'mode': mode, 'tuple': list(t)}
                            res.case(('first-use-oor', base, sigil, k, mode, t))
                            failing_access(ctx, 'D', sigil, t, (9,), 'bounds-of-undeclared-array', write=(mode != 'read'),
                                           case=case, rhs=(bad_rhs(sigil, n, avoid=(9,)) if mode == 'write-failing-rhs' else None))
                            res.count('first_use_out_of_range_seen')
                            first_use_created(ctx, 'D', sigil, k, lo, 'subscript %d in a first %s' % (big, mode), case)
        res.sample({'kind': 'directed', 'what': 'implicit DIM (bounds 10) / re-DIM / ERASE+DIM / failing right-hand sides for 3 base settings x 4 types x 1-3 dims'})
    finally:
        ctx.close()


# ---------------------------------------------------------------------------------------------
# random shapes

def rand_shape(rng, sigil, lo):
    k = rng.choice((1, 1, 2, 2, 2, 3, 3, 4))
    cap_bytes = 30000
    while True:
        if rng.random() < 0.25:
            hi = 30
        else:
            hi = {1: 30, 2: 30, 3: 14, 4: 7}[k]
        bounds = tuple(rng.randint(lo, hi) for _ in range(k))
        if rng.random() < 0.15:
            bounds = tuple(rng.choice((lo, lo, hi, 30)) for _ in range(k))
        if count_of(bounds, lo) * (18 if sigil == '$' else SIZE[sigil]) <= cap_bytes:
            return bounds


def basic_loop_program(nm, sigil, bounds, lo):
    """Stored program writing unique(t) into every element with nested FOR loops (integer arithmetic)."""
    k = len(bounds)
    vars_ = [b'I%', b'J%', b'K%', b'L%'][:k]
    line = b'10 '
    for v, b in zip(vars_, bounds):
        line += b'FOR %s=%d TO %d:' % (v, lo, b)
    # rank: last subscript fastest
    expr = b'(%s-%d)' % (vars_[0], lo)
    for v, b in zip(vars_[1:], bounds[1:]):
        expr = b'(%s*%d+(%s-%d))' % (expr, b + 1 - lo, v, lo)
    tgt = nm + b'(' + b','.join(vars_) + b')'
    if sigil == '$':
        # STR$ of a non-negative integer is a space followed by its digits
        val = b'+"."+'.join(b'MID$(STR$(%s),2)' % v for v in vars_)
    elif sigil == '#':
        val = expr + b'+1.5#'
    else:
        val = expr + b'+1'
    line += tgt + b'=' + val + b':'
    line += b':'.join(b'NEXT' for _ in vars_)
    return [line, b'20 END']


def run_shapes(spec, rng, res):
    ctx = Ctx(res)
    try:
        for n in range(spec['n']):
            base = rng.choice(('unset', '0', '1'))
            lo = lo_of(base)
            sigil = rng.choice(SIGILS)
            bounds = rand_shape(rng, sigil, lo)
            nel = count_of(bounds, lo)
            mode = rng.choice(('api', 'loop', 'loop')) if nel <= 600 else 'api'
            case = {'bounds': list(bounds), 'base': base, 'type': sigil, 'write': mode}
            if n < 2:
                res.sample(dict(case, elements=nel))
            uf = lambda t: unique(sigil, t, bounds, lo)
            nm = b'A' + sigil.encode()
            res.maxc('max_elements', nel)
            if mode == 'loop':
                # the stored program must exist before the variables (storing a line clears them)
                ctx.fresh(base)
                ctx.box.enter(basic_loop_program(nm, sigil, bounds, lo))
                if base in ('0', '1'):
                    ctx.ex(b'OPTION BASE ' + base.encode(), case)
            else:
                ctx.fresh(base)
            # neighbours on both sides in array memory
            code = ctx.ex(b'DIM G%(2),' + nm + sub(bounds) + b',H$(2)', case)
            if code is None:
                continue
            if code:
                res.violation('dim:error', 'DIM %s%s under base %s -> error %d' % (nm.decode(), sub(bounds).decode(), base, code), case)
                continue
            ctx.ex(b'G%(' + (b'1' if lo else b'0') + b')=11:G%(2)=13:H$(2)="h"', case)
            if mode == 'loop':
                code = ctx.ex(b'GOTO 10', case)
                if code:
                    res.violation('in-bounds-write:error', 'loop program over all in-bounds tuples -> error %d' % code, case)
                    continue
                res.count('basic_loop_writes', nel)
            else:
                try:
                    ctx.box.set('A' + sigil + '()', nested(bounds, lo, uf))
                except ctx.h.Internal as e:
                    res.violation(e.key, str(e), case)
                    continue
            if not check_dump(ctx, 'A', sigil, bounds, lo, uf, 'element-collision', 'after writing a unique value to every tuple (%s)' % mode, case):
                continue
            res.case(('shape', base, sigil, bounds, mode))
            # BASIC-level reads: all corners, edge neighbours, random tuples (all tuples if the array is small)
            if nel <= 64:
                ts = list(tuples_of(bounds, lo))
            else:
                ts = set(itertools.product(*[(lo, b) for b in bounds]))
                for c in list(ts)[:16]:
                    for d in range(len(bounds)):
                        for dv in (-1, 1):
                            t = list(c)
                            t[d] += dv
                            if all(lo <= i <= b for i, b in zip(t, bounds)):
                                ts.add(tuple(t))
                nrand = 2000 if nel > 4000 else 40
                for _ in range(nrand):
                    ts.add(tuple(rng.randint(lo, b) for b in bounds))
                ts = sorted(ts)
            vals = read_basic(ctx, 'A', sigil, ts, case)
            if vals is not None:
                for t, v in zip(ts, vals):
                    res.case(('s', base, sigil, bounds, t, 'r'))
                    if v != uf(t):
                        res.violation('element-collision:basic-read', 'A%s%s reads %r, expected %r (bounds %r base %s)' % (
                            sigil, sub(t).decode(), v, uf(t), list(bounds), base), case)
                        break
            # direct-mode writes of fresh unique values to some tuples, then a full dump
            wr = {}
            for t in rng.sample(ts, min(len(ts), 6)):
                wr[t] = unique(sigil, t, bounds, lo, salt=5000)
            if wr:
                stmt = b':'.join(nm + sub(t) + b'=' + lit(sigil, v) for t, v in wr.items())
                code = ctx.ex(stmt, case)
                if code:
                    res.violation('in-bounds-write:error', '%r -> error %d' % (stmt[:80], code), case)
            cur = lambda t: wr.get(t, uf(t))
            check_dump(ctx, 'A', sigil, bounds, lo, cur, 'element-collision:single-write', 'after single BASIC writes', case)
            # failing accesses
            bad = bad_tuples(bounds, lo, rng)
            rng.shuffle(bad)
            for i, (t, codes, cls) in enumerate(bad[:10]):
                res.case(('s', base, sigil, bounds, t, 'e'))
                failing_access(ctx, 'A', sigil, t, codes, cls, write=(i % 2 == 0), case=dict(case, tuple=list(t)),
                               rhs=(bad_rhs(sigil, rng.randrange(12), avoid=codes) if i % 4 == 2 else None))
            for t in rng.sample(ts, min(len(ts), 2)):
                failing_rhs_in_bounds(ctx, 'A', sigil, t, rng.randrange(12), dict(case, tuple=list(t)))
            # redimensioning
            nb = tuple(rng.randint(lo, 6) for _ in range(rng.randint(1, 3)))
            code = ctx.ex(b'DIM ' + nm + sub(rng.choice((bounds, nb))), case)
            if code == 10:
                res.count('err10_redim_seen')
            elif code is not None:
                res.violation('redim:error-class', 'DIM of the existing array %s -> error %d, expected 10' % (nm.decode(), code), case)
            check_dump(ctx, 'A', sigil, bounds, lo, cur, 'failing-access-changed-element', 'after failing accesses and re-DIM', case)
            g, hh = ctx.dump('G%'), ctx.dump('H$')
            if g != ([11, 13] if lo else [11, 0, 13]) or hh[-1] != b'h':
                res.violation('access-changed-other-array', 'neighbour arrays now G%%=%r H$=%r' % (g, hh), case)
            # ERASE and DIM again with other bounds; neighbours keep their values
            code = ctx.ex(b'ERASE ' + nm, case)
            if code:
                res.violation('erase:error', 'ERASE %s -> error %d' % (nm.decode(), code), case)
                continue
            try:
                gone = ctx.dump('A' + sigil)
            except ctx.h.Internal as e:
                res.violation(e.key, str(e), case)
                continue
            if gone != []:
                res.violation('erase:array-still-there', 'after ERASE the array still dumps %d entries' % len(gone), case)
            code = ctx.ex(b'DIM ' + nm + sub(nb), case)
            if code:
                res.violation('dim-after-erase:error', 'DIM %s%s after ERASE -> error %d' % (nm.decode(), sub(nb).decode(), code), case)
                continue
            res.count('erase_then_dim_seen')
            check_dump(ctx, 'A', sigil, nb, lo, lambda t: default(sigil), 'dim-after-erase:not-fresh', 'after ERASE and DIM', case)
            hh = ctx.dump('H$')
            if hh[-1] != b'h' or ctx.dump('G%')[-1] != 13:
                res.violation('erase:changed-other-array', 'after ERASE/DIM of A: H$=%r G%%=%r' % (hh, ctx.dump('G%')), case)
            ufn = lambda t: unique(sigil, t, nb, lo, salt=77)
            try:
                ctx.box.set('A' + sigil + '()', nested(nb, lo, ufn))
            except ctx.h.Internal as e:
                res.violation(e.key, str(e), case)
                continue
            tsn = list(tuples_of(nb, lo))[:24]
            vals = read_basic(ctx, 'A', sigil, tsn, case)
            if vals is not None and vals != [ufn(t) for t in tsn]:
                res.violation('element-collision:after-erase-dim', 'after ERASE+DIM %r: elements read %r' % (list(nb), vals[:8]), case)
    finally:
        ctx.close()


# ---------------------------------------------------------------------------------------------
# DIM / ERASE / implicit-DIM histories over several arrays

def run_history(spec, rng, res):
    ctx = Ctx(res)
    names = ['P', 'Q', 'PQ', 'P1']
    try:
        for hno in range(spec['n']):
            base = rng.choice(('unset', '0', '1'))
            lo = lo_of(base)
            ctx.fresh(base)
            model = {}    # (name, sigil) -> {'bounds':..., 'vals': {tuple: value}}
            steps = []
            nsteps = rng.randint(15, 40)
            for sno in range(nsteps):
                name, sigil = rng.choice(names), rng.choice(SIGILS)
                key = (name, sigil)
                nm = (name + sigil).encode()
                case = {'history': steps, 'base': base}
                r = rng.random()
                res.case(('h', spec['seed'], spec.get('part', 0), hno, sno))
                if r < 0.25:
                    k = rng.randint(1, 3)
                    bounds = tuple(rng.randint(lo, 5) for _ in range(k))
                    stmt = b'DIM ' + nm + sub(bounds)
                    steps.append(stmt)
                    code = ctx.ex(stmt, case)
                    if code is None:
                        break
                    if key in model:
                        if code == 10:
                            res.count('err10_redim_seen')
                        else:
                            res.violation('redim:error-class', '%r of an existing array -> error %d, expected 10' % (stmt, code), case)
                    else:
                        if code:
                            res.violation('dim:error', '%r -> error %d' % (stmt, code), case)
                            break
                        model[key] = {'bounds': bounds, 'vals': {}}
                elif r < 0.4 and key in model:
                    stmt = b'ERASE ' + nm
                    steps.append(stmt)
                    code = ctx.ex(stmt, case)
                    if code is None:
                        break
                    if code:
                        res.violation('erase:error', '%r -> error %d' % (stmt, code), case)
                        break
                    was = model.pop(key)
                    res.count('erase_seen')
                    if model and any(True for _ in model):
                        res.count('erase_with_other_arrays_alive')
                elif r < 0.75:
                    # assignment: in-bounds of an existing array, or first use of an undeclared one
                    if key in model:
                        bounds = model[key]['bounds']
                    else:
                        bounds = (10,) * rng.randint(1, 2)
                    t = tuple(rng.randint(lo, b) for b in bounds)
                    if rng.random() < 0.25:
                        # the right-hand side fails: its error; no element changes; a first use still dimensions
                        stmt = failing_rhs_in_bounds(ctx, name, sigil, t, rng.randrange(12), case, first_use=key not in model)
                        if stmt is None:
                            break
                        steps.append(stmt)
                        if key not in model:
                            model[key] = {'bounds': bounds, 'vals': {}}
                            res.count('implicit_dim_seen')
                    else:
                        v = unique(sigil, t, bounds, lo, salt=100 * (sno + 1))
                        stmt = nm + sub(t) + b'=' + lit(sigil, v)
                        steps.append(stmt)
                        code = ctx.ex(stmt, case)
                        if code is None:
                            break
                        if code:
                            res.violation('in-bounds-write:error', '%r -> error %d (bounds %r base %s)' % (stmt, code, list(bounds), base), case)
                            break
                        if key not in model:
                            model[key] = {'bounds': bounds, 'vals': {}}
                            res.count('implicit_dim_seen')
                        model[key]['vals'][t] = v
                elif key in model:
                    bounds = model[key]['bounds']
                    t, codes, cls = rng.choice(bad_tuples(bounds, lo, rng))
                    steps.append(b'access ' + nm + sub(t))
                    failing_access(ctx, name, sigil, t, codes, cls, write=rng.random() < 0.5, case=case)
                elif rng.random() < 0.5:
                    # first use of an undeclared array with a too large subscript: error 9, the array exists afterwards
                    bounds = (10,) * rng.randint(1, 2)
                    t = list(rng.randint(lo, 10) for _ in bounds)
                    t[rng.randrange(len(t))] = rng.choice((11, 12, 40))
                    t = tuple(t)
                    steps.append(b'first use ' + nm + sub(t))
                    failing_access(ctx, name, sigil, t, (9,), 'bounds-of-undeclared-array', write=rng.random() < 0.5, case=case)
                    model[key] = {'bounds': bounds, 'vals': {}}
                    res.count('first_use_out_of_range_seen')
                else:
                    continue
                # all arrays against the model; unknown ones must not exist
                for nme in names:
                    for sg in SIGILS:
                        m = model.get((nme, sg))
                        if m is None:
                            try:
                                d = ctx.dump(nme + sg)
                            except ctx.h.Internal as e:
                                res.violation(e.key, str(e), case)
                                d = []
                            if d != []:
                                res.violation('history:array-exists-unexpectedly', '%s%s exists after %r' % (nme, sg, steps[-1]), case)
                            continue
                        check_dump(ctx, nme, sg, m['bounds'], lo, lambda t, m=m, sg=sg: m['vals'].get(t, default(sg)),
                                   'history:element-differs', 'after step %r' % steps[-1], case)
                if res.violations:
                    break
            if hno < 1:
                res.sample({'kind': 'history', 'base': base, 'steps': steps[:12]})
    finally:
        ctx.close()


def run_shard(spec, res):
    kind = spec['kind']
    rng = random.Random('%s:C12:%s:%s' % (spec['seed'], kind, spec.get('part', 0)))
    if kind == 'exhaustive':
        return run_exhaustive(spec, res)
    if kind == 'directed':
        return run_directed(spec, res)
    if kind == 'shapes':
        return run_shapes(spec, rng, res)
    if kind == 'history':
        return run_history(spec, rng, res)
    raise ValueError(kind)
