"""
C02 Integer operators follow 16-bit two's-complement semantics.

Oracle: plain-integer reference (vf.models.rnum) against
 (a) the real values-level primitives (volume), and
 (b) the BASIC level: PRINT <a> OP <b> in a real session, and stored FOR loops (wiring:
     operators.py table, to_integer conversion, iterate_loop).
"""
import random

from ..models import rnum
from ..result import Result

META = {
    'property_id': 'C02',
    'technique': 'reference-model monitor (16-bit integer model) over enumerated/random operand pairs, API and BASIC level',
    'level': 'exploration',
    'level_text': (
        'Runtime oracle: every observed result/error of \\ MOD AND OR XOR EQV IMP NOT, negation and integer FOR '
        'stepping is compared with an independent plain-integer model. Unary operators exhaustive over all 65536 '
        'values in both tiers; binary operators over a boundary-dense product set plus random pairs (quick) and '
        'all 65536 left operands x ~600 right operands and the transpose (thorough).'),
    'level_note': 'Trusted: Python int arithmetic, the harness. Not all 2^32 pairs are enumerated (VERIF_EXHAUSTIVE=1 does it).',
    'rule': ('case = (operator, a, b) or a FOR triple; distinct by that tuple; non-trivial = every case '
             '(each is a different operand pair); product-set blocks are duplicate-free by construction and counted '
             'by the enumerating loop'),
    'design_ref': 'DESIGN.md section 4 C02',
    'assumptions': ['plain Python integers as reference for 16-bit two\'s complement'],
    'exhaustive': {'quick': 'NOT, negation, ABS-free unary ops over all 65536 integers (binary operators sampled)',
                   'thorough': 'unary ops over all 65536 integers; binary ops over 65536 x R and R x 65536 for the listed right-operand set R'},
    'require_counters': {'any': ['div_overflow_seen', 'div_zero_seen', 'for_overflow_seen', 'operand_variables_read_back', 'division_identity_evaluated_over_variables']},
}

OPS = ['idiv', 'mod', 'and', 'or', 'xor', 'eqv', 'imp']
SYM = {'idiv': b'\\', 'mod': b'MOD', 'and': b'AND', 'or': b'OR', 'xor': b'XOR', 'eqv': b'EQV', 'imp': b'IMP'}


def boundary_set():
    s = set()
    for k in range(16):
        for d in (-2, -1, 0, 1, 2):
            for sg in (1, -1):
                v = sg * (1 << k) + d
                if -32768 <= v <= 32767:
                    s.add(v)
    for v in list(range(-5, 6)) + [32767, 32766, 32765, -32768, -32767, -32766, 255, 256, 257, -255, -256, -257,
                                   0x5555, 0x2aaa, -0x5556, 0x7f00, 0x00ff, -0x100]:
        s.add(v)
    return sorted(s)


def expected(op, a, b):
    """('ok', value) / ('err', code) / ('either', [...]) for 16-bit signed a, b."""
    if op in ('idiv', 'mod'):
        if b == 0:
            return ('err', 11)
        q = rnum.trunc_div(a, b)
        if op == 'idiv':
            if not (-32768 <= q <= 32767):
                return ('err', 6)
            return ('ok', q)
        if not (-32768 <= q <= 32767):
            # the statement's letter: "both raise ... Overflow when the quotient leaves -32768..32767"
            # (one pair, -32768 MOD -1; the tree returns the remainder 0: open known finding, see MOD_KEY)
            return ('err', 6)
        return ('ok', rnum.trunc_mod(a, b))
    ua, ub = a & 0xffff, b & 0xffff
    if op == 'and':
        r = ua & ub
    elif op == 'or':
        r = ua | ub
    elif op == 'xor':
        r = ua ^ ub
    elif op == 'eqv':
        r = ~(ua ^ ub)
    elif op == 'imp':
        r = (~ua) | ub
    return ('ok', rnum.s16(r))


MOD_KEY = 'mod:quotient-leaves-range:remainder-returned-instead-of-overflow'


def _mod_finding(res, op, a, b, got, exp):
    """-32768 MOD -1 giving 0 where the statement says Overflow: reported under its own mechanism key."""
    if op == 'mod' and exp == ('err', 6) and got == ('ok', 0):
        res.violation(MOD_KEY, '%d MOD %d returns 0; the statement says Overflow when the quotient leaves -32768..32767'
                      % (a, b), [op, a, b])
        return True
    return False


def plan(tier, seed):
    shards = []
    if tier == 'quick':
        shards.append({'kind': 'unary'})
        for i in range(6):
            shards.append({'kind': 'binary_boundary', 'part': i, 'parts': 6})
        for i in range(5):
            shards.append({'kind': 'binary_random', 'n': 30000, 'part': i})
        shards.append({'kind': 'basic_ops', 'n': 2500})
        shards.append({'kind': 'basic_ops', 'n': 2500, 'part': 1})
        shards.append({'kind': 'basic_for', 'n': 500})
    else:
        shards.append({'kind': 'unary'})
        for i in range(32):
            shards.append({'kind': 'binary_sweep', 'part': i, 'parts': 32})
        for i in range(8):
            shards.append({'kind': 'binary_random', 'n': 400000, 'part': i})
        for i in range(8):
            shards.append({'kind': 'basic_ops', 'n': 12000, 'part': i})
        for i in range(4):
            shards.append({'kind': 'basic_for', 'n': 3000, 'part': i})
    return shards


def _api_funcs():
    from .. import numapi
    V = numapi.V
    return numapi, {
        'idiv': V.intdiv, 'mod': V.mod_, 'and': V.and_, 'or': V.or_, 'xor': V.xor_,
        'eqv': V.eqv_, 'imp': V.imp_,
    }


def _check_api(res, numapi, fn, op, a, b):
    exp = expected(op, a, b)
    try:
        got = numapi.call(fn, numapi.integer(a), numapi.integer(b))
    except Exception as e:  # host exception from a primitive
        res.violation('internal:%s@values.%s' % (type(e).__name__, op), 'host exception %r' % (e,), [op, a, b])
        return
    if got[0] == 'ok':
        if len(got[1]) != 2:
            res.violation('api:%s:result-not-integer' % op, 'result type is not Integer', [op, a, b, got[1].hex()])
            return
        got = ('ok', int(rnum.decode(got[1])))
    if exp[0] == 'either':
        ok = got in exp[1]
    else:
        ok = got == exp
    if got == ('err', 6):
        res.count('div_overflow_seen')
    elif got == ('err', 11):
        res.count('div_zero_seen')
    if not ok and _mod_finding(res, op, a, b, got, exp):
        return
    if not ok:
        kind = 'value' if (got[0] == 'ok' and exp[0] == 'ok') else 'error-class'
        res.violation('api:%s:%s' % (op, kind), '%d %s %d: got %r expected %r' % (a, op, b, got, exp), [op, a, b])


def run_shard(spec, res):
    kind = spec['kind']
    rng = random.Random('%s:C02:%s:%s' % (spec['seed'], kind, spec.get('part', 0)))
    if kind == 'unary':
        return _unary(res)
    if kind.startswith('binary'):
        numapi, fns = _api_funcs()
        if kind == 'binary_boundary':
            B = boundary_set()
            pairs = [(a, b) for a in B for b in B]
            pairs = pairs[spec['part']::spec['parts']]
            for op in OPS:
                fn = fns[op]
                for a, b in pairs:
                    _check_api(res, numapi, fn, op, a, b)
                res.bulk(len(pairs), len(pairs))
            res.sample({'kind': kind, 'op': 'idiv', 'pair': pairs[0], 'expected': repr(expected('idiv', *pairs[0]))})
        elif kind == 'binary_random':
            n = spec['n']
            for i in range(n):
                op = OPS[i % len(OPS)]
                a = rng.randint(-32768, 32767)
                b = rng.randint(-32768, 32767) if rng.random() < 0.7 else rng.choice((-1, 0, 1, 2, -2, 32767, -32768))
                _check_api(res, numapi, fns[op], op, a, b)
                res.case((op, a, b))
                if i < 2:
                    res.sample({'kind': kind, 'op': op, 'a': a, 'b': b, 'expected': repr(expected(op, a, b))})
        elif kind == 'binary_sweep':
            # thorough: all 65536 left operands x R, and R x all 65536 right operands
            R = sorted(set(boundary_set()) | set(random.Random('%s:C02:R' % spec['seed']).sample(range(-32768, 32768), 170)))
            lefts = range(-32768 + spec['part'], 32768, spec['parts'])
            nblock = 0
            for op in OPS:
                fn = fns[op]
                for a in lefts:
                    for b in R:
                        _check_api(res, numapi, fn, op, a, b)
                        _check_api(res, numapi, fn, op, b, a)
                    nblock += 2 * len(R)
            # (a,b) and (b,a) coincide when both in R: count conservatively
            dup = len(OPS) * sum(1 for a in lefts if a in set(R)) * len(R)
            res.bulk(nblock, nblock - dup)
            res.count('sweep_right_operands', len(R))
            res.sample({'kind': kind, 'left_operands': '%d..32767 step %d' % (-32768 + spec['part'], spec['parts']),
                        'right_operand_set_size': len(R), 'first_right_operands': R[:12]})
        return
    if kind == 'basic_ops':
        return _basic_ops(spec, rng, res)
    if kind == 'basic_for':
        return _basic_for(spec, rng, res)
    raise ValueError(kind)


def _unary(res):
    from .. import numapi
    V, N = numapi.V, numapi.N
    for a in range(-32768, 32768):
        # NOT
        got = numapi.call(V.not_, numapi.integer(a))
        exp = ('ok', rnum.s16(~(a & 0xffff)))
        if got[0] == 'ok':
            got = ('ok', int(rnum.decode(got[1]))) if len(got[1]) == 2 else ('badtype', got[1].hex())
        if got != exp:
            res.violation('api:not:value', 'NOT %d: got %r expected %r' % (a, got, exp), ['not', a])
        # integer negation primitive (used by isub): exact, Overflow only for -32768
        try:
            r = numapi.call(lambda x: x.clone().ineg(), numapi.integer(a))
        except Exception as e:
            res.violation('internal:%s@Integer.ineg' % type(e).__name__, repr(e), ['ineg', a])
            continue
        expn = ('err', 6) if a == -32768 else ('ok', -a)
        if r[0] == 'ok':
            r = ('ok', int(rnum.decode(r[1])))
        if r != expn:
            res.violation('api:ineg:value', '-(%d): got %r expected %r' % (a, r, expn), ['ineg', a])
        # unary minus operator as BASIC applies it (may promote to single; value must be exact)
        r = numapi.call(V.neg, numapi.integer(a))
        if r[0] != 'ok' or rnum.decode(r[1]) != -a:
            res.violation('api:neg:value', 'neg(%d): got %r' % (a, r), ['neg', a])
    res.bulk(3 * 65536, 3 * 65536)
    res.count('unary_values_enumerated', 65536)
    res.sample({'kind': 'unary', 'ops': ['NOT', 'Integer.ineg', 'values.neg'], 'range': 'all -32768..32767'})


def _lit(v):
    """BASIC source text for a number (negative via unary minus in parentheses)."""
    if isinstance(v, float):
        t = repr(v)
    else:
        t = '%d' % v
    if t.startswith('-'):
        return ('(%s)' % t).encode()
    return t.encode()


def _expected_basic(op, x, y):
    """
    Operands given as Python numbers possibly fractional / outside the 16-bit range.
    Conversion: round half away from zero. \\ and MOD accept -32768..32767; bitwise accept
    -32768..65535 (literal statement). Returns (exp, deviation) where deviation is the recorded
    D-S1 behaviour (Overflow for 32768..65535 on bitwise) or None.
    """
    from fractions import Fraction
    ra, rb = rnum.round_half_away(Fraction(x)), rnum.round_half_away(Fraction(y))
    if op in ('idiv', 'mod'):
        if not (-32768 <= ra <= 32767) or not (-32768 <= rb <= 32767):
            return ('err', 6), None
        return expected(op, ra, rb), None
    if not (-32768 <= ra <= 65535) or not (-32768 <= rb <= 65535):
        return ('err', 6), None
    exp = expected(op, rnum.s16(ra), rnum.s16(rb))
    dev = None
    if ra > 32767 or rb > 32767:
        dev = ('err', 6)
    return exp, dev


EDGE_FLOATS = [32767.4, 32767.5, 32768, 40000, 65535, 65535.4, 65535.5, 65536, -32768.4, -32768.5, -32769,
               0.5, -0.5, 1.5, 2.5, -1.5, 1e10, -1e10]


def _operands_intact(box, res, op, a, b):
    """After `PRINT A% op B%` the operand variables still hold a and b; for \\ and MOD the identity
    a = b*(a\\b) + (a MOD b) is also evaluated in one expression over the same variables."""
    from .. import harness
    try:
        va, vb = box.s.get_variable('A%'), box.s.get_variable('B%')
    except Exception as e:  # noqa
        res.violation('basic:%s:operand-variable-unreadable' % op, repr(e), [op, a, b])
        return
    res.count('operand_variables_read_back')
    if (va, vb) != (a, b):
        res.violation('basic:%s:operand-variable-changed-by-evaluation' % op,
                      'A%%=%d:B%%=%d:PRINT A%% %s B%% left A%%=%r B%%=%r' % (a, b, op, va, vb), [op, a, b])
        return
    if op in ('idiv', 'mod') and b != 0 and -32768 <= rnum.trunc_div(a, b) <= 32767:
        try:
            out = box.ex(b'PRINT B%*(A%\\B%)+(A% MOD B%)')
        except harness.Internal as e:
            res.violation(e.key, str(e), [op, a, b])
            return
        res.count('division_identity_evaluated_over_variables')
        try:
            ok = float(out.strip()) == a
        except ValueError:
            ok = False
        if not ok:
            res.violation('basic:identity:b*(a-idiv-b)+(a-mod-b)-differs-from-a',
                          'A%%=%d:B%%=%d:PRINT B%%*(A%%\\B%%)+(A%% MOD B%%) -> %r' % (a, b, out), [op, a, b])


def _basic_ops(spec, rng, res):
    from .. import harness
    B = boundary_set()
    with harness.Box() as box:
        n = spec['n']
        for i in range(n):
            op = OPS[i % len(OPS)]
            r = rng.random()
            if r < 0.15:
                a, b = rng.choice(EDGE_FLOATS), rng.choice(B + [1, 2, 3])
                if rng.random() < 0.5:
                    a, b = b, a
            elif r < 0.6:
                a, b = rng.choice(B), rng.choice(B)
            else:
                a, b = rng.randint(-32768, 32767), rng.randint(-32768, 32767)
            exp, dev = _expected_basic(op, a, b)
            use_vars = (isinstance(a, int) and isinstance(b, int) and -32768 <= a <= 32767
                        and -32768 <= b <= 32767 and rng.random() < 0.5)
            try:
                if use_vars:
                    box.set('A%', a)
                    box.set('B%', b)
                    out = box.ex(b'PRINT A% ' + SYM[op] + b' B%')
                else:
                    out = box.ex(b'PRINT ' + _lit(a) + b' ' + SYM[op] + b' ' + _lit(b))
            except harness.Internal as e:
                res.violation(e.key, str(e), [op, a, b])
                continue
            code, _ = harness.err_of(out)
            if code:
                got = ('err', code)
            elif out.startswith(b'Division by zero\r\n'):
                # soft-handled form: message + signed single maximum
                got = ('err', 11)
                res.count('soft_div_zero_seen')
            else:
                try:
                    got = ('ok', int(out.strip()))
                except ValueError:
                    got = ('garbled', out)
            ok = (got in exp[1]) if exp[0] == 'either' else (got == exp)
            if use_vars:
                _operands_intact(box, res, op, a, b)
            res.case((op, a, b, use_vars))
            if i < 2:
                res.sample({'kind': 'basic_ops', 'stmt': 'PRINT %r %s %r' % (a, op, b), 'output': out, 'expected': repr(exp)})
            if got == ('err', 6):
                res.count('div_overflow_seen')
            if got == ('err', 11):
                res.count('div_zero_seen')
            if ok:
                continue
            if _mod_finding(res, op, a, b, got, exp):
                continue
            if dev is not None and got == dev:
                res.violation('bitwise-operand-32768..65535-raises-overflow',
                              '%r %s %r: Overflow (statement: operands up to 65535 accepted)' % (a, op, b), [op, a, b])
                continue
            res.violation('basic:%s:%s' % (op, 'value' if got[0] == 'ok' and exp[0] == 'ok' else 'error-class'),
                          'PRINT %r %s %r -> %r, expected %r' % (a, op, b, out, exp), [op, a, b])
        # NOT at BASIC level
        for v in rng.sample(range(-32768, 32768), 150) + [32768, 65535, 65536, -32769, 32767.5]:
            from fractions import Fraction
            rv = rnum.round_half_away(Fraction(v))
            try:
                out = box.ex(b'PRINT NOT ' + _lit(v))
            except harness.Internal as e:
                res.violation(e.key, str(e), ['not', v])
                continue
            code, _ = harness.err_of(out)
            got = ('err', code) if code else ('ok', int(out.strip()))
            if not (-32768 <= rv <= 65535):
                exp, dev = ('err', 6), None
            else:
                exp, dev = ('ok', rnum.s16(~(rv & 0xffff))), (('err', 6) if rv > 32767 else None)
            res.case(('not', v))
            if got == exp:
                continue
            if dev is not None and got == dev:
                res.violation('bitwise-operand-32768..65535-raises-overflow', 'NOT %r: Overflow' % (v,), ['not', v])
            else:
                res.violation('basic:not:value', 'PRINT NOT %r -> %r expected %r' % (v, out, exp), ['not', v])


def _basic_for(spec, rng, res):
    """Stored FOR I%=a TO b STEP c loops printing the counter; reference = exact 16-bit stepping."""
    from .. import harness
    lim = [32767, 32766, 32760, -32768, -32767, -32760, 0, 1, -1, 100, -100]
    with harness.Box(budget=3000) as box:
        for i in range(spec['n']):
            r = rng.random()
            if r < 0.5:
                # aim at the limits
                c = rng.choice([1, 2, 3, 7, 100, 1000, 32767, -1, -2, -3, -7, -100, -1000, -32768])
                if c > 0:
                    b = rng.choice([32767, 32766, 32767 - rng.randint(0, 5)])
                    a = b - c * rng.randint(0, 6) - rng.randint(0, abs(c) - 1 if abs(c) > 1 else 0)
                else:
                    b = rng.choice([-32768, -32767, -32768 + rng.randint(0, 5)])
                    a = b - c * rng.randint(0, 6) + rng.randint(0, abs(c) - 1 if abs(c) > 1 else 0)
                if not (-32768 <= a <= 32767):
                    a = rng.choice(lim)
            else:
                a, b = rng.randint(-32768, 32767), rng.randint(-32768, 32767)
                span = abs(b - a)
                c = rng.choice([1, -1]) * max(1, span // rng.randint(1, 12) + rng.randint(0, 3))
                c = max(-32768, min(32767, c))
            # skip loops that are empty at the start: the statement does not pin the counter there
            if (c > 0 and a > b) or (c < 0 and a < b):
                a, b = b, a
            # reference
            vals, i_, overflow = [], a, False
            while True:
                vals.append(i_)
                nxt = i_ + c
                if not (-32768 <= nxt <= 32767):
                    overflow = True
                    break
                i_ = nxt
                if (c > 0 and i_ > b) or (c < 0 and i_ < b):
                    break
                if len(vals) > 400:
                    break
            if len(vals) > 400:
                continue
            prog = [b'10 FOR I%%=%d TO %d STEP %d' % (a, b, c), b'20 PRINT I%;', b'30 NEXT', b'40 PRINT "E";I%']
            try:
                out = box.run(prog)
            except harness.Internal as e:
                res.violation(e.key, str(e), ['for', a, b, c])
                continue
            code, line = harness.err_of(out)
            # printed values wrap at the screen width: take everything before the end marker / error message
            body = out.split(b'E')[0] if not code else out.split(b'Overflow')[0]
            try:
                got_vals = [int(t) for t in body.replace(b'Overflow', b' ').split() if t.lstrip(b'-').isdigit()]
            except ValueError:
                got_vals = None
            res.case(('for', a, b, c))
            if i < 2:
                res.sample({'kind': 'basic_for', 'program': prog, 'output': out})
            if overflow:
                res.count('for_overflow_seen')
                if code != 6 or got_vals != vals:
                    res.violation('for:overflow-at-limit', 'FOR %d TO %d STEP %d: expected %r then Overflow, got %r'
                                  % (a, b, c, vals[-3:], out[-80:]), ['for', a, b, c])
            else:
                if code or got_vals != vals:
                    res.violation('for:counter-sequence', 'FOR %d TO %d STEP %d: expected %r.. got %r'
                                  % (a, b, c, vals[:5], out[:120]), ['for', a, b, c])
                else:
                    # final counter value = last + step (exact 16-bit addition)
                    tail = out.split(b'E')[-1].split()
                    if not tail or int(tail[0]) != vals[-1] + c:
                        res.violation('for:final-counter', 'final counter %r expected %d' % (tail, vals[-1] + c), ['for', a, b, c])
