"""
C42 PLAY emits the notes its music string specifies.

Oracle: R-PLAY (vf.models.c42_rplay) computes, from the token list a music string was rendered
from, the audible timeline the statement prescribes (tone per note: note number, seconds; rests);
the tone signals the real interpreter puts on the audio queue (recording queue, M-AUD) for the
same PLAY statement must give the same timeline. Virtual clock: the 32-entry background queue
drains on logical time.
"""
import random

from ..models import c42_rplay as rp

DEV_KEY = 'play:frequency-one-semitone-below-formula'
CLAMP_KEY = 'play:multivoice-frequency-below-110Hz-played-as-110Hz'

META = {
    'property_id': 'C42',
    'technique': 'reference-model monitor (MML semantics -> audible timeline) against the recorded audio-queue tone signals',
    'level': 'exploration',
    'level_text': (
        'Runtime oracle: for every generated music string the tone signals emitted by PLAY (frequency, seconds; rests) are '
        'compared per voice with the timeline computed from the statement: one tone per note, frequency by the closed '
        'formula, duration (240/T)/L x 1.5 per dot split into tone and gap by MN/ML/MS, pauses, octave clamping; malformed '
        'strings must give error 5. Directed tables (both tiers): all 84 N numbers, every letter/accidental in every '
        'octave, every length 1..64 with 0..3 dots, every tempo 32..255, the three articulations, clamping runs, a table of '
        'malformed strings; in the advanced, pcjr (with and without SOUND ON) and tandy syntaxes.'),
    'level_note': (
        'Recorded deviation D-S3: pcbasic plays note number n at 440*2^((n-34)/12), one semitone below the literal formula, '
        'uniformly; the oracle accepts exactly the literal formula for all tones of a statement or exactly this deviation '
        'for all of them (reported under %s). Second deviation found: with Tandy / PCjr SOUND ON a tone below 110 Hz is '
        'played at 110 Hz (reported under %s). Not pinned by the statement, hence not generated or not compared: default '
        'T/L/O/M (every string sets them first), volume, note lengths given by variable (pcbasic takes literals only there), C-/B#/E#/F- spellings, note length 0, P without length, dots after '
        'L, N0, leading / trailing / doubled semicolons (a single separator semicolon between two commands, with blanks around it, IS generated, and every command letter comes in either case), what was already emitted before a malformed command '
        'is reached, adjacent silences are compared merged (gap + pause), zero-length synchronisation markers of the '
        'multi-voice syntaxes are ignored. Trusted: harness recording queue and virtual clock, IEEE double pow for the '
        'formula (relative tolerance 1e-9).' % (DEV_KEY, CLAMP_KEY)),
    'rule': ('case = (syntax, token lists per voice, rendering); distinct by the rendered statement and variable values; '
             'non-trivial = at least one note or pause, or a malformed command'),
    'design_ref': 'DESIGN.md section 4 C42',
    'assumptions': ['tone signals on queues.audio are what the interface would play'],
    'require_counters': {'any': ['tones_logged', 'gaps_checked', 'pauses', 'dotted_notes', 'octave_clamps',
                                 'malformed_rejected', 'notes_ML', 'notes_MS', 'notes_MN', 'substrings', 'variable_references',
                                 'separator_then_lowercase_command',
                                 'background_queue_waits']},
    'timeout': {'quick': 900, 'thorough': 10800},
}

SYNTAXES = [('advanced', False), ('pcjr', False), ('pcjr', True), ('tandy', True)]
LENGTHS = [1, 2, 3, 4, 6, 8, 12, 16, 24, 32, 48, 64]
SHARP_OK = 'CDFGA'
FLAT_OK = 'DEGAB'


# ---------------------------------------------------------------------------------------
# generator: items = [(token, form)]; form = None | 'lit' | ['var', name] | ['ptr', name]

def _num_form(rng, allow_ptr):
    r = rng.random()
    if r < 0.80:
        return 'lit'
    if r < 0.92 or not allow_ptr:
        return ['var', None]       # second element: variable type hint (None = random over % ! # and array elements)
    return ['ptr', None]


def gen_body(rng, n, allow_v, depth, allow_ptr):
    items = []
    for _ in range(n):
        r = rng.random()
        if r < 0.46:
            letter = rng.choice('ABCDEFG')
            accs = [''] * 3
            if letter in SHARP_OK:
                accs += ['#', '+']
            if letter in FLAT_OK:
                accs += ['-']
            acc = rng.choice(accs)
            length = None if rng.random() < 0.55 else (rng.choice(LENGTHS) if rng.random() < 0.8 else rng.randint(1, 64))
            dots = rng.choice([0, 0, 0, 0, 0, 1, 1, 2, 3])
            items.append((['note', letter, acc, length, dots], None))
        elif r < 0.53:
            items.append((['N', rng.randint(1, 84), rng.choice([0, 0, 0, 1, 2])], _num_form(rng, allow_ptr)))
        elif r < 0.60:
            items.append((['P', rng.choice(LENGTHS) if rng.random() < 0.8 else rng.randint(1, 64), rng.choice([0, 0, 0, 1, 2])], None))
        elif r < 0.65:
            items.append((['L', rng.choice(LENGTHS) if rng.random() < 0.7 else rng.randint(1, 64)], _num_form(rng, allow_ptr)))
        elif r < 0.70:
            items.append((['T', rng.choice([32, 60, 120, 255, rng.randint(32, 255), rng.randint(32, 255)])], _num_form(rng, allow_ptr)))
        elif r < 0.75:
            items.append((['O', rng.randint(0, 6)], _num_form(rng, allow_ptr)))
        elif r < 0.86:
            c = rng.choice('<>')
            for _ in range(rng.choice([1, 1, 1, 2, 3, 7])):
                items.append(([c], None))
        elif r < 0.94:
            items.append((['M', rng.choice('NLSNLSFB')], None))
        elif r < 0.97 and depth < 2:
            sub = gen_body(rng, rng.randint(1, 6), allow_v, depth + 1, False)
            items.append((['X', sub], ['var', None] if (not allow_ptr or rng.random() < 0.7) else ['ptr', None]))
        elif allow_v:
            items.append((['V', rng.randint(0, 15)], _num_form(rng, allow_ptr)))
    return items


def gen_header(rng):
    hdr = [(['T', rng.choice([120, 120, 32, 255, rng.randint(32, 255), rng.randint(32, 255)])], 'lit'),
           (['L', rng.choice([4, 4, 1, 64] + LENGTHS)], 'lit'),
           (['O', rng.randint(0, 6)], 'lit'),
           (['M', rng.choice('NLS')], None)]
    rng.shuffle(hdr)
    return hdr


def gen_string(rng, allow_v, allow_ptr, background=None):
    items = gen_header(rng)
    fb = background if background is not None else rng.choice('BBBF')
    items.insert(rng.randint(0, len(items)), (['M', fb], None))
    items += gen_body(rng, rng.choice([3, 6, 10, 16, 24, 40]), allow_v, 0, allow_ptr)
    return items


def strip(items):
    out = []
    for tk, form in items:
        if tk[0] == 'X':
            out.append(['X', strip(tk[1])])
        else:
            out.append(tk)
    return out


def n_sounds(tokens):
    n = 0
    for tk in tokens:
        if tk[0] in ('note', 'N', 'P'):
            n += 1
        elif tk[0] == 'X':
            n += n_sounds(tk[1])
    return n


# arrays dimensioned in every session: type hint -> (name, upper bounds); scalars created before them
ARRAYS = {'a%': (b'AR%', (10,)), 'a!': (b'AS!', (6,)), 'a#': (b'AD#', (10,)), 'm%': (b'AM%', (2, 3)), 'm#': (b'AN#', (1, 2, 2)),
          'a$': (b'SA$', (10,))}
PRE_SCALARS = {'b%': b'BI%', 'b!': b'BS!', 'b#': b'BD#'}
SETUP = [b'BI%=0:BS!=0:BD#=0', b'DIM AR%(10),AS!(6),AD#(10),AM%(2,3),AN#(1,2,2),SA$(10)']


class Renderer(object):
    """Token items -> pieces of a BASIC string expression + variable assignments."""

    def __init__(self, rng, narr=None, case=None, sep=0.2):
        self.rng = rng
        self.case = case      # 'lower' / 'upper' / None = per command at random
        self.sep = sep        # probability of a separator semicolon between two commands
        self.nsep = 0
        self.nblanknum = 0    # numbers written with blanks before / between their digits
        self.nsep_lower = 0   # separators directly followed by a lower-case command letter
        self.nvar = 0
        self.narr = narr if narr is not None else set()   # array elements / early scalars handed out (shared with sub-renderers)
        self.assign = []      # (name bytes, value: int or bytes)
        self.nrefs = 0
        self.nptr = 0
        self.narrptr = 0      # VARPTR$ references to array elements

    def _name(self, kind, hint=None):
        """
        A fresh variable for one reference. Types: scalars % ! # $ created by the assignment (after the arrays),
        b% b! b# scalars created BEFORE the arrays were dimensioned, elements of one-dimensional arrays a% a! a# a$
        and of multi-dimensional arrays m% m#. An array hint may carry the element position: 'a#:last', 'm%:first',
        'a!:middle'. No element or b-scalar is used twice in one statement.
        """
        self.nvar += 1
        r = self.rng.random()
        if kind == 'str':
            typ = hint or ('a$' if r < 0.15 else '$')
        else:
            typ = hint or ('%' if r < 0.25 else '!' if r < 0.40 else '#' if r < 0.60 else 'a%' if r < 0.68 else
                           'a!' if r < 0.74 else 'a#' if r < 0.82 else 'm%' if r < 0.88 else 'm#' if r < 0.93 else
                           'b' + self.rng.choice('%!#'))
        typ, _, where = typ.partition(':')
        used = self.narr
        if typ in ARRAYS:
            name, dims = ARRAYS[typ]
            for _ in range(6):
                w = where or self.rng.choice(['first', 'last', 'middle', 'any', 'any'])
                if w == 'first':
                    idx = tuple(0 for d in dims)
                elif w == 'last':
                    idx = tuple(dims)
                elif w == 'middle':
                    idx = tuple(d // 2 for d in dims)
                else:
                    idx = tuple(self.rng.randint(0, d) for d in dims)
                if (name, idx) not in used:
                    used.add((name, idx))
                    return name + b'(' + b','.join(b'%d' % i for i in idx) + b')'
                where = ''
            typ = typ[1:]
        elif typ in PRE_SCALARS:
            if PRE_SCALARS[typ] not in used:
                used.add(PRE_SCALARS[typ])
                return PRE_SCALARS[typ]
            typ = typ[1:]
        return {'%': b'Q%d%%', '!': b'R%d!', '#': b'D%d#', '$': b'S%d$'}[typ] % self.nvar

    def _case(self, s):
        if self.case == 'lower':
            return s.lower()
        if self.case == 'upper':
            return s
        return s.lower() if self.rng.random() < 0.35 else s

    def _digits(self, value):
        """Decimal digits of a literal number; blanks before and between the digits are ignored by the macro language."""
        s = b'%d' % value
        if self.rng.random() < 0.12:
            out = b''.join((b' ' if self.rng.random() < 0.5 else b'') + s[i:i + 1] for i in range(len(s)))
            if out != s:
                self.nblanknum += 1
            return out
        return s

    def _number(self, letter, value, form, pieces):
        if form == 'lit' or form is None:
            pieces.append(('lit', self._case(letter) + self._digits(value)))
            return
        name = self._name('num', form[1])
        self.assign.append((name, value))
        self.nrefs += 1
        if form[0] == 'var':
            pieces.append(('lit', self._case(letter) + b'=' + name + b';'))
        else:
            self.nptr += 1
            self.narrptr += (b'(' in name)
            pieces.append(('lit', self._case(letter) + b'='))
            pieces.append(('ptr', name))

    def render(self, items, pieces=None):
        pieces = pieces if pieces is not None else []
        first = True
        for tk, form in items:
            # an optional separator semicolon BETWEEN two commands (never leading, trailing or doubled, never after
            # the semicolon that closes =var; / Xvar; or after a VARPTR$ reference), blanks allowed around it
            sep_here = False
            if not first and pieces and self.rng.random() < self.sep:
                last = [p for p in pieces if p[0] == 'ptr' or p[1].strip()][-1:]
                if last and last[0][0] == 'lit' and not last[0][1].rstrip().endswith(b';'):
                    if self.rng.random() < 0.3:
                        pieces.append(('lit', b' '))
                    pieces.append(('lit', b';'))
                    self.nsep += 1
                    sep_here = True
            first = False
            if self.rng.random() < 0.3:
                pieces.append(('lit', b' ' * self.rng.randint(1, 2)))
            mark = len(pieces)
            op = tk[0]
            if op == 'note':
                s = tk[1].encode() + tk[2].encode()
                if tk[3]:
                    s += self._digits(tk[3])
                s += b'.' * tk[4]
                pieces.append(('lit', self._case(s)))
            elif op == 'N':
                self._number(b'N', tk[1], form, pieces)
                if tk[2]:
                    pieces.append(('lit', b'.' * tk[2]))
            elif op == 'P':
                pieces.append(('lit', self._case(b'P') + self._digits(tk[1]) + b'.' * tk[2]))
            elif op in ('L', 'T', 'O', 'V'):
                self._number(op.encode(), tk[1], form, pieces)
            elif op in ('<', '>'):
                pieces.append(('lit', op.encode()))
            elif op == 'M':
                pieces.append(('lit', self._case(b'M' + tk[1].encode())))
            elif op == 'X':
                sub = Renderer(self.rng, self.narr, self.case, self.sep)
                sub.nvar = self.nvar + 20
                sp = sub.render(tk[1])
                text = b''.join(p[1] for p in sp)       # substrings use literal / =var; forms only
                self.assign.extend(sub.assign)
                self.nrefs += sub.nrefs + 1
                self.nsep += sub.nsep
                self.nblanknum += sub.nblanknum
                self.nsep_lower += sub.nsep_lower
                self.nvar = sub.nvar
                name = self._name('str', form[1])
                self.assign.append((name, text))
                if form[0] == 'var':
                    pieces.append(('lit', self._case(b'X') + name + b';'))
                else:
                    self.nptr += 1
                    self.narrptr += (b'(' in name)
                    pieces.append(('lit', self._case(b'X')))
                    pieces.append(('ptr', name))
            if sep_here and len(pieces) > mark and pieces[mark][1][:1].islower():
                self.nsep_lower += 1
        return pieces


def expression(pieces):
    """BASIC string expression for the pieces; None if it needs a variable for the literal text."""
    parts = []
    cur = b''
    for kind, val in pieces:
        if kind == 'lit':
            cur += val
        else:
            if cur:
                parts.append(b'"' + cur + b'"')
                cur = b''
            parts.append(b'VARPTR$(' + val + b')')
    if cur:
        parts.append(b'"' + cur + b'"')
    return b'+'.join(parts) if parts else b'""'


# ---------------------------------------------------------------------------------------
# malformed strings (statement: Illegal function call)

def malformed_table(gw_syntax):
    bad = [b'H', b'I', b'J', b'K', b'Q', b'R', b'S', b'U', b'W', b'Y', b'Z', b'!', b'?', b'@', b'&', b'(', b'%', b'$',
           b'L0', b'L65', b'L100', b'L255', b'L-4', b'T31', b'T0', b'T256', b'T1000', b'T-120', b'O7', b'O8', b'O-1', b'O10',
           b'N85', b'N100', b'N-1', b'N255', b'C65', b'D99', b'E#100', b'MX', b'MA', b'M1', b'MQ', b'L', b'T', b'O', b'N',
           b'LC', b'TC', b'OC', b'NC', b'L99999999999', b'T32767', b'N32768']
    if gw_syntax:
        bad += [b'V10', b'V0']
    return bad


# ---------------------------------------------------------------------------------------

def close(a, b, rel=1e-9):
    return abs(a - b) <= rel * max(abs(a), abs(b)) + 1e-12


class Rig(object):

    def __init__(self, res, syntax, sound_on):
        from .. import harness
        self.h = harness
        self.res = res
        self.syntax = syntax
        self.sound_on = sound_on
        self.multi = syntax in ('pcjr', 'tandy')
        self.allow_v = (syntax == 'tandy') or (syntax == 'pcjr' and sound_on)
        self.clamp = self.multi and (sound_on or syntax == 'tandy')
        self.box = None
        self.ncases = 0
        self.readings = {'lit': 0, 'dev': 0}      # statements whose tones follow the literal formula / the recorded deviation

    def open(self):
        h = self.h
        self.close()
        self.box = h.Box(syntax=self.syntax, wait_budget=60000, budget=50)
        self.box.stepper.wait_advance = 0.25
        _, self.audio = h.record_queues(self.box.s, video=False)
        if self.sound_on and self.syntax == 'pcjr':
            self.box.ex(b'SOUND ON')
        for st in SETUP:
            if self.box.ex(st).strip():
                raise RuntimeError('setup failed: %r' % st)
        self.audio.drain()

    def close(self):
        if self.box is not None:
            self.box.close()
            self.box = None

    def play(self, assigns, exprs):
        """Set variables, run PLAY expr[,expr[,expr]]; returns (output, tone events, statement)."""
        h, box = self.h, self.box
        self.ncases += 1
        if self.box is None or self.ncases % 300 == 0:
            self.open()
            box = self.box
        for name, value in assigns:
            if isinstance(value, bytes) and b'(' in name:
                out = box.ex(name + b'="' + value + b'"')        # string array element (the text holds no quote)
                if out.strip():
                    raise RuntimeError('assignment failed: %r' % out)
            elif isinstance(value, bytes):
                box.set(name.decode(), value)
            else:
                out = box.ex(name + b'=%d' % value)
                if out.strip():
                    raise RuntimeError('assignment failed: %r' % out)
        # let everything queued earlier finish: the statement under test starts on an idle sound system
        box.clock.advance(100000)
        self.audio.drain()
        w0 = box.stepper.total_waits
        stmt = b'PLAY ' + b','.join(exprs)
        out = box.ex(stmt)
        waits = box.stepper.total_waits - w0
        if waits:
            self.res.count('background_queue_waits', waits)
        ev = [e.params for e in self.audio.drain() if e.event_type == h.signals.AUDIO_TONE]
        return out, ev, stmt

    # -- oracle ---------------------------------------------------------------------------------
    def compare(self, expected, observed):
        """
        expected: model segments; observed: canonical_observed segments.
        Returns list of (key, text); the deviation keys are included when they explain the frequencies.
        """
        probs = []
        ne = sum(1 for s in expected if s[0] == 'tone')
        no = sum(1 for s in observed if s[0] == 'tone')
        if ne != no:
            return [('play:tone-count', '%d tones for %d notes' % (no, ne))]
        if [s[0] for s in expected] != [s[0] for s in observed]:
            return [('play:tone-rest-sequence', 'tone/silence pattern %s, statement gives %s' % (
                ''.join(s[0][0] for s in observed), ''.join(s[0][0] for s in expected)))]
        classes = []
        for i, (e, o) in enumerate(zip(expected, observed)):
            if e[0] == 'rest':
                if not close(float(e[1]), o[1]):
                    probs.append(('play:gap-or-pause-duration', 'silence #%d lasts %.9g s, statement gives %.9g s' % (i, o[1], float(e[1]))))
                continue
            if not close(float(e[2]), o[2]):
                probs.append(('play:tone-duration', 'tone #%d (note number %d) lasts %.9g s, statement gives %.9g s' % (i, e[1], o[2], float(e[2]))))
            f0, f1 = rp.formula_frequency(e[1]), rp.formula_frequency(e[1], -1)
            c = set()
            if close(f0, o[1]):
                c.add('lit')
            if close(f1, o[1]):
                c.add('dev')
            if self.clamp and close(110.0, o[1]):
                if f0 < 110.0:
                    c.add('lit-clamped')
                if f1 < 110.0:
                    c.add('dev-clamped')
            classes.append((i, e[1], o[1], c))
        if classes:
            can_lit = all(c & {'lit', 'lit-clamped'} for _, _, _, c in classes)
            can_dev = all(c & {'dev', 'dev-clamped'} for _, _, _, c in classes)
            if can_lit or can_dev:
                # prefer the literal reading; a statement that fits both (only clamped tones) decides nothing
                reading = 'lit' if can_lit else 'dev'
                if can_lit != can_dev:
                    self.readings[reading] += 1
                clamped = [x for x in classes if reading not in x[3]]
                if reading == 'dev':
                    w = [x for x in classes if 'dev' in x[3]] or classes
                    probs.append((DEV_KEY, 'note number %d sounds at %.6f Hz = 440*2^((n-34)/12); the statement formula gives %.6f Hz' % (
                        w[0][1], w[0][2], rp.formula_frequency(w[0][1]))))
                if clamped:
                    w = clamped[0]
                    probs.append((CLAMP_KEY, 'note number %d sounds at 110 Hz (%s%s); formula %.6f Hz, one semitone lower %.6f Hz' % (
                        w[1], self.syntax, ', SOUND ON' if self.syntax == 'pcjr' else '',
                        rp.formula_frequency(w[1]), rp.formula_frequency(w[1], -1))))
            else:
                w = [x for x in classes if not x[3]] or classes
                probs.append(('play:frequency', 'note number %d sounds at %.6f Hz; formula %.6f Hz, one semitone lower %.6f Hz' % (
                    w[0][1], w[0][2], rp.formula_frequency(w[0][1]), rp.formula_frequency(w[0][1], -1))))
        return probs

    def check_valid(self, voices_items, rng, origin, force_var=False, case=None, sep=0.2):
        """voices_items: list (1..3) of item lists. Renders, plays, compares."""
        res, h = self.res, self.h
        rnd = Renderer(rng, None, case, sep)
        exprs, texts = [], []
        use_var = force_var or rng.random() < 0.4
        assigns_extra = []
        for vi, items in enumerate(voices_items):
            pieces = rnd.render(items)
            has_ptr = any(k == 'ptr' for k, _ in pieces)
            text = b''.join(v for k, v in pieces if k == 'lit')
            if (use_var and not has_ptr) or (not has_ptr and len(text) > 200):
                name = b'M%d$' % vi
                assigns_extra.append((name, text))
                exprs.append(name)
            else:
                exprs.append(expression(pieces))
            texts.append(pieces)
        stmt_len = len(b'PLAY ' + b','.join(exprs))
        if stmt_len > 250 or any(isinstance(v, bytes) and len(v) > 250 for _, v in rnd.assign + assigns_extra):
            res.count('cases_skipped_too_long')
            return None
        tokens = [strip(items) for items in voices_items]
        case = {'syntax': self.syntax, 'sound_on': self.sound_on, 'tokens': tokens, 'origin': origin}
        try:
            out, ev, stmt = self.play(rnd.assign + assigns_extra, exprs)
        except h.Internal as e:
            res.violation(e.key, str(e), case)
            self.open()
            return False
        case['statement'] = stmt
        case['variables'] = [[n, v] for n, v in rnd.assign + assigns_extra]
        shown = stmt if not assigns_extra else stmt + b'  where ' + b', '.join(n + b'="' + v + b'"' for n, v in assigns_extra)
        sounds = sum(n_sounds(t) for t in tokens)
        res.case((self.syntax, self.sound_on, stmt, repr(case['variables'])), nontrivial=sounds > 0)
        code, _ = h.err_of(out)
        if self.box.stepper.break_hit:
            code = -2
        if code:
            key = 'play:valid-string-rejected' if code > 0 else 'play:statement-did-not-finish'
            if code == 13 and rnd.narrptr:
                # an argument given as "="+VARPTR$(array element) (three arrays are dimensioned in the session)
                key = 'play:varptr-array-element-reference-rejected'
            res.violation(key, '%s -> %r' % (stmt, out[-60:]), case)
            return False
        ok = True
        for vi, tk in enumerate(tokens):
            exp, st, stats = rp.run(tk)
            obs = rp.canonical_observed(ev, vi)
            for k, v in stats.items():
                name = {'notes': 'notes_played', 'dotted': 'dotted_notes', 'pauses': 'pauses', 'octave_clamps': 'octave_clamps',
                        'substrings': 'substrings', 'numbered_notes': 'numbered_notes', 'accidentals': 'accidentals',
                        'own_lengths': 'notes_with_own_length', 'volumes': 'volume_commands',
                        'mode_F': 'foreground_switches', 'mode_B': 'background_switches'}.get(k, k)
                res.count(name, v)
            res.count('tones_logged', sum(1 for s in obs if s[0] == 'tone'))
            res.count('gaps_checked', sum(1 for s in obs if s[0] == 'rest'))
            for key, text in self.compare(exp, obs):
                if key == DEV_KEY:
                    res.count('semitone_deviation_statements')
                elif key == CLAMP_KEY:
                    res.count('low_note_clamp_statements')
                else:
                    ok = False
                res.violation(key, '%s [%s%s voice %d] %s' % (text, self.syntax, ' SOUND ON' if self.sound_on and self.syntax == 'pcjr' else '',
                                                              vi, shown[:160]), case)
        # nothing may sound on a voice without a string
        for vi in range(len(tokens), 3):
            extra = [s for s in rp.canonical_observed(ev, vi) if s[0] == 'tone']
            if extra:
                ok = False
                res.violation('play:tone-on-unused-voice', 'voice %d sounds %r' % (vi, extra[:3]), case)
        if rnd.nrefs:
            res.count('variable_references', rnd.nrefs)
        if rnd.nblanknum:
            res.count('numbers_with_blanks_between_digits', rnd.nblanknum)
        if rnd.nsep:
            res.count('separator_semicolons', rnd.nsep)
        if rnd.nsep_lower:
            res.count('separator_then_lowercase_command', rnd.nsep_lower)
        if rnd.nptr:
            res.count('varptr_references', rnd.nptr)
        if rnd.narrptr:
            res.count('varptr_array_element_references', rnd.narrptr)
        if len(tokens) > 1:
            res.count('multi_voice_statements')
        return ok

    def check_malformed(self, text, origin):
        res, h = self.res, self.h
        case = {'syntax': self.syntax, 'sound_on': self.sound_on, 'mml': text, 'origin': origin}
        try:
            out, ev, stmt = self.play([(b'M0$', text)], [b'M0$'])
        except h.Internal as e:
            res.violation(e.key, str(e), case)
            self.open()
            return False
        res.case((self.syntax, self.sound_on, 'bad', text))
        code, _ = h.err_of(out)
        if code == 5:
            res.count('malformed_rejected')
            return True
        if code == 0:
            res.violation('play:malformed-string-accepted', 'PLAY %r raised no error' % text, case)
        else:
            res.violation('play:malformed-string-wrong-error', 'PLAY %r -> %r (expected Illegal function call)' % (text, out[-50:]), case)
        return False


# ---------------------------------------------------------------------------------------
# directed tables (seed-independent)

HDR = [(['T', 120], 'lit'), (['L', 4], 'lit'), (['O', 4], 'lit'), (['M', 'N'], None), (['M', 'B'], None)]


def hdr(T=120, L=4, O=4, M='N', fb='B'):
    return [(['T', T], 'lit'), (['L', L], 'lit'), (['O', O], 'lit'), (['M', M], None), (['M', fb], None)]


def directed_cases(part):
    """Yield (tag, [voice items]) for table `part`."""
    if part == 'notes':
        # every N number; every letter/accidental in every octave
        for a in range(1, 85, 12):
            yield 'N%d..' % a, [hdr() + [(['N', n, 0], 'lit') for n in range(a, min(85, a + 12))]]
        for o in range(7):
            items = hdr(O=o, L=16)
            for letter in 'CDEFGAB':
                items.append((['note', letter, '', None, 0], None))
                if letter in SHARP_OK:
                    items.append((['note', letter, '#', None, 0], None))
                    items.append((['note', letter, '+', None, 0], None))
                if letter in FLAT_OK:
                    items.append((['note', letter, '-', None, 0], None))
            yield 'octave%d' % o, [items]
    elif part == 'lengths':
        for L in range(1, 65):
            for m in 'NLS':
                items = hdr(L=L, M=m, T=200)
                for d in range(4):
                    items.append((['note', 'A', '', None, d], None))
                    items.append((['note', 'C', '#', L, d], None))
                items.append((['P', L, 0], None))
                items.append((['P', L, 2], None))
                items.append((['N', 40, 1], 'lit'))
                yield 'L%d M%s' % (L, m), [items]
    elif part == 'tempos':
        for T in range(32, 256):
            items = hdr(T=T, M='NLS'[T % 3])
            items += [(['note', 'G', '', None, 0], None), (['note', 'E', '-', 8, 1], None), (['P', 4, 0], None), (['note', 'B', '', 3, 0], None)]
            yield 'T%d' % T, [items]
    elif part == 'misc':
        # clamping runs
        for o in range(7):
            for c in '<>':
                items = hdr(O=o, L=32)
                for _ in range(8):
                    items.append(([c], None))
                    items.append((['note', 'C', '', None, 0], None))
                yield 'clamp O%d %s' % (o, c), [items]
        # articulation switches inside a string, foreground mode, long background string (queue must drain)
        items = hdr(L=8)
        for m in 'NLSLNSSN':
            items += [(['M', m], None), (['note', 'D', '', None, 0], None), (['note', 'F', '#', 4, 1], None)]
        yield 'articulations', [items]
        yield 'foreground', [hdr(fb='F', L=2, T=60) + [(['note', x, '', None, 0], None) for x in 'CDEFGAB']]
        yield 'long-background', [hdr(L=64, T=255) + [(['note', x, '', None, 0], None) for x in 'CDEFGAB' * 12]]
        yield 'slow-background', [hdr(L=1, T=32) + [(['note', x, '', None, 1], None) for x in 'CDEFGAB' * 6]]
        # variable references and substrings
        sub = [(['note', 'C', '', 8, 0], None), (['L', 2], ['var', None]), (['note', 'D', '', None, 0], None)]
        yield 'x-var', [hdr() + [(['X', sub], ['var', None]), (['note', 'E', '', None, 0], None), (['T', 90], ['var', None]),
                                 (['O', 2], ['var', None]), (['N', 34, 0], ['var', None]), (['note', 'A', '', None, 0], None)]]
        yield 'x-ptr', [hdr() + [(['X', sub], ['ptr', None]), (['note', 'E', '', None, 0], None), (['T', 90], ['ptr', None]),
                                 (['O', 2], ['ptr', None]), (['N', 34, 0], ['ptr', None]), (['note', 'A', '', None, 0], None)]]
        # every numeric argument kind x every variable type x (=name; | "="+VARPTR$(var)); X with scalar / array-element strings
        for form in ('var', 'ptr'):
            alltypes = ['%', '!', '#', 'b%', 'b!', 'b#'] + ['%s:%s' % (a, w) for a in ('a%', 'a!', 'a#', 'm%', 'm#')
                                                             for w in ('first', 'middle', 'last')]
            for typ in alltypes:
                for tk in (['L', 8], ['T', 200], ['O', 5], ['N', 34, 1], ['V', 7]):
                    tag = '%sref %s %s %s' % ('V:' if tk[0] == 'V' else '', tk[0], typ, form)
                    yield tag, [hdr() + [(['note', 'C', '', None, 0], None), (list(tk), [form, typ]),
                                         (['note', 'D', '', None, 1], None), (['note', 'E', '-', 16, 0], None)]]
            for typ in ('$', 'a$:first', 'a$:middle', 'a$:last'):
                sub2 = [(['L', 16], ['var', '#']), (['note', 'G', '', None, 0], None), (['O', 1], ['var', 'a#:last']), (['note', 'F', '#', 2, 0], None)]
                yield 'ref X %s %s' % (typ, form), [hdr() + [(['X', sub2], [form, typ]), (['note', 'B', '', None, 0], None)]]
        # letter case x separators: every command kind, a separator at every position the grammar allows
        sub3 = [(['note', 'G', '', None, 0], None), (['L', 2], 'lit'), (['note', 'D', '-', None, 1], None)]
        allk = hdr(T=150, L=8, O=3, M='S') + [
            (['note', 'C', '', None, 0], None), (['note', 'D', '#', 16, 0], None), (['note', 'E', '-', None, 2], None),
            (['N', 40, 0], 'lit'), (['N', 12, 1], 'lit'), (['P', 8, 0], None), (['P', 16, 1], None), (['L', 4], 'lit'), (['note', 'F', '', None, 0], None),
            (['T', 200], 'lit'), (['note', 'G', '+', 2, 0], None), (['O', 5], 'lit'), (['note', 'A', '', None, 0], None), (['>'], None),
            (['note', 'B', '-', None, 0], None), (['<'], None), (['<'], None), (['note', 'A', '-', 32, 0], None), (['M', 'L'], None),
            (['note', 'C', '', None, 0], None), (['M', 'N'], None), (['note', 'D', '', None, 0], None), (['M', 'F'], None), (['M', 'B'], None),
            (['X', sub3], ['var', '$']), (['note', 'E', '', None, 0], None), (['L', 16], ['var', '%']), (['note', 'F', '#', None, 0], None),
            (['T', 100], ['var', '#']), (['O', 1], ['var', '!']), (['N', 50, 0], ['var', 'a%']), (['note', 'B', '', 4, 1], None)]
        for cs in ('lower', 'upper', 'mixed'):
            for sp in (100, 50, 0):
                yield 'style:%s:%d:all-commands' % (cs, sp), [allk]
        # middle A: the D-S3 reproducer (note number 34 = O2 A under the statement's numbering)
        yield 'd-s3', [hdr(O=2) + [(['note', 'A', '', None, 0], None), (['N', 34, 0], 'lit'), (['N', 1, 0], 'lit'), (['N', 84, 0], 'lit')]]


def plan(tier, seed):
    shards = []
    for part in ('notes', 'lengths', 'tempos', 'misc'):
        shards.append({'kind': 'directed', 'table': part})
    shards.append({'kind': 'malformed'})
    if tier == 'quick':
        for i in range(8):
            shards.append({'kind': 'random', 'part': i, 'n': 2400})
    else:
        for i in range(32):
            shards.append({'kind': 'random', 'part': i, 'n': 20000})
    return shards


def run_shard(spec, res):
    # NOTE the harness virtual clock is process-global (one VirtualClock installed at a time), so only one
    # Box may be alive at any moment: the syntaxes are handled one after the other.
    kind = spec['kind']
    for ri, (syntax, sound_on) in enumerate(SYNTAXES):
        r = Rig(res, syntax, sound_on)
        try:
            r.open()
            _run_rig(spec, kind, r, ri, res)
            if r.readings['lit'] and r.readings['dev']:
                # "uniformly for all notes": the deviation may not come and go between statements
                res.violation('play:frequency-reading-not-uniform',
                              '%d statements follow the literal formula and %d the one-semitone-lower reading (%s)' % (
                                  r.readings['lit'], r.readings['dev'], syntax), {'syntax': syntax, 'sound_on': sound_on})
        finally:
            r.close()


def _run_rig(spec, kind, r, ri, res):
    if kind == 'directed':
        if spec['table'] in ('lengths', 'tempos') and r.syntax == 'pcjr' and not r.sound_on:
            return
        rng = random.Random('C42:directed:%s:%d' % (spec['table'], ri))     # rendering only (case, blanks); seed-independent
        first = (ri == 0)
        for tag, voices in directed_cases(spec['table']):
            if tag.startswith('V:') and not r.allow_v:
                continue
            style = {}
            if tag.startswith('style:'):
                _, cs, sp, _ = tag.split(':', 3)
                style = {'case': None if cs == 'mixed' else cs, 'sep': int(sp) / 100.0}
            r.check_valid(voices, rng, 'directed:' + tag, force_var=(tag == 'long-background'), **style)
            res.count('directed_cases')
            if first:
                res.sample({'kind': 'directed', 'table': spec['table'], 'tag': tag, 'tokens': strip(voices[0])})
                first = False
        return
    if kind == 'malformed':
        gw = not r.allow_v
        for bad in malformed_table(gw):
            # alone, at the end of a valid string, in the middle of one
            for pre, post in ((b'', b''), (b'T120L4O3MNMB CD', b''), (b'T120 O2 MB L8 E', b' FG')):
                if post and bad in (b'L', b'T', b'O', b'N'):
                    post = b' >' + post    # a missing number must not be followed by something that reads as one
                r.check_malformed(pre + bad + post, 'directed')
        if ri == 0:
            res.sample({'kind': 'malformed', 'table': [b.decode() for b in malformed_table(True)][:20]})
        return
    if kind == 'random':
        rng = random.Random('%s:C42:%s:%s:%d' % (spec['seed'], kind, spec.get('part', 0), ri))
        for i in range(spec['n'] // len(SYNTAXES)):
            if rng.random() < 0.12:
                # a valid string with one malformed command spliced in
                items = gen_string(rng, r.allow_v, False)
                rnd = Renderer(rng)
                pieces = rnd.render([it for it in items if it[0][0] != 'X' and (it[1] in (None, 'lit'))])
                chunks = [v for k, v in pieces]
                bad = rng.choice(malformed_table(not r.allow_v))
                pos = rng.randint(min(5, len(chunks)), len(chunks))
                tail = chunks[pos:]
                if bad in (b'L', b'T', b'O', b'N'):
                    tail = [b' >'] + tail
                text = b''.join(chunks[:pos]) + b' ' + bad + b''.join(tail)
                if len(text) <= 250:
                    r.check_malformed(text, 'random')
                continue
            nv = 1
            if r.clamp and rng.random() < 0.25:
                nv = rng.choice([2, 3])
            allow_ptr = rng.random() < 0.5
            voices = [gen_string(rng, r.allow_v, allow_ptr and nv == 1, background='B' if nv > 1 else None) for _ in range(nv)]
            if nv > 1:
                # one foreground/background switch for the whole statement: keep the voices in one mode
                voices = [[it for it in v if not (it[0][0] == 'M' and it[0][1] in 'FB')] for v in voices]
                for v in voices:
                    _drop_fb(v)
            r.check_valid(voices, rng, 'random')
            if i < 1:
                res.sample({'kind': 'random', 'syntax': r.syntax, 'tokens': [strip(v) for v in voices]})
        return
    raise ValueError(kind)


def _drop_fb(items):
    """Remove MF/MB switches inside X substrings too (multi-voice statements stay in background mode set earlier)."""
    for it in items:
        if it[0][0] == 'X':
            it[0][1] = [s for s in it[0][1] if not (s[0][0] == 'M' and s[0][1] in 'FB')]
            _drop_fb(it[0][1])
