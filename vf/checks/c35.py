"""
C35 The displayed picture always equals the emulator's screen state.

Monitor: a recording interface (M-VID) is attached through the public Session.attach() BEFORE the first
statement, which also makes the display rebuild, so the signal log starts from a known state. The
reference consumer R-DISP (vf.models.c35_rdisp) applies ONLY the logged signals; after EVERY statement
(including every statement boundary inside compound lines, loops and programs) its pixel canvas is
compared with Session.get_pixels() and its text grid with Session.get_chars(as_type=unicode).
Suspend/resume: Session.suspend -> Session.resume -> attach a fresh recording interface: the redraw
signals alone must rebuild the picture the resumed session reports, which must be the picture
before the suspension.
"""
import hashlib
import logging
import os
import random

from ..models.c35_rdisp import RDisp

logging.disable(logging.WARNING)

META = {
    'property_id': 'C35',
    'technique': 'event-log checker: reference video-signal consumer (R-DISP) vs Session.get_pixels/get_chars after every statement',
    'level': 'exploration',
    'level_text': (
        'Runtime oracle: random histories of PRINT (wrapping, scrolling), CLS 0/1/2, COLOR incl. non-black backgrounds, '
        'LOCATE, VIEW PRINT, SCREEN and page switches, PCOPY, WIDTH, KEY ON/OFF/LIST, INPUT line editing (insert, delete, '
        'line feed, clear line), graphics statements and video-memory POKEs in the text and graphics modes of CGA, EGA, '
        'VGA, MDA, Hercules, Olivetti, PCjr and Tandy, and under the double-byte codepages 932/936/949/950 in the 14/16-pixel '
        'text modes with writes that split and join double-byte characters at every offset; a display fed only the emitted signals is compared pixel by pixel '
        'and cell by cell with what the session reports, after every statement; plus suspend/resume redraw. '
        'Held = no divergence on the observed histories.'),
    'level_note': (
        'Trusted: harness, R-DISP (semantics of interface/video.py + video_sdl2 for pixels, text plugins for the grid). '
        'The cursor, palette and border are overlays outside get_pixels/get_chars: their signals are applied and counted, '
        'not compared (a move_cursor outside the screen is only counted). Characters: the unicode grid the signals carry is '
        'compared with get_chars(as_type=unicode) and, codepage-independently, every cell that get_chars() (bytes) reports as '
        'printable ASCII must show that character. A scroll signal whose first row lies below its last row is applied as the '
        'reference consumers do (nothing moves, the vacated row is blanked) and counted, not refuted. After the first '
        'divergence a history is cut short so that one defect is reported under the mechanism of its first appearance. '
        'Statements that raise BASIC errors stay in the histories (the error message is screen output too).'),
    'rule': ('case = (adapter, history of statements up to the compared boundary); distinct by that; non-trivial = the '
             'statement emitted at least one picture-changing signal (update / clear_rows / scroll / set_mode)'),
    'design_ref': 'DESIGN.md section 4 C35',
    'assumptions': ['video signal semantics as implemented by the reference consumers in pcbasic/interface'],
    'require_counters': {'any': ['sig_update', 'sig_scroll', 'sig_clear_rows', 'sig_set_mode', 'scroll_up_seen',
                                 'scroll_down_seen', 'scroll_nonblack_background', 'compares', 'compares_at_inner_boundaries',
                                 'page_switches_ok', 'graphics_mode_compares', 'text_mode_compares', 'resume_redraws',
                                 'dbcs_histories', 'dbcs_compares_with_fullwidth_cells']},
    'timeout': {'quick': 900, 'thorough': 7200},
}

ADAPTERS = {
    'cga': (dict(video='cga'), [0, 1, 2]),
    'ega': (dict(video='ega'), [0, 1, 2, 7, 8, 9]),
    'vga': (dict(video='vga'), [0, 1, 2, 7, 8, 9]),
    'egamono': (dict(video='ega', monitor='mono'), [0, 10]),
    'mda': (dict(video='mda', monitor='mono'), [0]),
    'hercules': (dict(video='hercules', monitor='mono'), [0, 3]),
    'olivetti': (dict(video='olivetti'), [0, 1, 2, 3]),
    'pcjr': (dict(video='pcjr', syntax='pcjr'), [0, 1, 2, 3, 4, 5, 6]),
    'tandy': (dict(video='tandy', syntax='tandy'), [0, 1, 2, 3, 4, 5, 6]),
}
ADAPTER_WEIGHTS = ['cga', 'cga', 'ega', 'ega', 'ega', 'vga', 'vga', 'egamono', 'mda', 'hercules', 'olivetti', 'pcjr', 'tandy', 'tandy']

# pixel size / attribute count by screen number (documented geometry; only used to generate sensible coordinates)
GEOM = {1: (320, 200, 4), 2: (640, 200, 2), 3: (160, 200, 16), 4: (320, 200, 4), 5: (320, 200, 16), 6: (640, 200, 4),
        7: (320, 200, 16), 8: (640, 200, 16), 9: (640, 350, 16), 10: (640, 350, 4)}
GEOM_ADAPTER = {('hercules', 3): (720, 348, 2), ('olivetti', 3): (640, 400, 2)}

PICTURE_SIGNALS = ('update', 'clear_rows', 'scroll', 'set_mode')


def plan(tier, seed):
    shards = [{'kind': 'directed'}]
    if tier == 'quick':
        for i in range(13):
            shards.append({'kind': 'histories', 'n': 20, 'len': 40, 'part': i})
        for i in range(3):
            shards.append({'kind': 'dbcs', 'n': 14, 'len': 40, 'part': i})
    else:
        for i in range(84):
            shards.append({'kind': 'histories', 'n': 90, 'len': 45, 'part': i})
        for i in range(16):
            shards.append({'kind': 'dbcs', 'n': 70, 'len': 45, 'part': i})
    return shards


class Iface(object):
    """What Session.attach() needs: get_queues() -> (inputs, video, audio)."""

    def __init__(self, harness):
        from pcbasic.compat import queue
        self.inputs = queue.Queue()
        self.video = harness.RecQueue()
        self.audio = harness.RecQueue()

    def get_queues(self):
        return self.inputs, self.video, self.audio


class Monitor(object):
    """One session + its R-DISP."""

    def __init__(self, harness, res, adapter, box, dbcs=None):
        self.h, self.res, self.adapter, self.box = harness, res, adapter, box
        # double-byte codepage: a trail byte may be printable ASCII while its cell shows nothing of its own,
        # so the codepage-independent byte comparison does not apply; the unicode grids are compared
        self.dbcs = dbcs
        self.history = []
        self.digest = b''
        self.nboundary = 0
        self.inner = False
        self.diverged = 0
        self.step_types = set()
        self.step_scrolls = []
        self.last_scroll = None
        self.attach()

    def attach(self):
        self.iface = Iface(self.h)
        self.h.guarded(self.box.s.attach, self.iface)
        self.disp = RDisp()
        self.consume()
        self.res.count('rebuilds')
        self.compare('rebuild')

    def consume(self):
        sigs = self.iface.video.drain()
        res = self.res
        for s in sigs:
            et = s.event_type
            res.count('sig_' + et)
            if et == 'scroll':
                d, a, b, back = s.params
                res.count('scroll_up_seen' if d == -1 else 'scroll_down_seen')
                if back:
                    res.count('scroll_nonblack_background')
                if not (a == 1 and b >= 24):
                    res.count('scroll_inside_window')
                self.last_scroll = s.params
                self.step_scrolls.append(s.params)
            elif et == 'clear_rows' and s.params[0]:
                res.count('clear_nonblack_background')
            self.step_types.add(et)
            self.disp.apply(s)
        return len(sigs)

    def case(self):
        c = {'adapter': self.adapter, 'history': list(self.history)}
        if self.dbcs:
            c['codepage'] = self.dbcs
        return c

    def compare(self, when):
        """-> True if the display equals the reported state."""
        res, disp = self.res, self.disp
        box = self.box
        if self.inner:
            # inner statement boundaries: the same buffer Session.get_pixels() converts, read without the
            # (slow) tuple conversion; every end-of-line comparison goes through the public API
            vp = box.impl.display.vpage.pixels
            w = vp.width
            flat = vp[:, :].to_bytes()
            px = [flat[i:i + w] for i in range(0, len(flat), w)]
        else:
            px = box.s.get_pixels()
        tx = box.s.get_chars(as_type=str)
        tb = box.s.get_chars()
        res.count('compares')
        if self.inner:
            res.count('compares_at_inner_boundaries')
        try:
            text_mode = box.impl.display.mode.is_text_mode
        except Exception:
            text_mode = None
        res.count('text_mode_compares' if text_mode else 'graphics_mode_compares')
        types = self.step_types
        nontrivial = any(t in types for t in PICTURE_SIGNALS)
        res.case((self.adapter, self.digest, when, self.nboundary), nontrivial=nontrivial)
        ok = True
        for a in disp.anomalies:
            res.violation('display:signal:%s' % a, '%s: a consumer cannot apply a signal (%s) after %r' % (
                self.adapter, a, self.history[-1:]), self.case())
            ok = False
        disp.anomalies = []
        if disp.unknown:
            res.count('unknown_signal_types', len(disp.unknown))
            disp.unknown = []
        dom = 'no-signal'
        for t in ('scroll', 'clear_rows', 'update', 'set_mode'):
            if t in types:
                dom = t
                break
        if when == 'rebuild':
            dom = 'rebuild'
        if dom == 'scroll' and disp.notes.get('scroll_with_reversed_rows'):
            dom = 'scroll-with-reversed-rows'
        d = disp.diff_pixels(px)
        if d is not None:
            ok = False
            key = 'display:pixels:after-%s' % dom if dom != 'no-signal' else 'display:pixels:changed-without-signal'
            if self.dbcs:
                key += ':dbcs'
            if d[0] == 'size':
                key = 'display:canvas-size'
                what = 'reported %dx%d, display was told %dx%d' % (d[2], d[1], d[4], d[3])
            else:
                _, y, x, shown, reported = d
                what = 'pixel (%d,%d): display shows attribute %d, session reports %d' % (x, y, shown, reported)
                if dom.startswith('scroll'):
                    # the row a scroll vacated: display painted the background attribute, the session did not
                    for sc in self.step_scrolls[-40:]:
                        direction, a, b, back = sc
                        if shown == back and reported != back and a <= y // disp.fh + 1 <= b:
                            key = 'display:scroll-background-attr'
                            what += ' (scroll %r told the display to paint the vacated row with background %d)' % (sc, back)
                            break
            res.violation(key, '%s, %s mode, after %r [signals this step: %s]: %s' % (
                self.adapter, 'text' if text_mode else 'graphics', self.history[-1:], sorted(types), what), self.case())
        for k, n in disp.notes.items():
            res.count('tolerated_' + k, n)
        disp.notes = {}
        t = disp.diff_text(tx)
        which = 'get_chars(unicode)'
        if t is None and not self.dbcs:
            t = disp.diff_bytes(tb)
            which = 'get_chars(bytes)'
        if t is not None:
            ok = False
            key = 'display:text:after-%s' % dom if dom != 'no-signal' else 'display:text:changed-without-signal'
            if self.dbcs:
                key += ':dbcs'
            if t[0] == 'size':
                key = 'display:text-size'
                what = 'reported %dx%d, display was told %dx%d' % (t[1], t[2], t[3], t[4])
            else:
                what = 'cell row %d col %d: display shows %r, session %s reports %r' % (t[1], t[2], t[3], which, t[4])
            res.violation(key, '%s, %s mode, after %r [signals this step: %s]: %s' % (
                self.adapter, 'text' if text_mode else 'graphics', self.history[-1:], sorted(types), what), self.case())
        self.step_types = set()
        self.step_scrolls = []
        if not ok:
            self.diverged += 1
        return ok

    # -- running ---------------------------------------------------------------------------------------
    def boundary(self, n, queues):
        # a statement boundary inside a compound line / loop / program
        if self.resyncing:
            return
        self.nboundary += 1
        self.consume()
        # compare whenever the picture was told to change since the last comparison
        if any(t in self.step_types for t in PICTURE_SIGNALS):
            self.inner = True
            ok = self.compare('boundary')
            self.inner = False
            if not ok:
                self.resyncing = True

    resyncing = False
    aborted = False

    def ex(self, cmd, keys=None, budget=3000):
        box = self.box
        self.history.append(cmd if keys is None else [cmd, keys])
        self.digest = hashlib.blake2b(self.digest + repr((cmd, keys)).encode(), digest_size=8).digest()
        self.nboundary = 0
        if keys:
            box.keys(keys)
        box.stepper.on_boundary_cb = self.boundary
        try:
            out = box.ex(cmd, budget)
        except self.h.Internal as e:
            self.res.violation(e.key, str(e), self.case())
            out = None
        finally:
            box.stepper.on_boundary_cb = None
        # unread keys must not leak into the next statement
        try:
            while True:
                self.iface.inputs.get(False)
        except Exception:
            pass
        self.consume()
        ok = (not self.resyncing) and self.compare('statement')
        if not ok:
            # divergence reported once, under the mechanism of its first appearance; the rest of this history
            # would only repeat it under other names
            self.aborted = True
        return out

    def resume_check(self):
        """suspend -> resume -> attach: redraw signals alone rebuild the same picture."""
        res, box = self.res, self.box
        px0 = box.s.get_pixels()
        tx0 = box.s.get_chars(as_type=str)
        fn = os.path.join(box.root, 'state.bin')
        try:
            self.h.guarded(box.s.suspend, fn)
            st, s2 = self.h.guarded(self.h.Session.resume, fn)
        except self.h.Internal as e:
            res.violation(e.key, 'suspend/resume: %s' % e, self.case())
            return
        try:
            iface = Iface(self.h)
            self.h.guarded(s2.attach, iface)
            d2 = RDisp()
            d2.apply_all(iface.video.log)
            res.count('resume_redraws')
            res.case((self.adapter, 'resume', self.digest))
            px2 = s2.get_pixels()
            tx2 = s2.get_chars(as_type=str)
            if px2 != px0 or tx2 != tx0:
                res.violation('resume:reported-state-differs', '%s: the resumed session reports a different picture than before suspend' % self.adapter, self.case())
            d = d2.diff_pixels(px2)
            if d is not None:
                res.violation('resume:redraw:pixels', '%s: redraw signals after resume do not rebuild the picture: %r' % (self.adapter, d[:5]), self.case())
            t = d2.diff_text(tx2) or (None if self.dbcs else d2.diff_bytes(s2.get_chars()))
            if t is not None:
                res.violation('resume:redraw:text', '%s: redraw signals after resume do not rebuild the text: %r' % (self.adapter, t), self.case())
            for a in d2.anomalies:
                res.violation('display:signal:%s' % a, '%s: redraw after resume: %s' % (self.adapter, a), self.case())
        except self.h.Internal as e:
            res.violation(e.key, 'attach after resume: %s' % e, self.case())
        finally:
            try:
                s2.close()
            except BaseException:
                pass


# ---------------------------------------------------------------------------------------
# statement generator

PRINTABLE = b' !#$%&\'()*+,-./0123456789:;<=>?@ABCDEFGHIJKLMNOPQRSTUVWXYZ[\\]^_`abcdefghijklmnopqrstuvwxyz{|}~'


def rstr(rng, n):
    return bytes(rng.choice(PRINTABLE) for _ in range(n))


def rstr_dbcs(rng, n):
    """Bytes mixing ASCII with lead/trail-range bytes: valid pairs, broken pairs, lone lead and trail bytes."""
    out = bytearray()
    while len(out) < n:
        k = rng.random()
        if k < 0.35:
            out.append(rng.choice(PRINTABLE))
        elif k < 0.75:
            out.append(rng.randint(0x81, 0xfe))
            out.append(rng.choice([rng.randint(0xa1, 0xfe), rng.randint(0x40, 0x7e), rng.randint(0x80, 0xfe)]))
        else:
            out.append(rng.randint(0x80, 0xff))
    return bytes(b if b != 0x22 else 0x23 for b in out[:n])


class Gen(object):
    dbcs = False

    def dbcs_stmt(self):
        """Writes that split and join double-byte characters."""
        r = self.rng
        k = r.random()
        W = self.width
        if k < 0.35:
            return b'LOCATE %d,%d:PRINT "%s"%s' % (r.randint(1, 24), r.randint(1, W), rstr_dbcs(r, r.choice([r.randint(1, 12), r.randint(10, 90)])),
                                                  r.choice([b'', b';', b';']))
        if k < 0.70:
            # overwrite one or two cells somewhere (often inside an existing run) with a single-byte char / lead / trail byte
            what = r.choice([b'"%s"' % bytes([r.choice(PRINTABLE)]), b'CHR$(%d)' % r.randint(0x81, 0xfe), b'CHR$(%d)' % r.randint(0x40, 0x7e),
                             b'CHR$(%d);CHR$(%d)' % (r.randint(0x81, 0xfe), r.randint(0xa1, 0xfe)), b'" "'])
            return b'LOCATE %d,%d:PRINT %s;' % (r.randint(1, 24), r.randint(1, W), what)
        if k < 0.80:
            return b'PRINT "%s"' % rstr_dbcs(r, r.randint(W - 6, 3 * W))
        if k < 0.88:
            return b'FOR I=1 TO %d:PRINT I;"%s":NEXT' % (r.randint(2, 28), rstr_dbcs(r, r.randint(2, 40)))
        if k < 0.93:
            return b'DEF SEG=&H%s:POKE %d,%d:DEF SEG' % (b'B000' if self.adapter in ('mda', 'hercules', 'egamono') else b'B800',
                                                       2 * r.randint(0, 1999) + r.randint(0, 1), r.choice([r.randint(0x81, 0xfe), r.choice(PRINTABLE), r.randint(0, 127)]))
        return r.choice([b'PCOPY %d,%d' % (r.randint(0, 3), r.randint(0, 3)), b'SCREEN ,,%d,%d' % (r.randint(0, 3), r.randint(0, 3)),
                         b'VIEW PRINT %d TO %d' % (r.randint(1, 10), r.randint(11, 24)), b'VIEW PRINT', b'CLS'])

    def dbcs_input(self):
        r = self.rng
        keys = []
        for _ in range(r.randint(2, 30)):
            k = r.random()
            if k < 0.3:
                keys.append(chr(r.choice(PRINTABLE)))
            elif k < 0.65:
                keys.append(chr(r.randint(0x81, 0xfe)) + chr(r.choice([r.randint(0xa1, 0xfe), r.randint(0x40, 0x7e)])))
            else:
                keys.append(r.choice(['\x08', '\n', '\x1b', '\x05', '\x12', '\x0b', '\x0e', '\x1c', '\x1d', '\x1e', '\x1f', '\x7f']))
        return r.choice([b'10 LINE INPUT A$', b'10 INPUT A$']), ''.join(keys) + '\r'

    def __init__(self, rng, adapter):
        self.rng = rng
        self.adapter = adapter
        self.screens = ADAPTERS[adapter][1]
        self.screen = 0
        self.width = 80
        self.pending = None

    def geom(self):
        return GEOM_ADAPTER.get((self.adapter, self.screen)) or GEOM.get(self.screen) or (640, 200, 16)

    def pt(self, slack=20):
        w, h, _ = self.geom()
        r = self.rng
        return r.randint(-slack, w + slack), r.randint(-slack, h + slack)

    def mode_switch(self):
        r = self.rng
        if r.random() < 0.3:
            w = r.choice([40, 80, 80, 20] if self.adapter in ('pcjr', 'tandy') else [40, 80])
            return b'WIDTH %d' % w, ('width', w)
        s = r.choice(self.screens)
        return b'SCREEN %d' % s, ('screen', s)

    def text_stmt(self):
        r = self.rng
        k = r.random()
        if k < 0.30:
            n = r.choice([r.randint(0, 20), r.randint(20, 100), r.randint(70, 90), r.randint(100, 300)])
            end = r.choice([b'', b'', b';', b','])
            return b'PRINT "%s"%s' % (rstr(r, n), end)
        if k < 0.40:
            return b'PRINT STRING$(%d,%d)%s' % (r.choice([39, 40, 41, 79, 80, 81, 160, r.randint(1, 255)]), r.randint(33, 254), r.choice([b'', b';']))
        if k < 0.50:
            n = r.randint(2, 30)
            return b'FOR I=1 TO %d:PRINT I;"%s":NEXT' % (n, rstr(r, r.randint(0, 90)))
        if k < 0.56:
            return b'PRINT %s' % b';'.join(b'%d' % r.randint(-9999, 99999) for _ in range(r.randint(1, 12)))
        if k < 0.62:
            return b'PRINT CHR$(%d);"%s";CHR$(%d)%s' % (r.choice([7, 9, 10, 11, 12, 13, 28, 29, 30, 31, 8, 0, 255]), rstr(r, r.randint(0, 30)),
                                                     r.choice([9, 10, 11, 12, 13, 28, 29, 30, 31]), r.choice([b'', b';']))
        if k < 0.66:
            return b'PRINT TAB(%d)"%s";SPC(%d)"x"' % (r.randint(1, 90), rstr(r, r.randint(0, 20)), r.randint(0, 90))
        if k < 0.72:
            return r.choice([b'CLS', b'CLS', b'CLS 0', b'CLS 1', b'CLS 2'])
        if k < 0.80:
            if self.screen == 0:
                return b'COLOR %d,%d%s' % (r.randint(0, 31), r.randint(0, 7), r.choice([b'', b'', b',%d' % r.randint(0, 15)]))
            if self.screen in (1,):
                return b'COLOR %d,%d' % (r.randint(0, 15), r.randint(0, 3))
            return b'COLOR %d,%d' % (r.randint(0, 15), r.randint(0, 15))
        if k < 0.88:
            return b'LOCATE %d,%d%s' % (r.choice([r.randint(1, 24), r.randint(1, 25), 24, 25, 1]), r.choice([r.randint(1, self.width), self.width, 1]),
                                       r.choice([b'', b'', b',1', b',0']))
        if k < 0.92:
            if r.random() < 0.3:
                return b'VIEW PRINT'
            a = r.randint(1, 24)
            return b'VIEW PRINT %d TO %d' % (a, r.randint(a, 24 if r.random() < 0.9 else 25))
        if k < 0.95:
            return r.choice([b'KEY ON', b'KEY OFF', b'KEY ON', b'KEY LIST', b'KEY 1,"%s"' % rstr(r, 5)])
        if k < 0.97:
            return b'PCOPY %d,%d' % (r.randint(0, 3), r.randint(0, 3))
        return b'SCREEN ,,%d,%d' % (r.randint(0, 3), r.randint(0, 3))

    def input_stmt(self):
        r = self.rng
        keys = []
        for _ in range(r.randint(1, 25)):
            k = r.random()
            if k < 0.6:
                keys.append(chr(r.choice(PRINTABLE)))
            else:
                keys.append(r.choice(['\x08', '\t', '\n', '\x1b', '\x05', '\x12', '\x0b', '\x0e', '\x1c', '\x1d', '\x1e', '\x1f',
                                      '\x06', '\x02', '\x7f', '\x0c']))
        if r.random() < 0.3:
            keys.insert(r.randrange(len(keys) + 1), ''.join(chr(r.choice(PRINTABLE)) for _ in range(r.randint(60, 170))))
        return r.choice([b'10 INPUT A$', b'10 LINE INPUT A$', b'10 INPUT "prompt";A$']), ''.join(keys) + '\r'

    def gfx_stmt(self):
        r = self.rng
        w, h, na = self.geom()
        k = r.random()
        c = r.randint(0, na - 1)
        if k < 0.15:
            return b'PSET(%d,%d),%d' % (self.pt() + (c,))
        if k < 0.35:
            return b'LINE(%d,%d)-(%d,%d),%d%s' % (self.pt() + self.pt() + (c, r.choice([b'', b',B', b',BF', b',,&H%X' % r.randint(0, 0x7fff)])))
        if k < 0.47:
            x, y = self.pt(0)
            return b'CIRCLE(%d,%d),%d,%d' % (x, y, r.randint(1, h // 2), c)
        if k < 0.55:
            x, y = self.pt(0)
            return b'PAINT(%d,%d),%d,%d' % (x, y, c, r.randint(0, na - 1))
        if k < 0.63:
            return b'DRAW "C%d BM%d,%d %s"' % (c, r.randint(0, w - 1), r.randint(0, h - 1),
                                              b' '.join(b'%s%d' % (r.choice([b'U', b'D', b'L', b'R', b'E', b'F', b'G', b'H']), r.randint(1, 60)) for _ in range(r.randint(1, 8))))
        if k < 0.72:
            x0, y0 = r.randint(0, w - 20), r.randint(0, h - 20)
            x1, y1 = r.randint(x0 + 1, min(w - 1, x0 + 60)), r.randint(y0 + 1, min(h - 1, y0 + 30))
            return b'DIM G%%(2000):GET(%d,%d)-(%d,%d),G%%:PUT(%d,%d),G%%,%s:ERASE G%%' % (
                x0, y0, x1, y1, r.randint(0, w - 1), r.randint(0, h - 1), r.choice([b'PSET', b'XOR', b'OR', b'AND', b'PRESET']))
        if k < 0.80:
            x0, y0 = r.randint(0, w - 2), r.randint(0, h - 2)
            return b'VIEW %s(%d,%d)-(%d,%d),%d,%d' % (r.choice([b'', b'SCREEN ']), x0, y0, r.randint(x0 + 1, w - 1), r.randint(y0 + 1, h - 1), c, r.randint(0, na - 1))
        if k < 0.84:
            return r.choice([b'VIEW', b'WINDOW', b'WINDOW (-10,-10)-(10,10)', b'WINDOW SCREEN (0,0)-(100,100)'])
        if k < 0.90:
            return b'PALETTE %d,%d' % (r.randint(0, na - 1), r.randint(0, 15))
        seg = b'&HA000' if self.screen >= 7 else b'&HB800'
        return b'DEF SEG=%s:POKE %d,%d:DEF SEG' % (seg, r.randint(0, 16383), r.randint(0, 255))

    def next(self):
        """-> (statement bytes, keys or None, tag)"""
        r = self.rng
        if self.pending:
            p, self.pending = self.pending, None
            return p
        if self.dbcs and self.screen == 0 and r.random() < 0.7:
            if r.random() < 0.12:
                cmd, keys = self.dbcs_input()
                self.pending = (b'RUN', keys, None)
                return cmd, None, None
            return self.dbcs_stmt(), None, None
        k = r.random()
        if k < 0.06:
            cmd, tag = self.mode_switch()
            return cmd, None, tag
        if k < 0.12:
            # INPUT is illegal in direct mode: store a one-line program, then RUN it with keys typed ahead
            cmd, keys = self.input_stmt()
            self.pending = (b'RUN', keys, None)
            return cmd, None, None
        if self.screen != 0 and k < 0.45:
            return self.gfx_stmt(), None, None
        if self.screen == 0 and k < 0.15:
            return b'DEF SEG=&H%s:POKE %d,%d:DEF SEG' % (b'B000' if self.adapter in ('mda', 'hercules', 'egamono') else b'B800',
                                                       r.randint(0, 4200), r.randint(0, 255)), None, None
        return self.text_stmt(), None, None

    def applied(self, tag, ok):
        if tag and ok:
            if tag[0] == 'screen':
                self.screen = tag[1]
                if self.screen:
                    self.width = {1: 40, 2: 80, 3: 20 if self.adapter in ('pcjr', 'tandy') else 80, 4: 40, 5: 40, 7: 40}.get(self.screen, 80)
            elif tag[0] == 'width':
                self.width = tag[1]
                # WIDTH may change the graphics mode; the generator then merely guesses coordinates
                if self.screen:
                    self.screen = {(1, 80): 2, (2, 40): 1, (7, 80): 8, (8, 40): 7, (9, 40): 1}.get((self.screen, tag[1]), self.screen)


DBCS_CODEPAGES = ['932', '936', '949', '950']
DBCS_ADAPTERS = ['ega', 'vga', 'vga', 'egamono', 'mda', 'hercules', 'olivetti']     # 14- and 16-pixel text modes


def run_history(harness, res, rng, n_stmts, adapter=None, first=None, do_resume=None, dbcs=None):
    adapter = adapter or rng.choice(DBCS_ADAPTERS if dbcs else ADAPTER_WEIGHTS)
    kw = dict(ADAPTERS[adapter][0])
    if dbcs:
        from pcbasic.basic import codepage
        kw['codepage'] = codepage(dbcs)
        res.count('dbcs_histories')
    with harness.Box(budget=3000, **kw) as box:
        mon = Monitor(harness, res, adapter, box, dbcs)
        gen = Gen(rng, adapter)
        gen.dbcs = bool(dbcs)
        res.count('histories')
        res.count('adapter_' + adapter)
        stmts = list(first or [])
        # most histories start by choosing a mode, half of them a graphics mode where there is one
        if not stmts and dbcs:
            stmts.append((b'SCREEN 0', None, ('screen', 0)))
            if rng.random() < 0.3:
                stmts.append((b'WIDTH 40', None, ('width', 40)))
        elif not stmts and rng.random() < 0.8:
            s = rng.choice(gen.screens)
            stmts.append((b'SCREEN %d' % s, None, ('screen', s)))
            if s == 0 and rng.random() < 0.4:
                stmts.append((b'WIDTH 40', None, ('width', 40)))
        for i in range(n_stmts):
            if stmts:
                cmd, keys, tag = stmts.pop(0)
            else:
                cmd, keys, tag = gen.next()
            out = mon.ex(cmd, keys)
            code = harness.err_of(out)[0] if out is not None else -1
            if code:
                res.count('statements_with_basic_error')
            else:
                if tag and tag[0] == 'screen' and b',,' not in cmd:
                    res.count('mode_switches_ok')
                if cmd.startswith(b'SCREEN ,,'):
                    res.count('page_switches_ok')
            gen.applied(tag, code == 0)
            if i < 3 and res.evaluations < 400:
                res.sample({'adapter': adapter, 'stmt': cmd, 'keys': keys})
            if dbcs:
                tx = box.s.get_chars(as_type=str)
                if any(c == u'' for row in tx for c in row):
                    res.count('dbcs_compares_with_fullwidth_cells')
            if mon.aborted:
                res.count('histories_cut_short_by_violation')
                break
        if not mon.aborted and (do_resume if do_resume is not None else rng.random() < 0.5):
            mon.resume_check()
        return mon


def directed(harness, res):
    rng = random.Random('C35:directed')
    # D11: non-black background + scrolling, text and graphics
    for adapter, first in (
            ('cga', [b'COLOR 7,1', b'CLS'] + [b'PRINT "line %d"' % i for i in range(30)]),
            ('ega', [b'SCREEN 9', b'COLOR 14,2', b'CLS'] + [b'PRINT "line %d"' % i for i in range(30)]),
            ('vga', [b'COLOR 7,4', b'CLS', b'VIEW PRINT 5 TO 10', b'FOR I=1 TO 20:PRINT I:NEXT']),
            ('tandy', [b'SCREEN 5', b'COLOR 3,5', b'CLS', b'FOR I=1 TO 30:PRINT I:NEXT']),
            # scroll down: line editing that inserts a row (INPUT with a long insertion in the middle of the screen)
            ('cga', [b'COLOR 15,2', b'CLS', b'LOCATE 5,1', b'PRINT STRING$(79,65)', b'LOCATE 5,1']),
            ('hercules', [b'SCREEN 3', b'FOR I=1 TO 30:PRINT I;"hercules":NEXT', b'LINE(0,0)-(719,347),1', b'PRINT STRING$(200,66)']),
            ('cga', [b'KEY ON', b'FOR I=1 TO 30:PRINT I:NEXT', b'KEY OFF', b'CLS', b'WIDTH 40', b'KEY ON', b'FOR I=1 TO 30:PRINT I:NEXT']),
            # a row inserted by line editing (Ctrl+J in INPUT) pushes the rows below down inside the window
            ('cga', [b'CLS'] + [b'LOCATE %d,1:PRINT "row%02d";' % (r, r) for r in range(1, 25)] + [b'10 LOCATE 5,7:INPUT A$', (b'RUN', 'ab\n\r')]),
            ('ega', [b'SCREEN 9', b'CLS'] + [b'LOCATE %d,1:PRINT "row%02d";' % (r, r) for r in range(1, 25)] + [
                b'VIEW PRINT 3 TO 12', b'10 LOCATE 5,7:INPUT A$', (b'RUN', 'ab\ncd' + 'x' * 90 + '\r')]),
            # line feed typed on row 25 (outside the scroll area)
            ('cga', [b'CLS', b'LOCATE 25,1', b'10 INPUT A$', (b'RUN', 'F\n\x0b\r')]),
            ('ega', [b'CLS', b'VIEW PRINT 9 TO 11', b'LOCATE 11,1', b'10 INPUT A$', (b'RUN', 'abc\n\x1b\r'), (b'RUN', 'abc\ndef\n\x1e\x1b\r')]),
            # PCOPY onto the visible page, then change the (hidden) source page: the visible page must not change
            ('cga', [b'SCREEN 0,,1,0', b'PRINT "ABC"', b'PCOPY 1,0', b'CLS', b'PRINT "DEF"']),
            ('ega', [b'SCREEN 7,,1,0', b'PRINT "ABC"', b'PCOPY 1,0', b'LINE(0,0)-(30,7),1,BF']),
            # PCOPY onto the visible page; page switches
            ('ega', [b'SCREEN 0,,1,0', b'PRINT "hidden"', b'PCOPY 1,0', b'SCREEN ,,0,0', b'PRINT "shown"', b'PCOPY 0,2', b'PCOPY 1,0']),
            ('pcjr', [b'SCREEN 5,,1,0', b'LINE(0,0)-(50,50),5,BF', b'PCOPY 1,0', b'PCOPY 2,0', b'SCREEN ,,0,0']),
            ('ega', [b'SCREEN 0,,1,0', b'PRINT "hidden"', b'SCREEN ,,1,1', b'PCOPY 1,0', b'SCREEN ,,0,0', b'SCREEN 7,,2,0', b'LINE(0,0)-(100,100),3,BF',
                     b'SCREEN ,,2,2', b'PCOPY 2,1', b'SCREEN ,,1,1']),
    ):
        stm = [(c, None, None) if isinstance(c, bytes) else (c[0], c[1], None) for c in first]
        run_history(harness, res, rng, len(stm), adapter=adapter, first=stm, do_resume=True)
    # INPUT editing with a row insertion (scroll down) on a coloured background
    stm = [(b'COLOR 7,3', None, None), (b'CLS', None, None), (b'LOCATE 3,1', None, None),
           (b'10 INPUT A$', None, None),
           (b'RUN', 'x' * 70 + '\x0b' + '\x1f\x1f' + '\x12' + 'y' * 30 + '\r', None),
           (b'10 LINE INPUT A$', None, None),
           (b'RUN', 'abc\ndef\n' + 'z' * 100 + '\x1d' * 30 + '\x7f\x7f\x05' + '\r', None)]
    run_history(harness, res, rng, len(stm), adapter='ega', first=stm, do_resume=True)


def replay(data, res):
    """Re-run the concrete histories of a witness file."""
    from .. import harness
    rng = random.Random('C35:replay')
    for w in data.get('witnesses', []):
        case = w.get('case') or {}
        if 'history' not in case:
            continue
        stm = []
        for st in case['history']:
            if isinstance(st, (list, tuple)):
                stm.append((st[0], st[1], None))
            else:
                stm.append((st, None, None))
        run_history(harness, res, rng, len(stm), adapter=case['adapter'], first=stm, do_resume=True, dbcs=case.get('codepage'))


def directed_dbcs(harness, res):
    """
    Seed-independent: a row of single-byte and double-byte characters, then every cell of the run overwritten
    in turn with a single-byte character, a lead byte and a trail byte (splitting and joining pairs), on a
    blank row, next to the right margin, after scrolling and on a PCOPY'd page; compared after every statement.
    """
    rng = random.Random('C35:directed:dbcs')
    pair = {'932': (0x88, 0x9f), '936': (0xb0, 0xa1), '949': (0xb0, 0xa1), '950': (0xa4, 0x40)}
    for cp, adapter in (('932', 'vga'), ('936', 'ega'), ('949', 'olivetti'), ('950', 'mda')):
        lead, trail = pair[cp]
        run_ = b'a' + bytes([lead, trail]) * 2 + b'b' + bytes([lead, trail]) + b'cd'
        for over in (b'"Z"', b'CHR$(%d)' % lead, b'CHR$(%d)' % trail, b'" "'):
            stm = [b'SCREEN 0', b'CLS']
            for col0 in (1, 70):
                stm.append(b'LOCATE 5,%d:PRINT "%s";' % (col0, run_))
                for off in range(len(run_) + 1):
                    stm.append(b'LOCATE 5,%d:PRINT %s;' % (col0 + off, over))
                    if off % 3 == 2:
                        stm.append(b'LOCATE 5,%d:PRINT "%s";' % (col0, run_))
            # attribute-only changes of one half of a double-byte character (text-memory POKE, re-PRINT in another colour)
            stm += [b'LOCATE 7,1:PRINT "%s";' % run_]
            for off in range(len(run_)):
                stm.append(b'DEF SEG=&H%s:POKE %d,&H70:DEF SEG' % (b'B000' if adapter in ('mda', 'hercules', 'egamono') else b'B800', 6 * 160 + 2 * off + 1))
            stm += [b'LOCATE 9,1:PRINT "%s";' % run_]
            for off in range(len(run_)):
                stm.append(b'LOCATE 9,%d:COLOR 0,7:PRINT CHR$(%d);:COLOR 7,0' % (off + 1, run_[off]))
            stm += [b'LOCATE 24,1:PRINT "%s"' % run_, b'PRINT "%s"' % (run_ * 9), b'LOCATE 22,3:PRINT %s;' % over,
                    b'SCREEN ,,1,0', b'PRINT "%s"' % run_, b'PCOPY 1,0', b'SCREEN ,,0,0', b'LOCATE 1,2:PRINT %s;' % over]
            stm = [(c, None, None) for c in stm]
            run_history(harness, res, rng, len(stm), adapter=adapter, first=stm, do_resume=True, dbcs=cp)


def run_shard(spec, res):
    from .. import harness
    kind = spec['kind']
    rng = random.Random('%s:C35:%s:%s' % (spec['seed'], kind, spec.get('part', 0)))
    if kind == 'directed':
        directed(harness, res)
        return directed_dbcs(harness, res)
    if kind == 'dbcs':
        for i in range(spec['n']):
            hrng = random.Random(rng.getrandbits(64))
            run_history(harness, res, hrng, spec['len'], dbcs=hrng.choice(DBCS_CODEPAGES))
        return
    if kind == 'histories':
        for i in range(spec['n']):
            # one generator per history, drawn unconditionally: later histories do not depend on earlier verdicts
            run_history(harness, res, random.Random(rng.getrandbits(64)), spec['len'])
        return
    raise ValueError(kind)
