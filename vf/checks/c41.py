"""
C41 Codepage conversion round-trips.

Differential / self-consistency monitor on the real Codepage and Converter objects, for every
.ucp file shipped in pcbasic/data/codepages (listed from the directory at run time; the files are
parsed here by an independent ten-line parser to obtain the repertoire, and loaded by the
implementation's own read_codepage() to build the objects under observation).

  chars   u in repertoire:      bytes_to_unicode(unicode_to_bytes(u)) == u
  bytes   b unique mapping:     unicode_to_bytes(bytes_to_unicode(b)) == b     (single bytes, lead/trail pairs)
  split   any byte string s:    b''.join(Converter._mark(s, flush=True)) == s
  pieces  any chunking of s:    the sequences (and the unicode list) from feeding the chunks, flush at the
                                end, are the same list as from feeding s whole
each with box-drawing protection on and off (Codepage(table, box_protect=...), the way a Session
builds it).  No reference model of the tables: a permutation of table entries that stays
self-consistent is invisible to these round trips (and does not contradict the statement).
"""
import os
import random
import unicodedata

META = {
    'property_id': 'C41',
    'technique': 'round-trip / whole-versus-chunked differential monitor on the real Codepage and Converter, tables enumerated exhaustively',
    'level': 'exploration',
    'level_text': (
        'Runtime oracle, no model. Exhaustive in both tiers over all shipped codepages: every single byte, every table '
        'entry (character round trip), every table pair and every one of the 65536 two-byte strings of each double-byte '
        'codepage (split + 1/1 chunking), all strings of length <= 4 over byte-class representatives with all chunkings; '
        'box protection on and off. Random byte strings (length <= 64, biased to lead / trail / box-drawing / preserved '
        'bytes) x random chunkings: 80 000 (quick) / 1 000 000 (thorough), each run with protection on and off.'),
    'level_note': (
        'Trusted: unicodedata.normalize, the .ucp parser in this file (hex:hex[,hex..] lines, last definition of a byte '
        'sequence wins as in a dict). Accepted sets where the statement does not pin an edge: a repertoire character that is '
        'not in NFC (CJK compatibility ideographs) may come back as its canonical equivalent; a glyph substituted for a '
        'printable-ASCII byte and mapped from no other byte sequence (e.g. YEN SIGN at 5C in 932) may come back either as itself '
        'through use_substitutes=True or as the ASCII character. Not tested: characters outside the repertoire, byte sequences whose character is also '
        'mapped from another sequence (counted as skipped), lead-trail pairs not defined in the table (only the split is '
        'checked for them), what a lone lead byte converts to (only that it is emitted and the input is reproduced), '
        'the preserve/box_protect arguments of Codepage.bytes_to_unicode. A converter is flushed only at the end of a string.'),
    'rule': ('case = (codepage, box-protect, table entry | byte | pair) for the tables - enumerated duplicate-free and counted '
             'in bulk; (codepage, preserve set, byte string, chunking) for converter strings - distinct by that tuple; a '
             'string is non-trivial if its codepage is double-byte (single-byte converters are stateless), trivial otherwise'),
    'design_ref': 'DESIGN.md section 4 C41',
    'assumptions': [
        'the repertoire of a codepage is the set of characters in its .ucp file (last definition of a byte sequence wins)',
        'a mapping is unique when no other byte sequence of the table maps to a canonically equivalent character, '
        'counting both the listed character and the ASCII character for printable-ASCII bytes',
    ],
    'exhaustive': {
        'quick': ('all shipped codepages x box-protect on/off: all 256 single bytes, all table entries, all table pairs, all 65536 '
                  'two-byte strings of every double-byte codepage, all class-representative strings of length <= 4 with all chunkings'),
        'thorough': ('all shipped codepages x box-protect on/off: all 256 single bytes, all table entries, all table pairs, all 65536 '
                     'two-byte strings of every double-byte codepage, all class-representative strings of length <= 5 with all chunkings'),
    },
    'require_counters': {'any': ['codepages_checked', 'dbcs_codepages_checked', 'table_chars_roundtripped', 'single_bytes_roundtripped',
                                 'dbcs_pairs_roundtripped', 'nonunique_mappings_skipped', 'two_byte_strings_split',
                                 'strings_converted', 'chunkings_compared', 'dbcs_sequences_emitted',
                                 'box_protection_changed_the_split', 'lone_lead_byte_flushed']},
    'timeout': {'quick': 900, 'thorough': 10800},
}

# bytes a session preserves on text output (control characters with an effect), see GW-BASIC screen control codes
PRESERVE_CONTROL = tuple(bytes([c]) for c in (7, 9, 10, 11, 12, 13, 28, 29, 30, 31))
BOX_CHARS = (u'─', u'═')


def _repo():
    from .. import harness
    return harness.REPO


def list_codepages():
    d = os.path.join(_repo(), 'pcbasic', 'data', 'codepages')
    return sorted(f[:-4] for f in os.listdir(d) if f.lower().endswith('.ucp'))


def parse_ucp(name):
    """Independent parser: {byte sequence: character string} (last wins), number of redefinitions, unparsable lines."""
    path = os.path.join(_repo(), 'pcbasic', 'data', 'codepages', name + '.ucp')
    table, redefined, bad = {}, 0, 0
    with open(path, 'rb') as f:
        for raw in f.read().splitlines():
            line = raw.split(b'#', 1)[0].strip()
            if not line:
                continue
            parts = line.split(b':')
            if len(parts) < 2:
                bad += 1
                continue
            try:
                key = bytes.fromhex(parts[0].strip().decode('ascii'))
                val = u''.join(chr(int(x.strip(), 16)) for x in parts[1].split(b','))
            except (ValueError, UnicodeDecodeError):
                bad += 1
                continue
            if key in table:
                redefined += 1
            table[key] = val
    return table, redefined, bad


def _nfc(u):
    return unicodedata.normalize('NFC', u)


def plan(tier, seed):
    names = list_codepages()
    shards = []
    # table shards: double-byte codepages one per shard (they carry the 65536 two-byte strings), the rest in groups
    dbcs, sbcs = [], []
    for n in names:
        table, _, _ = parse_ucp(n)
        (dbcs if any(len(k) > 1 for k in table) else sbcs).append(n)
    # directed core (seed-independent): bounded-exhaustive converter strings per double-byte codepage
    if tier == 'quick':
        for i in range(2):
            shards.append({'kind': 'directed', 'maxlen': 4, 'names': dbcs[i::2], 'part': i})
    else:
        for i, n in enumerate(dbcs):
            shards.append({'kind': 'directed', 'maxlen': 5, 'names': [n], 'part': i})
    for n in dbcs:
        shards.append({'kind': 'tables', 'names': [n], 'part': n})
    for i in range(2):
        shards.append({'kind': 'tables', 'names': sbcs[i::2], 'part': 'sbcs%d' % i})
    if tier == 'quick':
        for i in range(8):
            shards.append({'kind': 'random', 'part': i, 'n': 10000})
    else:
        for i in range(40):
            shards.append({'kind': 'random', 'part': i, 'n': 25000})
    return shards


# ---------------------------------------------------------------------------------------------

_MOD = {}


def _cpmod():
    """The implementation's codepage module and table loader (imported once the repo is on sys.path)."""
    if not _MOD:
        import importlib
        from .. import harness  # noqa: F401
        _MOD['cp'] = importlib.import_module('pcbasic.basic.codepage')
        _MOD['read'] = importlib.import_module('pcbasic.data.codepages').read_codepage
        _MOD['Converter'] = _MOD['cp'].Converter
    return _MOD


def _load(name, box_protect):
    m = _cpmod()
    return m['cp'].Codepage(m['read'](name), box_protect)


def _converter(cp, preserve, box_protect):
    return _MOD['Converter'](cp, preserve, box_protect)


def _bp(box):
    return 'box-protect-on' if box else 'box-protect-off'


class Classes(object):
    """Byte classes of a table, derived from the .ucp content alone."""

    def __init__(self, table):
        self.lead = sorted(set(k[:1] for k in table if len(k) == 2))
        self.trail = sorted(set(k[1:2] for k in table if len(k) == 2))
        self.box = sorted(k for k, v in table.items() if len(k) == 1 and _nfc(v) in BOX_CHARS)
        self.dbcs = bool(self.lead)
        ls, ts = set(self.lead), set(self.trail)
        self.boxlt = [b for b in self.box if b in ls and b in ts]
        self.lead_only = [b for b in self.lead if b not in ts]
        self.trail_only = [b for b in self.trail if b not in ls]
        self.both = [b for b in self.lead if b in ts]
        self.neither = [bytes([c]) for c in range(256) if bytes([c]) not in ls and bytes([c]) not in ts]


def _unique_keys(table):
    """Keys whose character (listed form and, for printable ASCII bytes, the ASCII form) no other key maps to."""
    forms = {}
    count = {}
    for k, v in table.items():
        f = {_nfc(v)}
        if len(k) == 1 and 0x20 <= k[0] <= 0x7e:
            f.add(chr(k[0]))
        forms[k] = f
        for x in f:
            count[x] = count.get(x, 0) + 1
    # single bytes without a definition all read as NUL
    undefined = [bytes([c]) for c in range(256) if bytes([c]) not in table]
    if undefined:
        count[u'\0'] = count.get(u'\0', 0) + len(undefined)
    return set(k for k, f in forms.items() if all(count[x] == 1 for x in f))


def _guard(res, key, fn, *args, **kwargs):
    """Call into the implementation; a host exception is reported (internal:<Exc>@...) and returns the marker _guard."""
    from .. import harness
    try:
        return fn(*args, **kwargs)
    except Exception as e:   # noqa
        res.violation(harness.internal_key(e), '%s: %r escaped for %s' % (type(e).__name__, e, key), key)
        return _guard


def _check_tables(res, name):
    table, redefined, bad = parse_ucp(name)
    cls = Classes(table)
    unique = _unique_keys(table)
    subst = {}
    for k, v in table.items():
        if len(k) == 1 and 0x20 <= k[0] <= 0x7e and _nfc(v) != chr(k[0]):
            subst[_nfc(v)] = k
    # what each byte sequence reads as with default arguments: printable ASCII bytes cannot be redefined
    effective = set(chr(k[0]) if (len(k) == 1 and 0x20 <= k[0] <= 0x7e) else _nfc(v) for k, v in table.items())
    res.count('codepages_checked')
    if cls.dbcs:
        res.count('dbcs_codepages_checked')
    res.count('ucp_redefined_byte_sequences', redefined)
    res.count('ucp_unparsable_lines', bad)
    res.count('substitute_glyph_entries', len(subst))
    chars = set()
    for v in table.values():
        chars.add(v)
        chars.add(_nfc(v))
    res.count('non_nfc_table_characters', sum(1 for v in table.values() if _nfc(v) != v))
    res.count('multi_codepoint_clusters', sum(1 for v in set(table.values()) if len(v) > 1))
    for box in (True, False):
        cp = _guard(res, [name, box], _load, name, box)
        if cp is _guard:
            continue
        tag = _bp(box)
        # A. characters
        n = 0
        for u in sorted(chars):
            if u == u'':
                continue
            n += 1
            b = _guard(res, [name, tag, 'char', u], cp.unicode_to_bytes, u)
            if b is _guard:
                continue
            r = _guard(res, [name, tag, 'char', u], cp.bytes_to_unicode, b)
            if r is _guard:
                continue
            if r == u or r == _nfc(u):
                if r != u:
                    res.count('chars_returned_as_canonical_equivalent')
                continue
            if _nfc(u) in subst and _nfc(u) not in effective:
                # purely a glyph substitute: no byte sequence reads as this character with default arguments
                r2 = _guard(res, [name, tag, 'char', u], cp.bytes_to_unicode, b, use_substitutes=True)
                if r2 == _nfc(u):
                    res.count('substitute_glyphs_roundtripped_through_use_substitutes')
                    continue
            res.violation('cp:%s:char-roundtrip' % name,
                          'codepage %s (%s): U+%s -> bytes %s -> %r' % (name, tag, '+'.join('%04X' % ord(c) for c in u), b.hex(), r),
                          [name, tag, 'char', u])
        res.bulk(n, n)
        res.count('table_chars_roundtripped', n)
        # B. single bytes
        for c in range(256):
            b = bytes([c])
            conv = _converter(cp, (), box)
            seqs = _guard(res, [name, tag, 'byte', c], conv._mark, b, True)
            if seqs is not _guard and b''.join(seqs) != b:
                res.violation('conv:split-does-not-concatenate-to-input:%s' % tag,
                              'codepage %s: %r split into %r' % (name, b, seqs), [name, tag, 'byte', c])
            if b not in table:
                res.count('undefined_single_bytes_skipped')
                continue
            if b not in unique:
                res.count('nonunique_mappings_skipped')
                continue
            u = _guard(res, [name, tag, 'byte', c], cp.bytes_to_unicode, b)
            if u is _guard:
                continue
            b2 = _guard(res, [name, tag, 'byte', c], cp.unicode_to_bytes, u)
            if b2 is _guard:
                continue
            res.count('single_bytes_roundtripped')
            if b2 != b:
                res.violation('cp:%s:byte-roundtrip' % name, 'codepage %s (%s): byte %02X -> %r -> bytes %s'
                              % (name, tag, c, u, b2.hex()), [name, tag, 'byte', c])
        res.bulk(256, 256)
        # C. pairs of the table
        npairs = 0
        for k in sorted(table):
            if len(k) == 1:
                continue
            if len(k) != 2:
                res.count('longer_byte_sequences_skipped')
                continue
            npairs += 1
            if k not in unique:
                res.count('nonunique_mappings_skipped')
                continue
            u = _guard(res, [name, tag, 'pair', k.hex()], cp.bytes_to_unicode, k)
            if u is _guard:
                continue
            b2 = _guard(res, [name, tag, 'pair', k.hex()], cp.unicode_to_bytes, u)
            if b2 is _guard:
                continue
            res.count('dbcs_pairs_roundtripped')
            if b2 != k:
                res.violation('cp:%s:pair-roundtrip' % name, 'codepage %s (%s): bytes %s -> %r -> bytes %s'
                              % (name, tag, k.hex(), u, b2.hex()), [name, tag, 'pair', k.hex()])
        res.bulk(npairs, npairs)
        # D. all two-byte strings: split, and fed one byte at a time
        if cls.dbcs:
            nviol = 0
            for hi in range(256):
                for lo in range(256):
                    s = bytes((hi, lo))
                    whole = _converter(cp, (), box)._mark(s, True)
                    c2 = _converter(cp, (), box)
                    parts = c2._mark(s[:1], False) + c2._mark(s[1:], False) + c2._mark(b'', True)
                    if b''.join(whole) != s:
                        nviol += 1
                        res.violation('conv:split-does-not-concatenate-to-input:%s' % tag,
                                      'codepage %s: %s split into %r' % (name, s.hex(), whole), [name, tag, 'string', s.hex()])
                    if parts != whole:
                        nviol += 1
                        res.violation('conv:chunked-split-differs-from-whole:%s' % tag,
                                      'codepage %s: %s whole %r, byte by byte %r' % (name, s.hex(), whole, parts), [name, tag, 'string', s.hex()])
                    if len(whole) == 1:
                        res.count('dbcs_sequences_emitted')
                if nviol > 50:
                    break
            res.bulk(65536, 65536)
            res.count('two_byte_strings_split', 65536)
    res.sample({'kind': 'tables', 'codepage': name, 'entries': len(table), 'lead_bytes': len(cls.lead), 'trail_bytes': len(cls.trail),
                'box_bytes': [b.hex() for b in cls.box], 'unique_entries': len(unique)})


# ---------------------------------------------------------------------------------------------
# converter strings

def _chunks(s, cuts):
    out, prev = [], 0
    for c in cuts:
        out.append(s[prev:c])
        prev = c
    out.append(s[prev:])
    return out


def _check_string(res, name, cps, preserve, s, cuts, flush_with_last, stats, leadset=frozenset()):
    """
    cps = {True: codepage with protection, False: without}. Whole vs chunked for both; returns nothing.
    stats: dict of local counters (flushed into res by the caller).
    """
    chunks = _chunks(s, cuts)
    splits = {}
    for box in (True, False):
        cp = cps[box]
        tag = _bp(box)
        case = [name, tag, [p.hex() for p in preserve], s.hex(), list(cuts), flush_with_last]
        try:
            whole = _converter(cp, preserve, box)._mark(s, True)
            c2 = _converter(cp, preserve, box)
            parts = []
            for i, ch in enumerate(chunks):
                last = i == len(chunks) - 1
                parts += c2._mark(ch, last and flush_with_last)
            if not flush_with_last:
                parts += c2._mark(b'', True)
            uw = _converter(cp, preserve, box).to_unicode_list(s, True)
            c3 = _converter(cp, preserve, box)
            up = []
            for i, ch in enumerate(chunks):
                up += c3.to_unicode_list(ch, i == len(chunks) - 1)
        except Exception as e:   # noqa
            from .. import harness
            res.violation(harness.internal_key(e), '%s: %r escaped' % (type(e).__name__, e), case)
            continue
        splits[box] = whole
        if b''.join(whole) != s:
            res.violation('conv:split-does-not-concatenate-to-input:%s' % tag,
                          'codepage %s preserve %d bytes: %s split into %r' % (name, len(preserve), s.hex(), [x.hex() for x in whole]), case)
        if b''.join(parts) != s:
            res.violation('conv:chunked-split-does-not-concatenate-to-input:%s' % tag,
                          'codepage %s: %s in chunks %r split into %r' % (name, s.hex(), [c.hex() for c in chunks], [x.hex() for x in parts]), case)
        if parts != whole:
            res.violation('conv:chunked-split-differs-from-whole:%s' % tag,
                          'codepage %s: %s whole -> %r, chunks %r -> %r' % (name, s.hex(), [x.hex() for x in whole],
                                                                            [c.hex() for c in chunks], [x.hex() for x in parts]), case)
        if up != uw:
            res.violation('conv:chunked-unicode-differs-from-whole:%s' % tag,
                          'codepage %s: %s whole -> %r, chunks %r -> %r' % (name, s.hex(), uw, [c.hex() for c in chunks], up), case)
        stats['dbcs_sequences_emitted'] += sum(1 for x in whole if len(x) == 2)
        stats['max_sequence_length'] = max([stats['max_sequence_length']] + [len(x) for x in whole])
        if whole and len(whole[-1]) == 1 and whole[-1] in leadset and whole[-1] not in preserve:
            # the string ends in a lead byte that found no trail byte: it is emitted on its own (by the final flush)
            stats['lone_lead_byte_flushed'] += 1
    stats['strings_converted'] += 1
    stats['chunkings_compared'] += 2
    if len(splits) == 2 and splits[True] != splits[False]:
        stats['box_protection_changed_the_split'] += 1


def _new_stats():
    return {'dbcs_sequences_emitted': 0, 'max_sequence_length': 0, 'lone_lead_byte_flushed': 0, 'strings_converted': 0,
            'chunkings_compared': 0, 'box_protection_changed_the_split': 0}


def _flush_stats(res, stats):
    for k, v in stats.items():
        if k.startswith('max_'):
            res.maxc(k, v)
        else:
            res.count(k, v)


def _all_cuts(n):
    """All subsets of cut positions 1..n-1 (as sorted tuples)."""
    out = []
    for mask in range(1 << max(0, n - 1)):
        out.append(tuple(i + 1 for i in range(n - 1) if mask >> i & 1))
    return out


def _shard_directed(spec, res):
    maxlen = spec['maxlen']
    names = list_codepages()
    ndbcs = 0
    for name in spec['names']:
        table, _, _ = parse_ucp(name)
        cls = Classes(table)
        if not cls.dbcs:
            continue
        ndbcs += 1
        cps = {True: _load(name, True), False: _load(name, False)}
        leadset = frozenset(cls.lead)
        # class representatives: box byte that is lead and trail, plain lead+trail, lead only, trail only, neither, preserved control
        reps = []
        for group in (cls.boxlt[:2], cls.both[:1], cls.lead_only[:1], cls.trail_only[:1], [b'A'], [b'\r']):
            reps.extend(group)
        # make sure two different connecting box bytes (single and double line) are both in, when the table has them
        reps = list(dict.fromkeys(reps))
        stats = _new_stats()
        strings = [b'']
        frontier = [b'']
        for _ in range(maxlen):
            frontier = [p + r for p in frontier for r in reps]
            strings.extend(frontier)
        n = 0
        for s in strings:
            for cuts in _all_cuts(len(s)):
                for preserve in ((), PRESERVE_CONTROL):
                    _check_string(res, name, cps, preserve, s, cuts, False, stats, leadset)
                    n += 1
        res.bulk(n, n)
        # long box-drawing runs and frames, every chunking of the short ones, random chunkings of the long
        rng = random.Random('C41:directed:%s' % name)
        frames = []
        for bx in cls.box:
            for k in (1, 2, 3, 4, 5, 8, 13):
                frames.append(bx * k)
                frames.append(b'\xda' + bx * k + b'\xbf')
                frames.append(b'A' + bx * k + b'B')
                if cls.both:
                    frames.append(cls.both[0] + bx * k + cls.both[-1])
                    frames.append(bx * k + cls.both[0] * 2 + bx * k)
                if cls.lead_only:
                    frames.append(bx * k + cls.lead_only[0])
                frames.append(bx * k + b'\r' + bx * k)
        if len(cls.box) >= 2:
            frames.append(cls.box[0] * 3 + cls.box[1] * 3)
            frames.append((cls.box[0] + cls.box[1]) * 4)
        # lone lead byte at the end, lead + non-trail, lead + preserved + trail
        for ld in (cls.lead[:2] + cls.lead[-1:]):
            frames.extend([ld, b'A' + ld, ld + b'\r', ld + b'\x00', ld + b'\r' + (cls.trail[0] if cls.trail else b'@'), ld * 3])
        for s in frames:
            cutsets = _all_cuts(len(s)) if len(s) <= 7 else [tuple(sorted(rng.sample(range(1, len(s)), rng.randint(0, len(s) - 1)))) for _ in range(40)]
            for cuts in cutsets:
                for preserve in ((), PRESERVE_CONTROL):
                    _check_string(res, name, cps, preserve, s, cuts, bool(len(cuts) & 1), stats, leadset)
                    res.case(('frame', name, preserve, s, cuts))
        _flush_stats(res, stats)
        res.count('directed_class_representatives', len(reps))
        if ndbcs == 1:
            res.sample({'kind': 'directed', 'codepage': name, 'class_representatives': [r.hex() for r in reps],
                        'strings': len(strings), 'max_length': maxlen})
    # one stateless check on a single-byte codepage
    if spec.get('part', 0) != 0:
        return
    sb = [n for n in names if not Classes(parse_ucp(n)[0]).dbcs][:3]
    stats = _new_stats()
    for name in sb:
        cps = {True: _load(name, True), False: _load(name, False)}
        for s in (b'', b'A', bytes(range(256)), b'\xc4' * 5 + b'\r\n'):
            _check_string(res, name, cps, PRESERVE_CONTROL, s, (1,) if len(s) > 1 else (), False, stats)
            res.case(('sbcs', name, s), nontrivial=False)
    stats.pop('box_protection_changed_the_split')
    stats.pop('lone_lead_byte_flushed')
    stats.pop('dbcs_sequences_emitted')
    _flush_stats(res, stats)


def _rand_string(rng, cls):
    """Length <= 64; biased to lead / trail / box-drawing / preserved bytes, with runs of connecting box bytes."""
    n = rng.choice((0, 1, 2, 3)) if rng.random() < 0.1 else rng.randint(1, 64)
    out = bytearray()
    while len(out) < n:
        q = rng.random()
        if q < 0.22 and cls.box:
            bx = rng.choice(cls.box)
            out += bx * rng.randint(1, 6)
        elif q < 0.30 and len(cls.box) > 1:
            out += b''.join(rng.choice(cls.box) for _ in range(rng.randint(2, 5)))
        elif q < 0.50 and cls.lead:
            out += rng.choice(cls.lead)
            if rng.random() < 0.7 and cls.trail:
                out += rng.choice(cls.trail)
        elif q < 0.60 and cls.trail:
            out += rng.choice(cls.trail)
        elif q < 0.68:
            out += rng.choice(PRESERVE_CONTROL)
        elif q < 0.76:
            out += rng.choice((b'\xda', b'\xbf', b'\xc0', b'\xd9', b'\xb3', b'\xba', b'\xc9', b'\xbb', b'\xc8', b'\xbc', b'\xc3', b'\xb4'))
        elif q < 0.86:
            out.append(rng.randrange(0x20, 0x7f))
        else:
            out.append(rng.randrange(256))
    return bytes(out[:n])


def _rand_cuts(rng, n):
    if n <= 1 or rng.random() < 0.08:
        return ()
    q = rng.random()
    if q < 0.15:
        return tuple(range(1, n))                      # byte by byte
    if q < 0.3:
        k = 1
    else:
        k = rng.randint(1, min(n - 1, 12))
    cuts = sorted(rng.choice(range(0, n + 1)) for _ in range(k))   # repeated / 0 / n cuts give empty chunks
    return tuple(cuts)


def _shard_random(spec, res, rng):
    names = list_codepages()
    info = {}
    for name in names:
        table, _, _ = parse_ucp(name)
        info[name] = Classes(table)
    dbcs = [n for n in names if info[n].dbcs]
    sbcs = [n for n in names if not info[n].dbcs]
    loaded = {}
    stats = _new_stats()
    per_cp = {}
    for i in range(spec['n']):
        name = rng.choice(dbcs) if (rng.random() < 0.94 and dbcs) else rng.choice(sbcs)
        if name not in loaded:
            loaded[name] = {True: _load(name, True), False: _load(name, False)}
        cls = info[name]
        s = _rand_string(rng, cls)
        cuts = _rand_cuts(rng, len(s))
        q = rng.random()
        if q < 0.4:
            preserve = ()
        elif q < 0.8:
            preserve = PRESERVE_CONTROL
        else:
            # an arbitrary preserved set, may contain lead / trail / box bytes
            pool = list(PRESERVE_CONTROL) + cls.box + cls.lead[:3] + cls.trail[:3] + [b'A']
            preserve = tuple(sorted(set(rng.choice(pool) for _ in range(rng.randint(1, 6)))))
        _check_string(res, name, loaded[name], preserve, s, cuts, rng.random() < 0.5, stats, frozenset(cls.lead))
        res.case((name, preserve, s, cuts), nontrivial=cls.dbcs)
        per_cp[name] = per_cp.get(name, 0) + 1
        if i < 2:
            res.sample({'kind': 'random', 'codepage': name, 'preserve': [p.hex() for p in preserve], 'string': s.hex(),
                        'cuts': list(cuts)})
    _flush_stats(res, stats)
    res.count('random_strings_on_dbcs_codepages', sum(v for k, v in per_cp.items() if info[k].dbcs))
    res.maxc('max_codepages_in_one_random_shard', len(per_cp))


def run_shard(spec, res):
    from .. import harness  # noqa: F401  (puts the repo on sys.path)
    kind = spec['kind']
    rng = random.Random('%s:C41:%s:%s' % (spec['seed'], kind, spec.get('part', 0)))
    if not hasattr(_cpmod()['Converter'], '_mark'):
        res.inconclusive('Converter has no _mark method (split not observable)')
        return
    if kind == 'directed':
        _shard_directed(spec, res)
    elif kind == 'tables':
        for name in spec['names']:
            _check_tables(res, name)
    elif kind == 'random':
        _shard_random(spec, res, rng)
    else:
        raise ValueError(kind)
