"""
C05 Arithmetic identities hold for every value.

Oracle: the identities are evaluated directly on the implementation's own results
(differential: x+y against y+x, x*1 against x, ...); the only model used is the exact decoding
of encodings (value equality, sign, exact widening of the narrower operand).
 (a) API level: values.add/sub/mul/div/neg/abs_/sgn_ with the real FloatErrorHandler (soft
     configuration, payloads visible), all nine type pairings;
 (b) BASIC level: MKD$(<expr>) / SGN(<expr>) through Session.evaluate with operands planted as
     raw bytes (CVS/CVD of string variables, integer variables).
"""
import random
import time

from ..models import c03_mbf as mbf

META = {
    'property_id': 'C05',
    'technique': 'differential identities on the implementation\'s own results + exact decoding, API and BASIC level',
    'level': 'exploration',
    'level_text': (
        'Runtime oracle: for every generated x (and y): x+y and y+x, x*y and y*x are compared bit for bit (including error '
        'class and payload); x+0, 0+x, x*1, 1*x, x/1 (0 and 1 of every type), -(-x) must have the exact value of x; x-x must '
        'be zero; ABS(x) must equal |x|; SGN(x) must equal the sign of the decoded x; a mixed-type operation must return '
        'the wider operand type and equal the same operation on the exactly widened operands. All 65536 integers are '
        'enumerated for the one-operand identities in both tiers; singles/doubles: a seed-independent boundary table plus '
        'random patterns; pairs from the C04 pair classes in all nine type pairings.'),
    'level_note': (
        'Trusted: Python int/Fraction arithmetic (decoding only), the harness. Known statement-vs-code deviation D-S2, '
        'accepted silently here: Integer (+,-,*,/, unary minus, ABS) Integer returns a Single of equal value instead of an '
        'Integer; the check then requires the result to equal the same operation on the exactly widened singles, or the '
        'exact integer result. "=" in the one-operand identities is equality of exact values (a different zero encoding '
        'is still zero); commutativity is bit for bit as stated. x/0 is not an identity of this property.'),
    'rule': ('case = (identity, operand pattern[s]); distinct by that tuple; non-trivial = for commutativity the two '
             'operand patterns differ, for the one-operand identities every operand (enumerated blocks are duplicate-free '
             'by construction and counted by the enumerating loop; random cases are hashed)'),
    'design_ref': 'DESIGN.md section 4 C05',
    'assumptions': ['MBF layout as documented in vf/models/rnum.py'],
    'exhaustive': {'quick': 'one-operand identities (x+0, x*1, x/1, x-x, -(-x), ABS, SGN) over all 65536 integers (floats and pairs sampled)',
                   'thorough': 'same integer space; floats and pairs sampled'},
    'require_counters': {'any': ['commute_overflow_seen', 'commute_inexact_pairs', 'mixed_type_pairs', 'integer_promoted_to_single_seen',
                                 'noncanonical_zero_operand_seen', 'negative_operand_seen', 'tiny_operand_seen', 'basic_cases']},
    'timeout': {'quick': 900, 'thorough': 10800},
}

TN = mbf.TYPENAME
ZERO = {2: b'\0\0', 4: b'\0' * 4, 8: b'\0' * 8}
ONE = {2: b'\x01\0', 4: b'\0\0\0\x81', 8: b'\0' * 6 + b'\0\x81'}


def plan(tier, seed):
    shards = []
    if tier == 'quick':
        for i in range(4):
            shards.append({'kind': 'unary_int', 'part': i, 'parts': 4})
        for n in (4, 8):
            shards.append({'kind': 'unary_directed', 'size': n})
            for i in range(2):
                shards.append({'kind': 'unary_random', 'size': n, 'part': i, 'n': 40000})
        shards.append({'kind': 'pairs_directed', 'size': 4})
        shards.append({'kind': 'pairs_directed', 'size': 8})
        for i in range(6):
            shards.append({'kind': 'pairs_random', 'part': i, 'n': 36000})
        for i in range(3):
            shards.append({'kind': 'basic', 'part': i, 'n': 5000})
    else:
        for i in range(4):
            shards.append({'kind': 'unary_int', 'part': i, 'parts': 4})
        for n in (4, 8):
            shards.append({'kind': 'unary_directed', 'size': n})
            for i in range(8):
                shards.append({'kind': 'unary_random', 'size': n, 'part': i, 'n': 250000})
        shards.append({'kind': 'pairs_directed', 'size': 4})
        shards.append({'kind': 'pairs_directed', 'size': 8})
        for i in range(24):
            shards.append({'kind': 'pairs_random', 'part': i, 'n': 200000})
        for i in range(8):
            shards.append({'kind': 'basic', 'part': i, 'n': 30000})
    return shards


class _NoWatch(object):
    cur = None


class Api(object):
    def __init__(self, w=None):
        from ..gen import c04_api as sapi
        self.sapi = sapi
        self.w = w if w is not None else _NoWatch()
        V = sapi.V
        self.fn = {'add': V.add, 'sub': V.sub, 'mul': V.mul, 'div': V.div}
        self.V = V

    def bin(self, op, a, b):
        self.w.cur = (op, a, b)
        try:
            return self.sapi.binop(self.fn[op], a, b)
        except Exception as e:
            return ('host', type(e).__name__, repr(e))

    def neg(self, a):
        self.w.cur = ('neg', a)
        try:
            return self.sapi.unop(self.V.neg, a)
        except Exception as e:
            return ('host', type(e).__name__, repr(e))

    def abs(self, a):
        self.w.cur = ('abs', a)
        try:
            return self.sapi.unop_args(self.V.abs_, a)
        except Exception as e:
            return ('host', type(e).__name__, repr(e))

    def sgn(self, a):
        self.w.cur = ('sgn', a)
        try:
            return self.sapi.unop_args(self.V.sgn_, a)
        except Exception as e:
            return ('host', type(e).__name__, repr(e))


def _show(out):
    return repr(tuple(x.hex() if isinstance(x, bytes) else x for x in out))


def _host(res, what, out, case):
    res.violation('internal:%s@values.%s' % (out[1], what), 'host exception %s in %s' % (out[2], what), case)


def same_value(r, x):
    """exact value of encoding r equals exact value of encoding x"""
    pr, px = mbf.parts(r), mbf.parts(x)
    if pr[0] != px[0]:
        return False
    if pr[0] == 0:
        return True
    # compare M*2^k exactly
    (s1, m1, k1), (s2, m2, k2) = pr, px
    k = min(k1, k2)
    return (m1 << (k1 - k)) == (m2 << (k2 - k))


def _size_ok(r, a, b):
    n = max(len(a), len(b))
    if len(r) == n:
        return True
    return len(a) == 2 and len(b) == 2 and len(r) == 4      # D-S2


def observe_operand(res, x):
    if len(x) != 2 and x[-1] == 0 and any(x[:-1]):
        res.count('noncanonical_zero_operand_seen')
    s = mbf.parts(x)[0]
    if s < 0:
        res.count('negative_operand_seen')
    if len(x) != 2 and 0 < x[-1] < 34:
        res.count('tiny_operand_seen')


def check_unary(res, api, x, level='api', ev=None):
    """
    one-operand identities on x. ev (BASIC level) maps an identity name to an outcome
    ('ok', bytes) | ('err', code, payload); at API level outcomes are computed here.
    Returns number of evaluations.
    """
    tn = TN[len(x)]
    n = 0
    observe_operand(res, x)
    sx = mbf.parts(x)[0]

    def need_value(name, out, target, case):
        if out[0] == 'host':
            return _host(res, name, out, case)
        if out[0] != 'ok':
            res.violation('%s:%s:%s:error-raised' % (level, name, tn), '%s with x=%s -> %s' % (name, x.hex(), _show(out)), case)
            return
        r = out[1]
        if len(r) not in (2, 4, 8):
            res.violation('%s:%s:%s:result-type' % (level, name, tn), '%s with x=%s -> %s' % (name, x.hex(), _show(out)), case)
            return
        if not same_value(r, target):
            if r[-1] == 0 and len(r) != 2 and sx != 0:
                key = 'flushed-to-zero'
            elif mbf.parts(r)[0] == -sx and same_value(r, _negated(target)):
                key = 'sign-flipped'
            else:
                key = 'value-changed'
            res.violation('%s:%s:%s:%s' % (level, name, tn, key),
                          '%s with x=%s (=%r) -> %s (=%r)' % (name, x.hex(), float(mbf.frac(x)), r.hex(), float(mbf.frac(r))), case)

    if api is not None:
        for zn in (2, 4, 8):
            z, o = ZERO[zn], ONE[zn]
            suffix = '' if zn == len(x) else '-%s' % TN[zn]
            for name, out in (('x+0' + suffix, api.bin('add', x, z)), ('0+x' + suffix, api.bin('add', z, x)),
                              ('x*1' + suffix, api.bin('mul', x, o)), ('1*x' + suffix, api.bin('mul', o, x)),
                              ('x/1' + suffix, api.bin('div', x, o))):
                need_value(name, out, x, [name, x])
                if out[0] == 'ok':
                    if not _size_ok(out[1], x, z):
                        res.violation('%s:%s:%s:result-narrower-than-operands' % (level, name, tn),
                                      '%s with x=%s -> %s' % (name, x.hex(), _show(out)), [name, x])
                    elif len(x) == 2 and zn == 2 and len(out[1]) == 4:
                        res.count('integer_promoted_to_single_seen')
                n += 1
        outs = {'x-x': api.bin('sub', x, x), '-(-x)': None, 'abs': api.abs(x), 'sgn': api.sgn(x)}
        m1 = api.neg(x)
        if m1[0] == 'ok':
            outs['-(-x)'] = api.neg(m1[1])
            outs['-x'] = m1
        else:
            outs['-(-x)'] = m1
        n += 5
    else:
        outs = ev
        for name in ('x+0', '0+x', 'x*1', '1*x', 'x/1'):
            if name in outs:
                need_value(name, outs[name], x, [name, x])
                n += 1
    # x - x = 0
    out = outs['x-x']
    if out[0] == 'host':
        _host(res, 'x-x', out, ['x-x', x])
    elif out[0] != 'ok' or mbf.parts(out[1])[0] != 0:
        res.violation('%s:x-x:%s:%s' % (level, tn, 'nonzero' if out[0] == 'ok' else 'error-raised'),
                      'x-x with x=%s -> %s' % (x.hex(), _show(out)), ['x-x', x])
    # -(-x) = x
    need_value('-(-x)', outs['-(-x)'], x, ['-(-x)', x])
    if outs.get('-x') is not None and outs['-x'][0] == 'ok' and sx != 0:
        # the intermediate -x must be the negated value (else a double error could cancel)
        if not same_value(outs['-x'][1], _negated(x)):
            res.violation('%s:-x:%s:not-negated' % (level, tn), '-x with x=%s -> %s' % (x.hex(), _show(outs['-x'])), ['-x', x])
    # ABS
    out = outs['abs']
    if out[0] == 'host':
        _host(res, 'abs_', out, ['abs', x])
    elif out[0] != 'ok' or len(out[1]) not in (2, 4, 8):
        res.violation('%s:abs:%s:error-raised' % (level, tn), 'ABS of %s -> %s' % (x.hex(), _show(out)), ['abs', x])
    else:
        r = out[1]
        if mbf.parts(r)[0] < 0:
            res.violation('%s:abs:%s:negative' % (level, tn), 'ABS of %s -> %s' % (x.hex(), r.hex()), ['abs', x])
        elif not (same_value(r, x) or same_value(r, _negated(x))):
            res.violation('%s:abs:%s:magnitude-changed' % (level, tn), 'ABS of %s (=%r) -> %s (=%r)' % (
                x.hex(), float(mbf.frac(x)), r.hex(), float(mbf.frac(r))), ['abs', x])
    # SGN
    out = outs['sgn']
    if out[0] == 'host':
        _host(res, 'sgn_', out, ['sgn', x])
    elif out[0] != 'ok' or len(out[1]) not in (2, 4, 8):
        res.violation('%s:sgn:%s:error-raised' % (level, tn), 'SGN of %s -> %s' % (x.hex(), _show(out)), ['sgn', x])
    else:
        r = out[1]
        if not mbf.value_eq_int(r, sx):
            key = 'zero-encoding-not-zero' if sx == 0 else ('wrong-sign' if mbf.parts(r)[0] == -sx else 'not-minus-one-zero-one')
            res.violation('%s:sgn:%s:%s' % (level, tn, key), 'SGN of %s (=%r) -> %s' % (x.hex(), float(mbf.frac(x)), r.hex()), ['sgn', x])
    return n


def _negated(x):
    """an encoding of -value(x) in a type that can hold it (Integer -32768 -> single)"""
    if len(x) == 2:
        v = -int.from_bytes(x, 'little', signed=True)
        return mbf.from_int(v, 4)
    if x[-1] == 0:
        return x
    return x[:-2] + bytes((x[-2] ^ 0x80,)) + x[-1:]


def equivalent(o1, o2):
    """same outcome up to the encoding of a zero result"""
    if o1[0] != o2[0]:
        return False
    if o1[0] == 'ok':
        return len(o1[1]) == len(o2[1]) and same_value(o1[1], o2[1])
    return o1[1:3] == o2[1:3]


def check_pair(res, api, a, b, level='api'):
    ta, tb = TN[len(a)], TN[len(b)]
    pt = '%s-%s' % (ta, tb)
    w = max(len(a), len(b))
    n = 0
    if len(a) != len(b):
        res.count('mixed_type_pairs')
    outs = {}
    for op in ('add', 'mul'):
        o1, o2 = api.bin(op, a, b), api.bin(op, b, a)
        outs[op] = o1
        n += 2
        if o1[0] == 'host' or o2[0] == 'host':
            _host(res, op, o1 if o1[0] == 'host' else o2, [op, a, b])
            continue
        if o1[0] == 'err':
            res.count('commute_overflow_seen')
        elif a != b and o1[1][-1] != 0 and len(o1[1]) != 2:
            res.count('commute_inexact_pairs')       # informational name: non-zero float results compared
        if o1 != o2:
            if o1[0] != o2[0]:
                key = 'error-in-one-order-only'
            elif o1[0] == 'ok' and len(o1[1]) != len(o2[1]):
                key = 'result-type-differs'
            elif o1[0] == 'ok' and same_value(o1[1], o2[1]):
                key = 'zero-encoding-differs'
            else:
                key = 'result-differs'
            res.violation('%s:%s-commutes:%s:%s' % (level, op, pt if len(a) <= len(b) else '%s-%s' % (tb, ta), key),
                          'x=%s y=%s: x %s y -> %s but y %s x -> %s' % (a.hex(), b.hex(), op, _show(o1), op, _show(o2)), [op, a, b])
    # promotion to the wider operand type before computing
    from ..gen.c04_pairs import exact_in
    for op in ('add', 'sub', 'mul', 'div'):
        o = outs.get(op)
        if o is None:
            o = api.bin(op, a, b)
            n += 1
        if o[0] == 'host':
            _host(res, op, o, [op, a, b])
            continue
        if o[0] == 'ok' and not _size_ok(o[1], a, b):
            res.violation('%s:promotion:%s:%s:result-type-not-wider-operand' % (level, op, pt),
                          'x=%s y=%s: x %s y -> %s' % (a.hex(), b.hex(), op, _show(o)), [op, a, b])
            continue
        if len(a) == len(b) and len(a) != 2:
            continue
        if len(a) == 2 and len(b) == 2:
            # literal statement: Integer arithmetic; recorded deviation D-S2: computed on the widened singles
            ia, ib = int.from_bytes(a, 'little', signed=True), int.from_bytes(b, 'little', signed=True)
            if o[0] == 'ok' and len(o[1]) == 2:
                if op == 'div':
                    ok = ib != 0 and ia % ib == 0 and mbf.value_eq_int(o[1], ia // ib)
                else:
                    ok = mbf.value_eq_int(o[1], {'add': ia + ib, 'sub': ia - ib, 'mul': ia * ib}[op])
                if not ok:
                    res.violation('%s:promotion:%s:%s:integer-result-wrong' % (level, op, pt),
                                  'x=%d y=%d: x %s y -> %s' % (ia, ib, op, _show(o)), [op, a, b])
                continue
            res.count('integer_promoted_to_single_seen')
            ww = 4
        else:
            ww = w
        ref = api.bin(op, exact_in(a, ww), exact_in(b, ww))
        n += 1
        if ref[0] == 'host':
            continue
        if op == 'div' and mbf.parts(a)[0] == 0 and mbf.parts(b)[0] == 0 and o[:2] == ref[:2] == ('err', 11):
            continue        # 0/0: the sign of the payload is not pinned (a zero has no sign)
        if not equivalent(o, ref):
            res.violation('%s:promotion:%s:%s:differs-from-widened-operands' % (level, op, pt),
                          'x=%s y=%s: x %s y -> %s but on exactly widened operands -> %s' % (a.hex(), b.hex(), op, _show(o), _show(ref)),
                          [op, a, b])
    return n


# ---------------------------------------------------------------------------------------------

def run_shard(spec, res):
    kind = spec['kind']
    t0 = time.process_time()
    rng = random.Random('%s:C05:%s:%s' % (spec['seed'], kind + str(spec.get('size', '')), spec.get('part', 0)))
    mbf.selftest(random.Random('%s:C05:selftest' % spec['seed']), 150)
    from ..gen import c04_watch
    try:
        c04_watch.guarded_run(res, _run, spec, kind, rng, res)
    finally:
        res.count('shard_cpu_ms', int((time.process_time() - t0) * 1000))


def unary_table(n):
    from ..gen import c04_pairs as gp
    out = []
    full = (1 << (mbf.BITS[n] - 1)) - 1
    for e in range(256):
        for m in (0, 1, full, full // 3, 1 << (mbf.BITS[n] - 2), 0x80, 0xff):
            for neg in (False, True):
                out.append(mbf.pack(n, e, m, neg))
    out.extend(gp.noncanonical_zeros(n))
    for v in (0, 1, -1, 2, -2, 32767, -32768, 32768, -32769, 65535, 65536, 16777215, -16777216):
        out.append(mbf.from_int(v, n))
    return out


def _run(w, spec, kind, rng, res):
    from ..gen import c04_pairs as gp
    if kind == 'basic':
        return _basic(w, spec, rng, res)
    api = Api(w)
    if kind == 'unary_int':
        n = 0
        for i in range(-32768 + spec['part'], 32768, spec['parts']):
            n += check_unary(res, api, mbf.int_bytes(i))
        res.bulk(n, n)
        res.count('integers_enumerated', len(range(-32768 + spec['part'], 32768, spec['parts'])))
        res.sample({'kind': kind, 'integers': 'every %dth from %d' % (spec['parts'], -32768 + spec['part']),
                    'identities': ['x+0', '0+x', 'x*1', '1*x', 'x/1 (0 and 1 of each type)', 'x-x', '-(-x)', 'ABS', 'SGN']})
    elif kind == 'unary_directed':
        tab = unary_table(spec['size'])
        n = 0
        for x in tab:
            n += check_unary(res, api, x)
        res.bulk(n, n)
        res.sample({'kind': kind, 'precision': TN[spec['size']], 'values': len(tab), 'first': [x.hex() for x in tab[:4]]})
    elif kind == 'unary_random':
        size = spec['size']
        for i in range(spec['n']):
            x = gp.rvalue(rng, size) if i % 3 else gp.rbytes(rng, size)
            k = check_unary(res, api, x)
            res.case((b'unary', x))
            res.evaluations += k - 1
            if i < 2:
                res.sample({'kind': kind, 'x': x.hex(), 'value': float(mbf.frac(x)), 'x*1': _show(api.bin('mul', x, ONE[size])),
                            'sgn': _show(api.sgn(x))})
    elif kind == 'pairs_directed':
        size = spec['size']
        vals = gp.boundary_values(size, small=True)
        n = 0
        for a in vals:
            for b in vals:
                n += check_pair(res, api, a, b)
        # against the other types (mixed pairings) with a smaller table
        others = [mbf.int_bytes(v) for v in (0, 1, -1, 2, 255, -256, 32767, -32768)] + gp.boundary_values(12 - size, small=True)[::7]
        for a in vals:
            for b in others:
                n += check_pair(res, api, a, b)
                n += check_pair(res, api, b, a)
        res.bulk(n, n)
        res.sample({'kind': kind, 'precision': TN[size], 'table': len(vals), 'other_type_operands': len(others)})
    elif kind == 'pairs_random':
        sizes = [(2, 2), (2, 4), (2, 8), (4, 2), (4, 4), (4, 8), (8, 2), (8, 4), (8, 8)]
        weights = [1, 2, 2, 2, 5, 4, 2, 4, 5]
        order = [s for s, w in zip(sizes, weights) for _ in range(w)]
        for i in range(spec['n']):
            na, nb = order[i % len(order)]
            if na == nb and na != 2:
                a, b = gp.pair(rng, na, gp.PAIR_CLASSES[(i // len(order)) % len(gp.PAIR_CLASSES)])
            elif na != 2 and nb != 2 and rng.random() < 0.5:
                # mixed precision with related exponents: a double pair, one side cut to its leading single part
                a, b = gp.pair(rng, 8, gp.PAIR_CLASSES[(i // len(order)) % len(gp.PAIR_CLASSES)])
                a, b = a[-na:], b[-nb:]
            else:
                a, b = gp.rvalue(rng, na), gp.rvalue(rng, nb)
            k = check_pair(res, api, a, b)
            res.case((b'pair', a, b), nontrivial=(a != b))
            res.evaluations += k - 1
            if i < 2:
                res.sample({'kind': kind, 'x': a.hex(), 'y': b.hex(), 'x+y': _show(api.bin('add', a, b)), 'y+x': _show(api.bin('add', b, a))})
    else:
        raise ValueError(kind)


# ---------------------------------------------------------------------------------------------
# BASIC level

def _basic(w, spec, rng, res):
    from .. import harness
    from ..gen import c04_pairs as gp
    from ..gen.c04_pairs import exact_in
    tabs = {4: unary_table(4), 8: unary_table(8)}
    with harness.Box() as box:

        def plant(slot, x):
            """make operand x available; returns the BASIC expression text denoting it"""
            if len(x) == 2:
                name = b'I%' if slot == 0 else b'J%'
                box.set(name.decode(), int.from_bytes(x, 'little', signed=True))
                return name
            sv = b'S$' if slot == 0 else b'T$'
            box.set(sv.decode(), x)
            return (b'CVS(' if len(x) == 4 else b'CVD(') + sv + b')'

        def evd(expr):
            """value of a numeric expression as double bytes (MKD$ widens exactly)"""
            v = box.ev(b'MKD$(' + expr + b')')
            if isinstance(v, bytes) and len(v) == 8:
                return ('ok', v)
            out = box.ex(b'R$=MKD$(' + expr + b')')
            code, _ = harness.err_of(out)
            return ('err', code or -1, None)

        for i in range(spec['n']):
            size = (2, 4, 8)[i % 3]
            r = rng.random()
            if size == 2:
                x = gp.rinteger(rng)
            elif r < 0.3:
                x = rng.choice(tabs[size])
            else:
                x = gp.rvalue(rng, size) if r < 0.8 else gp.rbytes(rng, size)
            w.cur = ('basic-identities', x)
            try:
                X = plant(0, x)
                if i % 7 == 0 and size != 2:
                    # through a variable of the operand's type
                    var = b'A!' if size == 4 else b'A#'
                    out = box.ex(var + b'=' + X)
                    if out:
                        res.violation('basic:assign:unexpected-output', '%r -> %r' % (var + b'=' + X, out), ['assign', x])
                        continue
                    X = var
                ev = {
                    'x+0': evd(X + b'+0'), '0+x': evd(b'0+' + X), 'x*1': evd(X + b'*1'), '1*x': evd(b'1*' + X), 'x/1': evd(X + b'/1'),
                    'x-x': evd(X + b'-' + X), '-(-x)': evd(b'-(-' + X + b')'), '-x': evd(b'-' + X), 'abs': evd(b'ABS(' + X + b')'),
                }
                s = box.ev(b'SGN(' + X + b')')
                ev['sgn'] = ('ok', mbf.int_bytes(s)) if isinstance(s, int) and -32768 <= s <= 32767 else (
                    ('ok', mbf.from_int(int(s), 8)) if isinstance(s, float) and s == int(s) else ('err', -1, None))
                k = check_unary(res, None, x, 'basic', ev)
                res.case((b'bunary', x))
                res.evaluations += k + 4
                res.count('basic_cases')
                # a pair: commutativity and promotion, values observed as doubles
                nb = (2, 4, 8)[(i // 3) % 3]
                if nb == size and size != 2 and rng.random() < 0.7:
                    x2, y = gp.pair(rng, size, rng.choice(gp.PAIR_CLASSES))
                    X = plant(0, x2)
                else:
                    x2, y = x, (gp.rvalue(rng, nb) if nb != 2 else gp.rinteger(rng))
                    X = plant(0, x2)
                Y = plant(1, y)
                w.cur = ('basic-pair', x2, y)
                for op, sym in (('add', b'+'), ('mul', b'*')):
                    o1, o2 = evd(X + sym + Y), evd(Y + sym + X)
                    if o1 != o2:
                        res.violation('basic:%s-commutes:%s-%s:result-differs' % (op, TN[len(x2)], TN[len(y)]),
                                      'x=%s y=%s: %s / %s' % (x2.hex(), y.hex(), _show(o1), _show(o2)), [op, x2, y])
                    if len(x2) != len(y):
                        res.count('mixed_type_pairs')
                        # promotion: same as on explicitly widened operands (CDBL / CSNG are exact for widening)
                        wide = max(len(x2), len(y))
                        conv = b'CDBL(' if wide == 8 else b'CSNG('
                        o3 = evd(conv + X + b')' + sym + conv + Y + b')')
                        if o3 != o1:
                            res.violation('basic:promotion:%s:%s-%s:differs-from-widened-operands' % (op, TN[len(x2)], TN[len(y)]),
                                          'x=%s y=%s: %s / widened %s' % (x2.hex(), y.hex(), _show(o1), _show(o3)), [op, x2, y])
                res.case((b'bpair', x2, y), nontrivial=(x2 != y))
                res.evaluations += 5
            except harness.Internal as e:
                res.violation(e.key, str(e), ['basic', x])
                if type(e.exc).__name__ == 'Hang':
                    return
                continue
            if i < 2:
                res.sample({'kind': 'basic', 'x': x.hex(), 'expressions': ['MKD$(X+0)', 'MKD$(X*1)', 'MKD$(X/1)', 'MKD$(X-X)', 'MKD$(-(-X))',
                                                                          'MKD$(ABS(X))', 'SGN(X)', 'MKD$(X+Y)', 'MKD$(Y+X)'],
                            'x*1': _show(ev['x*1'])})
