"""
C34 Video memory reflects and controls the screen content.

Three oracles, all at BASIC level (DEF SEG / PEEK / POKE / BSAVE / BLOAD / OUT in a real session):

 (a) differential, model-free:  BSAVE of [a, a+n)  ==  the n single PEEKs;
     BLOAD of a block on session A  ==  the same bytes POKEd one by one on a twin session B
     (all pages' pixel buffers, character and attribute buffers compared);
     BSAVE page -> wipe with CLS / LINE BF -> BLOAD restores the page (per plane on EGA/VGA).
 (b) encoder (vf.models.c34_vmem, written from the hardware layouts): PEEK(a) == encoding of the
     characters / attributes / pixels the byte covers; after POKE a,v: PEEK(a) == v on the written
     planes, the covered cell / pixels hold exactly the decoded value and NOTHING else changed on
     any page.
 (c) invariant: a write through video memory never leaves a pixel attribute outside the mode's range.

Violation keys name the mechanism:  block-vs-byte:<where the first difference lies relative to the
block start>:<read|write>[:<layout family>],  peek:encoding:<family>,  poke:readback:<family>,
poke:effect:<family>, poke:frame:<family>, roundtrip:save-wipe-restore:<family>,
write:pixel-attribute-out-of-range:<family>.
"""
import logging
import os
import random

from ..models import c34_vmem as vm

logging.disable(logging.WARNING)

META = {
    'property_id': 'C34',
    'technique': 'differential block-vs-byte (BSAVE vs PEEKs, BLOAD vs POKEs on a twin session) + hardware-layout '
                 'encoder model + frame-condition snapshots over all pages',
    'level': 'exploration',
    'level_text': (
        'Runtime oracle on the real interpreter: in every mode of the CGA, EGA (128K, 64K, monochrome), VGA, MDA, '
        'Hercules, Olivetti, PCjr and Tandy adapters that the session accepts, random and boundary-directed addresses '
        'and block ranges (mid-row starts, interlace-bank crossings, page crossings, unused bank/page tails, shifted '
        'DEF SEG) are read and written bytewise and blockwise and compared; PEEK/POKE are also compared with an '
        'independent encoder written from the adapters\' memory layouts, with a whole-memory frame condition on all '
        'pages after every POKE. Held = no disagreement on the observed cases; not a proof over all addresses.'),
    'level_note': (
        'Trusted: harness, read-only inspection of the page buffers (cross-checked against POINT / SCREEN() at BASIC '
        'level), the layout model. Not pinned by the statement and therefore NOT demanded: the segment at which a '
        'mode is mapped (taken as B000 mono text, B800 colour text / CGA-family / Hercules graphics as pcbasic maps '
        'it, A000 EGA/VGA) and that page p starts at p*page_size; which planes carry the two attribute bits in EGA '
        'monochrome SCREEN 10 and 64K-EGA SCREEN 9 (only the model-free checks, the frame condition, the attribute '
        'range and the save/restore round trip run there); bytes that back nothing (bank/page tails) are only '
        'compared block-vs-byte; blocks wrapping past offset FFFF or leaving A0000-BFFFF are not generated; pages '
        'that are not reachable below C0000 (A000: within 64K) are not addressed. EGA registers are driven as pcbasic '
        'exposes them: OUT &H3C4,2:OUT &H3C5,mask (map mask) and OUT &H3CE,4:OUT &H3CF,plane (read map); after a mode is '
        '(re)entered by a mode change or in a new session of the same process they must be at the defaults (read map 0, all '
        'planes written): access with untouched registers is compared with access after programming the defaults.'),
    'rule': ('case = (adapter, screen, width, operation, linear offset, length/value, plane/mask); distinct by that tuple; '
             'non-trivial = the bytes concerned are not all equal (blocks) / the covered content is non-blank or the '
             'poked value differs from the old byte (bytes)'),
    'design_ref': 'DESIGN.md section 4 C34',
    'assumptions': ['hardware memory layouts as documented for each adapter (vf/models/c34_vmem.py)',
                    'twin sessions driven by the same statements are in the same state'],
    'require_counters': {'any': ['modes_covered', 'bank_crossing_blocks_read', 'bank_crossing_blocks_written',
                                 'page_crossing_blocks_read', 'tail_blocks_read', 'mid_row_start_blocks',
                                 'peek_encoding_checked', 'poke_checked', 'planes_exercised', 'shifted_defseg_blocks',
                                 'register_default_checks']},
    'timeout': {'quick': 900, 'thorough': 7200},
}

ADAPTERS = {
    'cga': dict(video='cga'),
    'ega': dict(video='ega'),
    'ega64k': dict(video='ega', video_memory=65536),
    'egamono': dict(video='ega', monitor='mono'),
    'vga': dict(video='vga'),
    'mda': dict(video='mda', monitor='mono'),
    'hercules': dict(video='hercules', monitor='mono'),
    'olivetti': dict(video='olivetti'),
    'pcjr': dict(video='pcjr', syntax='pcjr'),
    'tandy': dict(video='tandy', syntax='tandy'),
}


def all_combos():
    out = []
    for ad in ['cga', 'ega', 'ega64k', 'egamono', 'vga', 'mda', 'hercules', 'olivetti', 'pcjr', 'tandy']:
        for (scr, width) in sorted(vm.layouts_for(ad)):
            if ad == 'ega64k' and scr != 9:
                continue    # identical to 'ega' except SCREEN 9
            out.append([ad, scr, width])
    return out


SIZES = {
    #            peeks  rblocks wblocks pokes  big
    'quick':    (420,   36,     12,     80,    1),
    'thorough': (2500,  420,    110,    500,   4),
}


def plan(tier, seed):
    combos = all_combos()
    shards = [{'kind': 'directed'}]
    if tier == 'quick':
        # 16 shards of similar cost (longest-processing-time first on a rough per-mode cost)
        def cost(c):
            lay = vm.layouts_for(c[0])[(c[1], c[2])]
            if lay.family == 'planar':
                return 13 if lay.planes else 7
            if lay.family == 'text':
                return 2 if c[0] in ('mda', 'hercules') else (8 if c[2] == 40 else 4.5)
            return 5.5
        n = 16
        bins = [[0, []] for _ in range(n)]
        for c in sorted(combos, key=lambda c: (-cost(c), c)):
            b = min(bins, key=lambda b: b[0])
            b[0] += cost(c)
            b[1].append(c)
        for i, (_, cs) in enumerate(bins):
            shards.append({'kind': 'modes', 'combos': cs, 'part': i})
    else:
        parts = 3
        for p in range(parts):
            for i, c in enumerate(combos):
                shards.append({'kind': 'modes', 'combos': [c], 'part': p * 100 + i})
    return shards


# ---------------------------------------------------------------------------------------
# session helpers

class Abort(Exception):
    pass


class Snap(object):
    """Read-only copy of all pages' buffers."""

    def __init__(self, impl, is_text):
        d = impl.display
        self.pix = [p.pixels[:, :].to_bytes() for p in d.pages]
        self.pw = d.pages[0].pixels.width
        self.ph = d.pages[0].pixels.height
        self.chars = [p.get_chars() for p in d.pages]
        self.is_text = is_text
        if is_text:
            rows, cols = len(self.chars[0]), len(self.chars[0][0])
            self.attrs = [[[p.get_attr(r + 1, c + 1) for c in range(cols)] for r in range(rows)] for p in d.pages]
        else:
            self.attrs = None

    def pixel(self, page, y, x):
        return self.pix[page][y * self.pw + x]

    def char(self, page, row, col):
        return ord(self.chars[page][row][col])

    def attr(self, page, row, col):
        return self.attrs[page][row][col]

    def same(self, other):
        return self.pix == other.pix and self.chars == other.chars and self.attrs == other.attrs

    def first_diff(self, other):
        """('pixel', page, y, x) | ('cell', page, row, col) | None"""
        for p, (a, b) in enumerate(zip(self.pix, other.pix)):
            if a != b:
                if self.is_text:
                    break
                i = next(i for i in range(len(a)) if a[i] != b[i])
                return ('pixel', p, i // self.pw, i % self.pw)
        for p in range(len(self.chars)):
            if self.chars[p] != other.chars[p] or (self.attrs and self.attrs[p] != other.attrs[p]):
                for r in range(len(self.chars[p])):
                    for c in range(len(self.chars[p][r])):
                        if self.chars[p][r][c] != other.chars[p][r][c] or (
                                self.attrs and self.attrs[p][r][c] != other.attrs[p][r][c]):
                            return ('cell', p, r, c)
        for p, (a, b) in enumerate(zip(self.pix, other.pix)):
            if a != b:
                i = next(i for i in range(len(a)) if a[i] != b[i])
                return ('pixel', p, i // self.pw, i % self.pw)
        return None


class Mode(object):
    """One (adapter, screen, width) under test: the twin sessions + layout + bookkeeping."""

    def __init__(self, harness, res, adapter, scr, width, layout):
        self.h = harness
        self.res = res
        self.adapter, self.scr, self.width = adapter, scr, width
        self.layout = layout
        self.tag = [adapter, scr, width]
        self.tandy = adapter == 'tandy'
        self.boxes = []
        self.seg_now = {}
        self.fam = layout.family
        self.violations = 0

    # -- low level -------------------------------------------------------------------------
    def ex(self, box, cmd, what='statement'):
        try:
            out = box.ex(cmd)
        except self.h.Internal as e:
            self.res.violation(e.key, str(e), {'mode': self.tag, 'cmd': cmd})
            raise Abort()
        code, _ = self.h.err_of(out)
        if code:
            raise Abort('error %d on %s' % (code, what))
        return out

    def ev(self, box, expr):
        try:
            v = box.ev(expr)
        except self.h.Internal as e:
            self.res.violation(e.key, str(e), {'mode': self.tag, 'expr': expr})
            raise Abort()
        if v is None:
            raise Abort('evaluate failed')
        return v

    def defseg(self, box, seg):
        if self.seg_now.get(id(box)) != seg:
            self.ex(box, b'DEF SEG=&H%X' % seg, 'DEF SEG')
            self.seg_now[id(box)] = seg

    def addr(self, L, n, rng=None):
        """(segment, offset) for linear offset L (relative to the layout segment), block of n bytes."""
        base = self.layout.segment
        kmin = max(0, -(-(L + n - 0x10000) // 0x1000)) if L + n > 0x10000 else 0
        kmax = L // 0x1000
        k = kmin
        if rng is not None and kmax > kmin and rng.random() < 0.3:
            k = rng.randint(kmin, kmax)
        seg = base + k * 0x100
        off = L - k * 0x1000
        assert 0 <= off and off + n <= 0x10000, (L, n, k)
        if k:
            self.res.count('shifted_defseg_blocks')
        return seg, off

    def peek(self, box, L):
        seg, off = self.addr(L, 1)
        self.defseg(box, seg)
        return self.ev(box, b'PEEK(%d)' % off if off < 32768 or (off & 1) else b'PEEK(%d)' % (off - 65536))

    def poke_stmt(self, off, v):
        return b'POKE %d,%d' % (off, v)

    def set_read_plane(self, box, p):
        self.ex(box, b'OUT &H3CE,4:OUT &H3CF,%d' % p, 'OUT')

    def set_mask(self, box, m):
        self.ex(box, b'OUT &H3C4,2:OUT &H3C5,%d' % m, 'OUT')

    # -- setup -------------------------------------------------------------------------------
    def open(self):
        for _ in range(2):
            box = self.h.Box(**ADAPTERS[self.adapter])
            self.boxes.append(box)
        for box in self.boxes:
            try:
                if self.scr == 0:
                    out = box.ex(b'SCREEN 0') + box.ex(b'WIDTH %d' % self.width)
                else:
                    out = box.ex(b'SCREEN %d' % self.scr)
            except self.h.Internal as e:
                self.res.violation(e.key, str(e), {'mode': self.tag})
                return False
            if self.h.err_of(out)[0]:
                return False
        box = self.boxes[0]
        # geometry as observed through the public API must be the documented one
        chars = box.s.get_chars()
        pix = box.s.get_pixels()
        if len(chars[0]) != self.width:
            return False
        if not self.layout.is_text and (len(pix) != self.layout.height or len(pix[0]) != self.layout.width):
            return False
        # pages the session accepts
        npages = 1
        for p in range(1, 9):
            try:
                out = box.ex(b'SCREEN ,,%d,%d' % (p, p))
            except self.h.Internal as e:
                self.res.violation(e.key, str(e), {'mode': self.tag, 'cmd': 'SCREEN ,,p,p'})
                break
            if self.h.err_of(out)[0]:
                break
            npages = p + 1
        # an error message was printed on the last accepted page: start both twins afresh
        for b in self.boxes:
            b.close()
        self.boxes = [self.h.Box(**ADAPTERS[self.adapter]) for _ in range(2)]
        for box in self.boxes:
            if self.scr == 0:
                self.ex(box, b'SCREEN 0')
                self.ex(box, b'WIDTH %d' % self.width)
            else:
                self.ex(box, b'SCREEN %d' % self.scr)
        self.npages = npages
        lay = self.layout
        window = 0x10000 if lay.segment == vm.SEG_EGA else (0xC0000 - lay.segment * 16)
        self.window = window
        self.reach = max(1, min(npages, window // lay.page_size))
        # bytes of address space (relative to the layout's segment) that are video memory
        self.space = min(window, self.reach * lay.page_size)
        if lay.family == 'planar':
            self.nattr = 16 if lay.planes else 4
        elif lay.family == 'tandy6':
            self.nattr = 4
        elif lay.family == 'packed':
            self.nattr = 1 << lay.bpp
        else:
            self.nattr = 256
        return True

    def close(self):
        for b in self.boxes:
            b.close()
        self.boxes = []

    def fill(self, rng):
        """Random screen content on both twins through ordinary BASIC statements."""
        lay = self.layout
        pages = sorted(set([0, self.reach - 1, rng.randrange(self.reach)]))
        seeds = [rng.randrange(1 << 30) for _ in pages]
        for box in self.boxes:
            for p, sd in zip(pages, seeds):
                r2 = random.Random(sd)
                if self.npages > 1:
                    self.ex(box, b'SCREEN ,,%d,0' % p)
                if lay.is_text:
                    for row in range(1, 25):
                        col = 1
                        while col < self.width:
                            n = min(self.width - col, r2.randint(1, 30))
                            if col + n == self.width and row == 24:
                                n -= 1
                            if n <= 0:
                                break
                            s = bytes(r2.choice(b'#$%&()*+-./0123456789:<=>?@ABCDEFGHIJKLMNOPQRSTUVWXYZ[]^_abcdefghijklmnopqrstuvwxyz{|}~')
                                      for _ in range(n))
                            self.ex(box, b'LOCATE %d,%d:COLOR %d,%d:PRINT "%s"+CHR$(%d);' % (
                                row, col, r2.randrange(32), r2.randrange(8), s[:-1], r2.randrange(128, 255)))
                            col += n
                    self.ex(box, b'COLOR 7,0')
                else:
                    W, H, NC = lay.width, lay.height, self.nattr
                    prog = [
                        b'10 DIM A%(1400),B%(600)',
                        b'20 FOR Y=0 TO 7:FOR K=1 TO 2:LINE(0,Y)-(%d,Y),INT(RND*%d),,INT(RND*65536)-32768:NEXT:NEXT' % (W - 1, NC),
                        # (Tandy/PCjr SCREEN 6 GETs twice the width asked for)
                        b'30 GET(0,0)-(%d,7),A%%:GET(3,0)-(%d,7),B%%' % (
                            (W // 2 - 1, 3 + W // 6) if lay.family == 'tandy6' else (W - 1, 3 + W // 3)),
                        b'40 FOR I=1 TO 40:X=INT(RND*%d):Y=INT(RND*%d):LINE(X,Y)-(X+RND*%d,Y+RND*%d),INT(RND*%d),BF:NEXT' % (
                            W, H, W // 3, H // 4, NC),
                        b'50 FOR I=1 TO 70:PUT(0,INT(RND*%d)),A%%,XOR:PUT(INT(RND*%d),INT(RND*%d)),B%%,XOR:NEXT' % (
                            H - 8, W - W // 3 - 4, H - 8),
                    ]
                    self.ex(box, b'RANDOMIZE %d' % (sd % 32000))
                    try:
                        out = box.run(prog, budget=100000)
                    except self.h.Internal as e:
                        self.res.violation(e.key, str(e), {'mode': self.tag, 'cmd': 'fill'})
                        raise Abort()
                    if self.h.err_of(out)[0]:
                        raise Abort('fill program failed: %r' % out[-60:])
                    self.ex(box, b'NEW')
            if self.npages > 1:
                self.ex(box, b'SCREEN ,,0,0')
            if lay.is_text:
                self.ex(box, b'LOCATE 1,1')
        a, b = self.snaps()
        if not a.same(b):
            raise Abort('twin sessions differ after identical setup')
        return a

    def snaps(self):
        return [Snap(b.impl, self.layout.is_text) for b in self.boxes]

    # -- block reads ----------------------------------------------------------------------------
    def bsave(self, box, L, n, rng=None):
        seg, off = self.addr(L, n, rng)
        self.defseg(box, seg)
        self.ex(box, b'BSAVE "B.BIN",%d,%d' % (off, n), 'BSAVE')
        with open(box.path('B.BIN'), 'rb') as f:
            blob = f.read()
        parsed = vm.parse_bsave(blob, self.tandy)
        if parsed is None:
            raise Abort('BSAVE file malformed')
        fseg, foff, flen, data = parsed
        if (fseg, foff, flen) != (seg, off, n) or len(data) != n:
            self.res.violation('bsave:header-or-length', 'BSAVE %x:%x+%d wrote header %x:%x+%d with %d data bytes' % (
                seg, off, n, fseg, foff, flen, len(data)), {'mode': self.tag, 'L': L, 'n': n})
            raise Abort()
        return data

    def read_block_check(self, box, L, n, plane, cache, rng=None, directed=False):
        res, lay = self.res, self.layout
        data = self.bsave(box, L, n, rng)
        ref = bytearray(n)
        for i in range(n):
            a = L + i
            v = cache.get(a)
            if v is None:
                v = cache[a] = self.peek(box, a)
            ref[i] = v
        span = lay.span_class(L, n)
        self.count_span(span, L, n, 'read')
        res.case((self.adapter, self.scr, self.width, 'rd', L, n, plane), nontrivial=len(set(ref)) > 1)
        if bytes(ref) != bytes(data):
            i = next(i for i in range(n) if ref[i] != data[i])
            rel = lay.relation(L, L + i)
            key = 'block-vs-byte:%s:read' % rel + ('' if self.fam == 'packed' else ':' + self.fam)
            ndiff = sum(1 for i in range(n) if ref[i] != data[i])
            res.violation(key, '%s SCREEN %d width %d: BSAVE of %d bytes at linear offset &H%X (plane %r) differs from the '
                          'single PEEKs in %d bytes, first at block index %d (BSAVE %d, PEEK %d); block spans: %s' % (
                              self.adapter, self.scr, self.width, n, L, plane, ndiff, i, data[i], ref[i], span),
                          {'mode': self.tag, 'op': 'read', 'L': L, 'n': n, 'plane': plane, 'first_index': i})
            self.violations += 1
            return False
        return True

    def count_span(self, span, L, n, rw):
        res, lay = self.res, self.layout
        if rw == 'read':
            if span == 'bank-crossing':
                res.count('bank_crossing_blocks_read')
            elif span == 'page-crossing':
                res.count('page_crossing_blocks_read')
                if lay.family in ('packed', 'tandy6'):
                    res.count('bank_crossing_blocks_read')
            elif span == 'bank-tail':
                res.count('tail_blocks_read')
            elif span == 'row-crossing':
                res.count('row_crossing_blocks_read')
        else:
            if span == 'bank-crossing':
                res.count('bank_crossing_blocks_written')
            elif span == 'page-crossing':
                res.count('page_crossing_blocks_written')
                if lay.family in ('packed', 'tandy6'):
                    res.count('bank_crossing_blocks_written')
            elif span == 'bank-tail':
                res.count('tail_blocks_written')
        if L % lay.row_bytes and n > 1:
            res.count('mid_row_start_blocks')

    # -- block writes ----------------------------------------------------------------------------
    def write_block_check(self, L, data, mask, rng=None):
        """BLOAD on twin A vs POKEs on twin B. Returns False if they diverged (twins must be rebuilt)."""
        res, lay = self.res, self.layout
        A, B = self.boxes
        n = len(data)
        seg, off = self.addr(L, n, rng)
        with open(A.path('L.BIN'), 'wb') as f:
            f.write(vm.bsave_file(seg, off, data, self.tandy))
        for box in (A, B):
            self.defseg(box, seg)
            if mask is not None:
                self.set_mask(box, mask)
        self.ex(A, b'BLOAD "L.BIN",%d' % off, 'BLOAD')
        for i in range(0, n, 16):
            self.ex(B, b':'.join(self.poke_stmt(off + j, data[j]) for j in range(i, min(n, i + 16))), 'POKE')
        if mask is not None:
            for box in (A, B):
                self.set_mask(box, 15)
        span = lay.span_class(L, n)
        self.count_span(span, L, n, 'write')
        res.case((self.adapter, self.scr, self.width, 'wr', L, n, mask, bytes(data[:8])), nontrivial=len(set(data)) > 1)
        sa, sb = self.snaps()
        self.check_range(sa, 'BLOAD', L, n)
        if sa.same(sb):
            return True
        d = sa.first_diff(sb)
        rel = 'outside-block'
        if d[0] == 'pixel' and not lay.is_text:
            offs = lay.offset_of(d[1], d[2], d[3])
        elif d[0] == 'cell' and lay.is_text:
            offs = lay.offset_of_cell(d[1], d[2], d[3])
        else:
            offs = []
        inside = [o for o in offs if L <= o < L + n]
        if inside:
            rel = lay.relation(L, inside[0])
        elif not offs:
            rel = 'secondary-buffer'
        key = 'block-vs-byte:%s:write' % rel + ('' if self.fam == 'packed' else ':' + self.fam)
        res.violation(key, '%s SCREEN %d width %d: BLOAD of %d bytes at linear offset &H%X (mask %r) leaves a different '
                      'screen than the same bytes POKEd singly; first difference at %r (memory offset(s) %r); block spans: %s' % (
                          self.adapter, self.scr, self.width, n, L, mask, d, [hex(o) for o in offs], span),
                      {'mode': self.tag, 'op': 'write', 'L': L, 'data': bytes(data), 'mask': mask})
        self.violations += 1
        return False

    def check_range(self, snap, what, L, n):
        if self.layout.is_text:
            return
        for p, b in enumerate(snap.pix):
            m = max(b)
            if m >= self.nattr:
                self.res.violation('write:pixel-attribute-out-of-range:%s' % self.fam,
                                   '%s SCREEN %d: after %s at linear offset &H%X a pixel of page %d holds attribute %d in a mode '
                                   'with %d attributes' % (self.adapter, self.scr, what, L, p, m, self.nattr),
                                   {'mode': self.tag, 'op': what, 'L': L, 'n': n})
                self.violations += 1
                return

    # -- encoder: PEEK ----------------------------------------------------------------------------
    def peek_check(self, box, snap, L, plane):
        res, lay = self.res, self.layout
        loc = lay.locate(L)
        if loc is None or loc.page >= self.reach:
            return
        exp = lay.expected(snap, L, plane) if lay.family == 'planar' else lay.expected(snap, L)
        got = self.peek(box, L)
        res.count('peek_encoding_checked')
        res.case((self.adapter, self.scr, self.width, 'pk', L, plane), nontrivial=exp not in (0, 32, 7))
        if got != exp:
            res.violation('peek:encoding:%s' % self.fam,
                          '%s SCREEN %d width %d: PEEK at linear offset &H%X (plane %r) = %d, the layout prescribes %d for %r' % (
                              self.adapter, self.scr, self.width, L, plane, got, exp, loc),
                          {'mode': self.tag, 'op': 'peek', 'L': L, 'plane': plane})
            self.violations += 1

    def cross_check_buffers(self, box, snap, rng):
        """The buffers inspected read-only are what BASIC itself sees (POINT / SCREEN()) on the active page 0."""
        lay = self.layout
        for _ in range(12):
            if lay.is_text:
                r, c = rng.randrange(25), rng.randrange(self.width)
                ch = self.ev(box, b'SCREEN(%d,%d)' % (r + 1, c + 1))
                at = self.ev(box, b'SCREEN(%d,%d,1)' % (r + 1, c + 1))
                if ch != snap.char(0, r, c) or at != snap.attr(0, r, c):
                    raise Abort('page buffers disagree with SCREEN()')
            else:
                x, y = rng.randrange(lay.width), rng.randrange(lay.height)
                pt = self.ev(box, b'POINT(%d,%d)' % (x, y))
                if pt != snap.pixel(0, y, x):
                    raise Abort('page buffers disagree with POINT()')
            self.res.count('buffer_crosschecks')

    # -- encoder: POKE ------------------------------------------------------------------------------
    def poke_check(self, box, L, v, mask, rng, before=None):
        """Returns the snapshot after the POKE (the next call's `before`)."""
        res, lay = self.res, self.layout
        loc = lay.locate(L)
        if loc is None or loc.page >= self.reach:
            return before
        if before is None:
            before = Snap(box.impl, lay.is_text)
        old = None
        if lay.family != 'planar':
            old = lay.expected(before, L)
        seg, off = self.addr(L, 1, rng)
        self.defseg(box, seg)
        if mask is not None:
            self.set_mask(box, mask)
        self.ex(box, self.poke_stmt(off, v), 'POKE')
        if mask is not None:
            self.set_mask(box, 15)
        after = Snap(box.impl, lay.is_text)
        res.count('poke_checked')
        res.case((self.adapter, self.scr, self.width, 'po', L, v, mask), nontrivial=(old is None or old != v))
        case = {'mode': self.tag, 'op': 'poke', 'L': L, 'v': v, 'mask': mask}
        where = '%s SCREEN %d width %d: POKE linear offset &H%X,%d (mask %r)' % (self.adapter, self.scr, self.width, L, v, mask)
        modelled = not (lay.family == 'planar' and lay.planes is None)
        # 1. read back
        if lay.family == 'planar':
            if modelled:
                for p in range(4):
                    self.set_read_plane(box, p)
                    got = self.peek(box, L)
                    exp = v if (mask >> p) & 1 else lay.expected(before, L, p)
                    if got != exp:
                        res.violation('poke:readback:planar', '%s: PEEK on plane %d = %d, expected %d (%s)' % (
                            where, p, got, exp, 'written plane' if (mask >> p) & 1 else 'plane not in the map mask'), case)
                        self.violations += 1
                        break
                    res.count('planes_exercised')
                self.set_read_plane(box, 0)
        else:
            got = self.peek(box, L)
            if got != v:
                res.violation('poke:readback:%s' % self.fam, '%s: PEEK returns %d' % (where, got), case)
                self.violations += 1
        # 2. effect + frame over all pages
        if lay.is_text:
            exp_chars = [[list(r) for r in pg] for pg in before.chars]
            exp_attrs = [[list(r) for r in pg] for pg in before.attrs]
            if loc.kind == 'char':
                exp_chars[loc.page][loc.row][loc.col] = bytes([v])
            else:
                exp_attrs[loc.page][loc.row][loc.col] = v
            got_chars = [[list(r) for r in pg] for pg in after.chars]
            if got_chars != exp_chars or after.attrs != exp_attrs:
                cell_ok = (ord(after.chars[loc.page][loc.row][loc.col]) == ord(exp_chars[loc.page][loc.row][loc.col])
                           and after.attrs[loc.page][loc.row][loc.col] == exp_attrs[loc.page][loc.row][loc.col])
                res.violation('poke:%s:text' % ('frame' if cell_ok else 'effect'),
                              '%s: %s' % (where, 'a cell other than page %d row %d col %d changed' % (loc.page, loc.row, loc.col)
                                          if cell_ok else 'the covered cell holds %r/%r' % (
                                              after.chars[loc.page][loc.row][loc.col], after.attrs[loc.page][loc.row][loc.col])), case)
                self.violations += 1
            # pixel rendering of other cells / other pages untouched
            fw, fh = before.pw // self.width, before.ph // 25
            for p in range(len(before.pix)):
                if before.pix[p] == after.pix[p]:
                    continue
                bad = p != loc.page
                if not bad:
                    for y in range(before.ph):
                        ra, rb = before.pix[p][y * before.pw:(y + 1) * before.pw], after.pix[p][y * before.pw:(y + 1) * before.pw]
                        if ra != rb:
                            x0, x1 = loc.col * fw, (loc.col + 1) * fw
                            if not (loc.row * fh <= y < (loc.row + 1) * fh) or ra[:x0] != rb[:x0] or ra[x1:] != rb[x1:]:
                                bad = True
                                break
                if bad:
                    res.violation('poke:frame:text-pixels', '%s: rendered pixels outside the covered cell changed (page %d)' % (where, p), case)
                    self.violations += 1
                    break
        else:
            exp_pix = {loc.page: bytearray(before.pix[loc.page])}
            covered = set()
            if modelled:
                for (pg, y, x), fn in (lay.poke_effect(L, v, mask) if lay.family == 'planar' else lay.poke_effect(L, v)):
                    exp_pix[pg][y * before.pw + x] = fn(before.pixel(pg, y, x))
                    covered.add((pg, y, x))
            else:
                for i in range(loc.npix):
                    covered.add((loc.page, loc.y, loc.x0 + i))
                    # unmodelled: accept whatever the covered pixels became
                    exp_pix[loc.page][loc.y * before.pw + loc.x0 + i] = after.pixel(loc.page, loc.y, loc.x0 + i)
            for p in range(len(after.pix)):
                ep = exp_pix.get(p, before.pix[p])
                if ep != after.pix[p]:
                    exp_pix[p] = ep
                    i = next(i for i in range(len(after.pix[p])) if ep[i] != after.pix[p][i])
                    y, x = divmod(i, before.pw)
                    if (p, y, x) in covered:
                        res.violation('poke:effect:%s' % self.fam, '%s: covered pixel page %d (%d,%d) is %d, layout prescribes %d (was %d)' % (
                            where, p, x, y, after.pix[p][i], exp_pix[p][i], before.pix[p][i]), case)
                    else:
                        res.violation('poke:frame:%s' % self.fam, '%s: pixel page %d (%d,%d) outside the covered pixels %r changed %d -> %d' % (
                            where, p, x, y, loc, before.pix[p][i], after.pix[p][i]), case)
                    self.violations += 1
                    break
            self.check_range(after, 'POKE', L, 1)
        return after

    # -- round trip ------------------------------------------------------------------------------------
    def roundtrip(self, box, page):
        """BSAVE a whole page (every plane), wipe it with ordinary statements, BLOAD it back: same picture."""
        res, lay = self.res, self.layout
        before = Snap(box.impl, lay.is_text)
        L, n = page * lay.page_size, lay.page_size
        planes = [None] if lay.family != 'planar' else [0, 1, 2, 3]
        blobs = []
        for p in planes:
            if p is not None:
                self.set_read_plane(box, p)
            blobs.append(self.bsave(box, L, n))
        if self.npages > 1:
            self.ex(box, b'SCREEN ,,%d,0' % page)
        if lay.is_text:
            self.ex(box, b'COLOR 7,0:CLS')
        else:
            self.ex(box, b'LINE(0,0)-(%d,%d),0,BF' % (lay.width - 1, lay.height - 1))
        if self.npages > 1:
            self.ex(box, b'SCREEN ,,0,0')
        wiped = Snap(box.impl, lay.is_text)
        if wiped.pix[page] == before.pix[page] and wiped.chars[page] == before.chars[page]:
            raise Abort('wipe had no effect')
        seg, off = self.addr(L, n)
        self.defseg(box, seg)
        for p, data in zip(planes, blobs):
            if p is not None:
                self.set_mask(box, 1 << p)
            with open(box.path('R.BIN'), 'wb') as f:
                f.write(vm.bsave_file(seg, off, data, self.tandy))
            self.ex(box, b'BLOAD "R.BIN",%d' % off, 'BLOAD')
        if lay.family == 'planar':
            self.set_mask(box, 15)
            self.set_read_plane(box, 0)
        after = Snap(box.impl, lay.is_text)
        res.count('roundtrips')
        res.case((self.adapter, self.scr, self.width, 'rt', page))
        same = after.pix[page] == before.pix[page] if not lay.is_text else (
            after.chars[page] == before.chars[page] and after.attrs[page] == before.attrs[page])
        others = all(after.pix[q] == before.pix[q] for q in range(len(before.pix)) if q != page)
        if not same or not others:
            d = before.first_diff(after)
            res.violation('roundtrip:save-wipe-restore:%s' % self.fam,
                          '%s SCREEN %d width %d: BSAVE of page %d%s, wipe, BLOAD does not restore the screen; first difference %r '
                          '(before %r, after %r)' % (self.adapter, self.scr, self.width, page,
                                                     ' (planes 0-3 via read-map / map-mask)' if lay.family == 'planar' else '', d,
                                                     before.pixel(d[1], d[2], d[3]) if d and d[0] == 'pixel' else None,
                                                     after.pixel(d[1], d[2], d[3]) if d and d[0] == 'pixel' else None),
                          {'mode': self.tag, 'op': 'roundtrip', 'page': page})
            self.violations += 1
            return False
        return True


# ---------------------------------------------------------------------------------------
# workload of one mode

def directed_blocks(mode):
    """Seed-independent boundary table: short and long blocks around every landmark of page 0 and 1."""
    lay = mode.layout
    out = []
    for pg in range(min(2, mode.reach)):
        for lm in lay.landmarks():
            for (back, n) in ((3, 7), (256, 600), (0, 1), (1, 2)):
                L = pg * lay.page_size + lm - back
                if L < 0 or L + n > mode.space:
                    continue
                out.append((L, n))
    # D10 shape: start mid-bank, cross the bank end
    if lay.family in ('packed', 'tandy6'):
        for k in range(1, lay.banks + 1):
            L = k * lay.bank_size - 0x100
            if L + 600 <= mode.space:
                out.append((L, 600))
    seen, res = set(), []
    for b in out:
        if b not in seen:
            seen.add(b)
            res.append(b)
    return res


def random_block(mode, rng, maxlen=700):
    lay = mode.layout
    r = rng.random()
    if r < 0.55:
        lm = rng.choice(lay.landmarks()) + rng.randrange(mode.reach) * lay.page_size
        n = rng.choice([rng.randint(1, 8), rng.randint(2, 200), rng.randint(100, maxlen)])
        L = lm - rng.randint(0, n)
    elif r < 0.8:
        # straddle a row boundary somewhere
        row = rng.randrange(1, max(2, mode.space // lay.row_bytes))
        n = rng.randint(2, 3 * lay.row_bytes)
        L = row * lay.row_bytes - rng.randint(0, n)
    else:
        n = rng.randint(1, maxlen)
        L = rng.randrange(mode.space)
    L = max(0, min(L, mode.space - 1))
    n = max(1, min(n, mode.space - L))
    return L, n


def run_mode(harness, res, rng, adapter, scr, width, tier):
    layout = vm.layouts_for(adapter)[(scr, width)]
    mode = Mode(harness, res, adapter, scr, width, layout)
    npeek, nrb, nwb, npoke, nbig = SIZES[tier]
    planar = layout.family == 'planar'
    try:
        if not mode.open():
            res.count('modes_rejected_by_session')
            return
        snap = mode.fill(rng)
        A, B = mode.boxes
        res.count('modes_covered')
        res.count('pages_reachable', mode.reach)
        res.sample({'mode': mode.tag, 'family': layout.family, 'pages_accepted': mode.npages, 'pages_addressed': mode.reach,
                    'segment': hex(layout.segment), 'page_size': layout.page_size})
        mode.cross_check_buffers(A, snap, rng)
        planes = [0, 1, 2, 3] if planar else [None]
        modelled = not (planar and layout.planes is None)
        # ---- (b) PEEK encoder sweep
        if modelled:
            for plane in planes:
                if plane is not None:
                    mode.set_read_plane(A, plane)
                    res.count('planes_exercised')
                for lm in layout.landmarks():
                    for d in (-1, 0, 1):
                        if 0 <= lm + d < mode.space:
                            mode.peek_check(A, snap, lm + d, plane)
                for _ in range(npeek // len(planes)):
                    mode.peek_check(A, snap, rng.randrange(mode.space), plane)
        # ---- (a) block reads: directed + random, per plane
        dblocks = directed_blocks(mode)
        for plane in planes:
            cache = {}
            if plane is not None:
                mode.set_read_plane(A, plane)
            blocks = (dblocks if plane in (None, 0) else dblocks[::3]) + [random_block(mode, rng) for _ in range(nrb // len(planes))]
            for (L, n) in blocks:
                mode.read_block_check(A, L, n, plane, cache, rng)
                if mode.violations > 40:
                    break
            # a few big ones: whole bank + a bit, whole page + a bit
            if plane in (None, 0):
                for _ in range(nbig):
                    n = min(mode.space, rng.choice([0x2000 + rng.randint(1, 300), layout.page_size + rng.randint(1, 300),
                                                    rng.randint(700, 5000)]))
                    L = rng.randrange(0, mode.space - n + 1)
                    mode.read_block_check(A, L, n, plane, cache, rng)
        if planar:
            mode.set_read_plane(A, 0)
        # ---- (a) block writes on the twins
        wblocks = dblocks[::2] + [random_block(mode, rng, 300) for _ in range(nwb)]
        rebuilds = 0
        for (L, n) in wblocks:
            n = min(n, 400)
            data = bytes(rng.randrange(256) for _ in range(n))
            mask = rng.choice([1, 2, 4, 8, 15, 15, rng.randint(1, 15)]) if planar else None
            ok = mode.write_block_check(L, data, mask, rng)
            if not ok:
                rebuilds += 1
                if rebuilds > 6:
                    res.count('write_diff_abandoned_after_repeated_violation')
                    break
                mode.close()
                mode.seg_now = {}
                if not mode.open():
                    raise Abort('cannot reopen mode')
                mode.fill(rng)
                A, B = mode.boxes
        # ---- round trip of a page
        mode.roundtrip(A, 0)
        if mode.reach > 1:
            mode.roundtrip(A, mode.reach - 1)
        # ---- (b) POKE encoder with frame condition (twin A only from here on)
        snap = Snap(A.impl, layout.is_text)
        cand = [lm + d for lm in layout.landmarks() for d in (-1, 0)]
        cand = [c + pg * layout.page_size for pg in sorted(set([0, mode.reach - 1])) for c in cand]
        cand = [c for c in cand if 0 <= c < mode.space]
        for i in range(npoke):
            L = cand[i] if i < len(cand) else rng.randrange(mode.space)
            v = rng.choice([0, 255, 0x55, 0xAA, rng.randrange(256), rng.randrange(256)])
            mask = rng.choice([1, 2, 4, 8, 15, rng.randint(1, 15)]) if planar else None
            snap = mode.poke_check(A, L, v, mask, rng, snap)
            if mode.violations > 60:
                break
        # ---- after the POKEs: encoder + differential once more on the modified content
        snap = Snap(A.impl, layout.is_text)
        for plane in planes:
            cache = {}
            if plane is not None:
                mode.set_read_plane(A, plane)
            if modelled:
                for _ in range(max(20, npeek // (4 * len(planes)))):
                    mode.peek_check(A, snap, rng.randrange(mode.space), plane)
            for _ in range(max(3, nrb // (4 * len(planes)))):
                L, n = random_block(mode, rng)
                mode.read_block_check(A, L, n, plane, cache, rng)
    except Abort as e:
        if e.args and e.args[0]:
            res.inconclusive('C34 %s SCREEN %d width %d: %s' % (adapter, scr, width, e.args[0]))
    finally:
        mode.close()
    if planar:
        register_defaults_check(harness, res, rng, adapter, scr, width)


def register_defaults_check(harness, res, rng, adapter, scr, width):
    """
    EGA/VGA plane registers: whenever a mode is (re)entered - by a mode change in the same session or by a new
    session in the same process - video memory is accessed with the documented defaults (read map 0, all planes
    written), whatever was programmed before or elsewhere; and one session's registers do not act on another's.
    Model-free: behaviour with untouched registers == behaviour after programming the defaults explicitly;
    plus the plane-0 encoder where the layout is modelled.
    """
    layout = vm.layouts_for(adapter)[(scr, width)]
    mode = Mode(harness, res, adapter, scr, width, layout)
    nattr = 16 if layout.planes else 4
    W, H = layout.width, layout.height
    enter = b'SCREEN %d' % scr
    boxes = []

    def new_box():
        b = harness.Box(**ADAPTERS[adapter])
        boxes.append(b)
        mode.ex(b, enter)
        return b

    def draw(b):
        r2 = random.Random('C34:regs:%s:%d' % (adapter, scr))
        for i in range(14):
            x, y = r2.randrange(W - 40), r2.randrange(H - 30)
            mode.ex(b, b'LINE(%d,%d)-(%d,%d),%d,BF' % (x, y, x + r2.randint(9, W // 3), y + r2.randint(4, H // 4), 1 + i % (nattr - 1)))
        # the cell used by the write test: 8 pixels of a colour with some plane bits set and some clear
        mode.ex(b, b'LINE(0,0)-(15,3),%d,BF' % (5 if nattr == 16 else 1))

    offs = sorted(set([layout.row_bytes * r2 + c for r2 in range(5, H, max(1, H // 23)) for c in (1, layout.row_bytes // 3, layout.row_bytes - 2)]))

    def peeks(b):
        mode.defseg(b, layout.segment)
        return [mode.ev(b, b'PEEK(%d)' % o) for o in offs]

    def points(b):
        return [mode.ev(b, b'POINT(%d,1)' % x) for x in range(8)]

    def check_defaults(b, scenario, p, m):
        case = {'mode': mode.tag, 'op': 'register-defaults', 'scenario': scenario, 'read_plane_programmed_before': p, 'map_mask_programmed_before': m}
        res.case((adapter, scr, 'regs', scenario, p, m))
        res.count('register_default_checks')
        draw(b)
        untouched = peeks(b)
        if layout.planes:
            snap = Snap(b.impl, False)
            exp = [layout.expected(snap, o, 0) for o in offs]
            if untouched != exp:
                i = next(i for i in range(len(offs)) if untouched[i] != exp[i])
                res.violation('planes:read-plane-not-reset:after-%s' % scenario,
                              '%s SCREEN %d: %s (read map %d was programmed before): PEEK at offset &H%X with untouched registers = %d, plane 0 holds %d' % (
                                  adapter, scr, scenario, p, offs[i], untouched[i], exp[i]), case)
                return
        mode.set_read_plane(b, 0)
        explicit = peeks(b)
        if untouched != explicit:
            i = next(i for i in range(len(offs)) if untouched[i] != explicit[i])
            res.violation('planes:read-plane-not-reset:after-%s' % scenario,
                          '%s SCREEN %d: %s (read map %d was programmed before): PEEK at offset &H%X = %d with untouched registers but %d after OUT &H3CF,0' % (
                              adapter, scr, scenario, p, offs[i], untouched[i], explicit[i]), case)
            return
        if len(set(untouched)) < 2:
            # e.g. a monochrome EGA mode whose default read map addresses an unused plane: still a valid comparison
            res.count('register_checks_where_default_plane_reads_blank')
        # write side: POKE with untouched registers == POKE after programming "all planes"
        mode.defseg(b, layout.segment)
        mode.ex(b, b'POKE %d,255' % layout.row_bytes)          # row y=1, pixels 0..7
        p1 = points(b)
        mode.set_mask(b, 15)
        mode.ex(b, b'LINE(0,0)-(15,3),%d,BF' % (5 if nattr == 16 else 1))
        mode.ex(b, b'POKE %d,255' % layout.row_bytes)
        p2 = points(b)
        if p1 != p2 or (layout.planes and p1 != [15] * 8):
            res.violation('planes:write-mask-not-reset:after-%s' % scenario,
                          '%s SCREEN %d: %s (map mask %d was programmed before): POKE 255 with untouched registers gives pixels %r, with all planes enabled %r' % (
                              adapter, scr, scenario, m, p1, p2), case)

    try:
        for p, m in ((rng.choice([1, 2, 3]), rng.choice([1, 2, 4, 8])), (3, 2), (1, 8)):
            # (1) leave the mode and come back
            x = new_box()
            mode.set_read_plane(x, p)
            mode.set_mask(x, m)
            mode.ex(x, b'SCREEN 0')
            mode.ex(x, enter)
            check_defaults(x, 'mode-change', p, m)
            # (2) a new session in the same process while another one has the registers programmed
            mode.set_read_plane(x, p)
            mode.set_mask(x, m)
            y = new_box()
            check_defaults(y, 'new-session', p, m)
            # (3) one session's registers do not act on another session
            z = new_box()
            draw(z)
            before = peeks(z)
            mode.set_read_plane(x, (p % 3) + 1)
            mode.set_mask(x, m)
            after = peeks(z)
            res.case((adapter, scr, 'regs', 'isolation', p, m))
            if before != after:
                res.violation('planes:register-state-shared-between-sessions',
                              '%s SCREEN %d: OUT &H3CF in one session changed what PEEK returns in another session of the same process' % (adapter, scr),
                              {'mode': mode.tag, 'op': 'register-isolation'})
            for b in boxes:
                b.close()
            del boxes[:]
            mode.seg_now = {}
    except Abort as e:
        if e.args and e.args[0]:
            res.inconclusive('C34 %s SCREEN %d register defaults: %s' % (adapter, scr, e.args[0]))
    finally:
        for b in boxes:
            b.close()


def directed(harness, res):
    """Seed-independent reproducers."""
    # D10: SCREEN 1, block read at 0x1F00 length 600 vs byte reads
    layout = vm.layouts_for('cga')[(1, 40)]
    mode = Mode(harness, res, 'cga', 1, 40, layout)
    try:
        if not mode.open():
            res.inconclusive('C34 directed: CGA SCREEN 1 rejected')
            return
        rng = random.Random('C34:directed')
        mode.fill(rng)
        A, B = mode.boxes
        res.count('modes_covered')
        mode.read_block_check(A, 0x1F00, 600, None, {}, directed=True)
        mode.read_block_check(A, 0x3F00, 600, None, {}, directed=True)       # page 0 bank 1 -> page 1
        mode.read_block_check(A, 0x1F00 - 37, 600, None, {}, directed=True)  # mid-row start
        data = bytes((i * 7 + 3) & 0xff for i in range(600))
        mode.write_block_check(0x1F00, data, None)
    except Abort as e:
        if e.args and e.args[0]:
            res.inconclusive('C34 directed: %s' % e.args[0])
    finally:
        mode.close()
    # plane registers are back at their defaults after a mode change / in a new session
    for adapter, scr, width in (('ega', 9, 80), ('vga', 7, 40), ('egamono', 10, 80), ('ega64k', 9, 80)):
        register_defaults_check(harness, res, random.Random('C34:directed:regs'), adapter, scr, width)
    # the same shape in a four-bank mode (PCjr SCREEN 5) and Tandy SCREEN 6
    for adapter, scr, width in (('pcjr', 5, 40), ('tandy', 6, 80), ('hercules', 3, 80)):
        layout = vm.layouts_for(adapter)[(scr, width)]
        mode = Mode(harness, res, adapter, scr, width, layout)
        try:
            if not mode.open():
                res.count('modes_rejected_by_session')
                continue
            rng = random.Random('C34:directed:%s' % adapter)
            mode.fill(rng)
            A, B = mode.boxes
            res.count('modes_covered')
            for k in range(1, 4):
                mode.read_block_check(A, k * 0x2000 - 0x100, 600, None, {}, directed=True)
            mode.read_block_check(A, 0x2000 - 0x101, 601, None, {}, directed=True)   # odd start
        except Abort as e:
            if e.args and e.args[0]:
                res.inconclusive('C34 directed %s: %s' % (adapter, e.args[0]))
        finally:
            mode.close()


def run_shard(spec, res):
    from .. import harness
    kind = spec['kind']
    rng = random.Random('%s:C34:%s:%s' % (spec['seed'], kind, spec.get('part', 0)))
    if kind == 'directed':
        return directed(harness, res)
    if kind == 'modes':
        for adapter, scr, width in spec['combos']:
            # one generator per mode, drawn unconditionally: later modes do not depend on earlier verdicts
            run_mode(harness, res, random.Random(rng.getrandbits(64)), adapter, scr, width, spec['tier'])
        return
    raise ValueError(kind)
