"""
C07 Decimal conversion is accurate in both directions.

Oracle (R-NUM + vf/models/c07_dectext.py, written from the number format and the manual):
  print : the shown bytes are parsed as an exact rational and compared with decode(value bytes):
          |shown - stored| < one unit of the last digit shown, <= 7 / 16 significant digits,
          whole numbers below 10^7 / 10^16 shown exactly, integers exactly.
  read  : decode(result bytes) is compared with the exact decimal value of the text:
          |stored - decimal| < one unit in the last binary place of the result type, and the result
          type follows sigil / exponent letter / digit count.

Paths: API volume (Float.to_str in its PRINT, WRITE and LIST forms; Values.from_repr in its VAL and
literal forms) and the BASIC level in a real session: PRINT, WRITE, STR$, PRINT#/WRITE# into a file,
LIST of a stored literal; program literal, VAL, INPUT (keys typed through the input queue), READ/DATA.
"""
import random
from fractions import Fraction

from ..models import rnum
from ..models import c07_dectext as dt
from ..gen import c07_gen as gen

META = {
    'property_id': 'C07',
    'technique': 'reference-model monitor: exact rational arithmetic on shown text and stored bytes, API volume + BASIC-level paths',
    'level': 'exploration',
    'level_text': (
        'Runtime oracle on the real conversion code. Every shown number is re-read as an exact fraction and compared '
        'with the exact value of the stored MBF bytes (error < 1 unit of the last shown digit, digit count, exact whole '
        'numbers); every stored result of reading decimal text is decoded exactly and compared with the exact decimal '
        'value (error < 1 unit in the last binary place, type rule). A seed-independent boundary table (every exponent '
        'byte x extreme mantissas, all powers of ten +-3 ulp, digit-count and integer limits, zero spellings, long '
        'mantissas) runs in both tiers; the rest is seeded sampling of 2^32 / 2^64 patterns and of decimal texts.'),
    'level_note': (
        'Trusted: Python Fraction arithmetic, the MBF format definition in rnum.decode, the harness. Not pinned by the '
        'statement and therefore accepted either way: type when trailing zeros decide the 7/8-digit count, type of an '
        'E-form with 8+ digits, integer-vs-single for signed or blank-interrupted digit strings, % suffix, texts whose '
        'value lies beyond the largest magnitude of the type (Overflow region is counted, not judged), results below '
        'the smallest magnitude (zero or the smallest binade accepted). Significant digits are counted leniently (from '
        'first to last non-zero digit). At the BASIC level the type of a read number is observed only through a '
        'double-precision variable (single = low four bytes zero).'),
    'rule': ('case = (path, exact bytes) for printing, (path, text) for reading; distinct by that pair; every case is '
             'non-trivial (a different bit pattern or text reaching the conversion code)'),
    'design_ref': 'DESIGN.md section 4 C07',
    'assumptions': ['Fraction arithmetic as reference', 'MBF layout: exponent byte bias 128, hidden leading mantissa bit'],
    'require_counters': {'any': [
        'print_sci_seen', 'print_fixed_seen', 'print_whole_seen', 'print_full_digits_seen',
        'read_integer_seen', 'read_single_seen', 'read_double_seen', 'read_beyond_range_seen',
        'path_PRINT', 'path_WRITE', 'path_STR$', 'path_LIST', 'path_literal', 'path_VAL', 'path_INPUT', 'path_READ',
    ]},
    'timeout': {'quick': 900, 'thorough': 10800},
}

TYPE = {2: 'integer', 4: 'single', 8: 'double'}
MODES = (('PRINT', True, False), ('WRITE', False, False), ('LIST', False, True))


def plan(tier, seed):
    shards = [{'kind': 'print_directed'}, {'kind': 'read_directed'}]
    if tier == 'quick':
        for i in range(4):
            shards.append({'kind': 'print_api', 'n': 38000, 'part': i})
        for i in range(6):
            shards.append({'kind': 'read_api', 'n': 28000, 'part': i})
        for i in range(3):
            shards.append({'kind': 'print_basic', 'n': 2200, 'part': i})
        for i in range(3):
            shards.append({'kind': 'read_basic', 'n': 1000, 'part': i})
    else:
        for i in range(16):
            shards.append({'kind': 'print_api', 'n': 190000, 'part': i})
        for i in range(24):
            shards.append({'kind': 'read_api', 'n': 125000, 'part': i})
        for i in range(12):
            shards.append({'kind': 'print_basic', 'n': 16000, 'part': i})
        for i in range(12):
            shards.append({'kind': 'read_basic', 'n': 7000, 'part': i})
    return shards


def run_shard(spec, res):
    kind = spec['kind']
    rng = random.Random('%s:C07:%s:%s' % (spec['seed'], kind, spec.get('part', 0)))
    if kind == 'print_directed':
        pats = gen.print_directed()
        _print_api(res, pats)
        _print_basic(res, pats[::7], rng)
    elif kind == 'read_directed':
        _read_api(res, gen.PARSE_DIRECTED)
        _read_basic(res, [t for t in gen.PARSE_DIRECTED], rng)
    elif kind == 'print_api':
        _print_api(res, (gen.pattern(rng) for _ in range(spec['n'])))
    elif kind == 'read_api':
        _read_api(res, (gen.literal(rng) for _ in range(spec['n'])))
    elif kind == 'print_basic':
        _print_basic(res, [gen.pattern(rng) for _ in range(spec['n'])], rng)
    elif kind == 'read_basic':
        _read_basic(res, [gen.literal(rng, blanks=(i % 4 == 0)) for i in range(spec['n'])], rng)
    else:
        raise ValueError(kind)


# ------------------------------------------------------------------------------------------------
# print direction

def _judge_shown(res, path, text, b, leading_space, type_sign):
    """Apply the print oracle to one shown text; returns the parsed Shown (or None)."""
    n = len(b)
    value = rnum.decode(b)
    bad, s = dt.check_shown(text, n, value, leading_space, type_sign)
    if s is not None and n != 2:
        f = s.form()
        res.count('print_sci_seen' if f == 'sci' else ('print_fixed_seen' if f == 'fixed' else 'print_whole_seen'))
        if s.sig == dt.SIG[n]:
            res.count('print_full_digits_seen')
        if value != 0 and not bad:
            # largest error among the conforming cases, in millionths of a unit of the last shown digit
            res.maxc('max_print_error_ppm_of_last_digit', int(abs(s.value - value) / s.unit * 1000000))
    for suffix, msg in bad:
        key = 'print:%s:%s' % (TYPE[n], suffix)
        if suffix.startswith('error>='):
            key += ':' + dt.magnitude_band(value)
        res.violation(key,
                      '%s of %s bytes %s: %s' % (path, TYPE[n], b.hex(), msg), [path, b.hex(), text])
    return s


def _print_api(res, patterns):
    from .. import numapi
    first = True
    for b in patterns:
        x = numapi.num(b)
        for path, ls, ts in MODES:
            try:
                text = bytes(x.to_str(ls, ts))
            except Exception as e:
                res.violation('internal:%s@to_str' % type(e).__name__, 'to_str(%s) of %s: %r' % (path, b.hex(), e),
                              [path, b.hex()])
                continue
            _judge_shown(res, 'to_str/' + path, text, b, ls, ts)
            res.case((path, b))
            if first:
                res.sample({'kind': 'print_api', 'bytes': b.hex(), 'form': path, 'shown': text,
                            'exact_value': str(rnum.decode(b))})
                first = False
        res.count('print_api_patterns')


def _print_basic(res, patterns, rng):
    """PRINT / WRITE / STR$ on the screen, PRINT# / WRITE# into a file, for exact bit patterns planted through CVx."""
    from .. import harness
    VAR = {2: (b'A%', b'CVI'), 4: (b'A!', b'CVS'), 8: (b'A#', b'CVD')}
    with harness.Box() as box:
        filed = []
        box.ex(b'OPEN "O",1,"NUM.TXT"')
        sampled = 0
        for b in patterns:
            var, cv = VAR[len(b)]
            try:
                box.set('B$', b)
                out = box.ex(var + b'=' + cv + b'(B$):PRINT ' + var + b':WRITE ' + var + b':PRINT STR$(' + var +
                             b');"|":PRINT#1,' + var + b':WRITE#1,' + var)
                back = box.ev(b'MK' + cv[2:3] + b'$(' + var + b')')
            except harness.Internal as e:
                res.violation(e.key, str(e), ['print_basic', b.hex()])
                continue
            if back != b:
                # planting failed (not a conversion matter): the case cannot be judged
                res.count('print_basic_plant_failed')
                continue
            lines = out.split(b'\r\n')
            if harness.err_of(out)[0] or len(lines) != 4 or lines[3] != b'' or not lines[2].endswith(b'|') \
                    or not lines[0].endswith(b' '):
                res.violation('print:basic:unexpected-output', 'showing %s gave %r' % (b.hex(), out), ['print_basic', b.hex()])
                continue
            _judge_shown(res, 'PRINT', lines[0][:-1], b, True, False)
            _judge_shown(res, 'WRITE', lines[1], b, False, False)
            _judge_shown(res, 'STR$', lines[2][:-1], b, True, False)
            res.count('path_PRINT')
            res.count('path_WRITE')
            res.count('path_STR$')
            for p in ('PRINT', 'WRITE', 'STR$'):
                res.case(('basic', p, b))
            filed.append(b)
            if sampled < 2:
                sampled += 1
                res.sample({'kind': 'print_basic', 'bytes': b.hex(), 'output': out, 'exact_value': str(rnum.decode(b))})
        box.ex(b'CLOSE')
        try:
            with open(box.path('NUM.TXT'), 'rb') as f:
                data = f.read()
        except OSError:
            data = None
        if data is None:
            res.violation('print:basic:file-missing', 'PRINT#/WRITE# output file not found', [])
            return
        flines = data.split(b'\r\n')
        if flines and flines[-1] in (b'', b'\x1a'):
            flines.pop()
        if len(flines) != 2 * len(filed):
            res.violation('print:basic:file-line-count', 'expected %d lines in the file, found %d'
                          % (2 * len(filed), len(flines)), [])
            return
        for i, b in enumerate(filed):
            p, w = flines[2 * i], flines[2 * i + 1]
            if not p.endswith(b' '):
                res.violation('print:basic:unexpected-output', 'PRINT# of %s wrote %r' % (b.hex(), p), ['PRINT#', b.hex()])
            else:
                _judge_shown(res, 'PRINT#', p[:-1], b, True, False)
            _judge_shown(res, 'WRITE#', w, b, False, False)
            res.count('path_PRINT#')
            res.count('path_WRITE#')
            res.case(('basic', 'PRINT#', b))
            res.case(('basic', 'WRITE#', b))


# ------------------------------------------------------------------------------------------------
# reading direction

def _read_key(n, suffix, lit):
    """Mechanism key of a reading-direction deviation: type, what, mantissa class, scaling direction."""
    if n == 2:
        return 'read:integer:%s' % suffix
    bits = rnum.MANT_BITS[n]
    mant = 'mantissa>%dbit' % bits if abs(lit.mantissa) >= (1 << bits) else 'mantissa-fits'
    scale = 'scale-up' if lit.scale > 0 else ('scale-down' if lit.scale < 0 else 'unscaled')
    return 'read:%s:%s:%s:%s' % (TYPE[n], suffix, mant, scale)


def _judge_read(res, path, text, lit, n, got, check_type=True):
    if lit.value == 0 and got != 0:
        kind = 'positive' if lit.scale > 0 else ('negative' if lit.scale < 0 else 'no')
        res.violation('read:zero-mantissa-with-%s-exponent:nonzero-result' % kind,
                      '%s of %r stores %s = %.6g, not zero' % (path, text, TYPE[n], float(got)), [path, text])
        return
    bad = dt.check_read(lit, n, got)
    if bad is None:
        res.count('read_beyond_range_seen')
        return
    for suffix, msg in bad:
        if suffix == 'type' and not check_type:
            continue
        res.violation(_read_key(n, suffix, lit), '%s of %r -> %s: %s' % (path, text, TYPE[n], msg), [path, text])


def _read_api(res, texts):
    from .. import numapi
    V = numapi.VALUES
    first = True
    for text in texts:
        lit = dt.literal_info(text)
        if lit is None:
            res.count('read_text_outside_model')
            continue
        tb = text.encode('ascii')
        for path, allow in (('from_repr/VAL', True), ('from_repr/literal', False)):
            try:
                r = numapi.call(V.from_repr, tb, allow)
            except Exception as e:
                res.violation('internal:%s@from_repr' % type(e).__name__, 'from_repr(%r): %r' % (text, e), [path, text])
                continue
            res.case((path, text))
            if r[0] == 'err':
                ftypes = [n for n in sorted(lit.types) if n != 2]
                near_end = [n for n in ftypes if abs(lit.value) >= rnum.max_value(n) - rnum.ulp(n, rnum.max_value(n))]
                if r[1] == 6 and near_end:
                    # at or beyond the largest magnitude of an admissible type: not pinned
                    res.count('read_beyond_range_seen')
                    res.count('read_overflow_error_seen')
                else:
                    n = max(lit.types)
                    res.violation(_read_key(n, 'error-%d-on-readable-number' % r[1], lit),
                                  '%s of %r raises error %d' % (path, text, r[1]), [path, text])
                continue
            b = r[1]
            n = len(b)
            res.count('read_%s_seen' % TYPE[n])
            if len(lit.types) > 1:
                res.count('read_type_unpinned_seen')
            _judge_read(res, path, text, lit, n, rnum.decode(b))
            if first:
                res.sample({'kind': 'read_api', 'text': text, 'result_bytes': b.hex(), 'exact_decimal': str(lit.value),
                            'stored_value': str(rnum.decode(b)), 'admissible_types': sorted(lit.types)})
                first = False


def _basic_value(res, path, text, lit, b8):
    """
    A read number observed through a double variable (exact widening): single iff the low four bytes
    are zero. Judge value and type from that.
    """
    got = rnum.decode(b8)
    low_zero = b8[:4] == b'\0\0\0\0'
    types = lit.types
    if lit.value == 0 or types == {2}:
        n = min(types)
        if n == 2:
            # integer-valued in range: exact in every type
            if got != lit.value:
                res.violation('read:integer:integer-value', '%s of %r gives %s' % (path, text, got), [path, text])
            return
        _judge_read(res, path, text, lit, n, got, check_type=False)
        return
    if 8 not in types:
        if not low_zero:
            res.violation(_read_key(4, 'type', lit), '%s of %r holds more than single precision (%s)' % (path, text, b8.hex()),
                          [path, text])
            return
        n = 4
    elif types == {8}:
        n = 8
        bad = dt.check_read(lit, 8, got)
        if bad and low_zero and not dt.check_read(lit, 4, got):
            res.violation(_read_key(8, 'type', lit), '%s of %r was read with single precision only (%s)' % (path, text, b8.hex()),
                          [path, text])
            return
    else:
        n = 4 if low_zero else 8
    _judge_read(res, path, text, lit, n, got, check_type=False)


def _read_basic(res, texts, rng):
    """Program literal (+ LIST of it), VAL, INPUT, READ/DATA in a real session."""
    from .. import harness
    # typed input longer than the 15-key buffer: the session option that lifts the buffer limit is used
    with harness.Box(budget=200, check_keybuffer_full=False) as box:
        box.enter([b'20 READ R#', b'50 INPUT I#'])
        sampled = 0
        for text in texts:
            lit = dt.literal_info(text)
            if lit is None or lit.sigil == '%':
                continue
            # beyond the range of the type the text would get: Overflow region, not pinned
            nmax = max(lit.types)
            if abs(lit.value) >= rnum.max_value(4 if nmax < 8 else 8) * Fraction(99, 100):
                res.count('read_beyond_range_seen')
                continue
            tb = text.encode('ascii')
            compact = tb.replace(b' ', b'')
            has_blank = b' ' in tb.strip(b' ')
            # --- VAL (blanks allowed: the string is planted through the API) -------------------------
            try:
                box.set('S$', tb)
                out = box.ex(b'V#=VAL(S$)')
                vb = box.ev(b'MKD$(V#)')
            except harness.Internal as e:
                res.violation(e.key, str(e), ['VAL', text])
                continue
            if harness.err_of(out)[0] or out:
                res.violation('read:VAL:unexpected-output', 'V#=VAL(%r) printed %r' % (text, out), ['VAL', text])
            else:
                _basic_value(res, 'VAL', text, lit, vb)
                res.count('path_VAL')
                res.case(('VAL', text))
            if has_blank:
                continue
            # --- program literal, DATA item, typed INPUT ------------------------------------------------
            try:
                box.enter([b'10 DATA ' + compact, b'30 P#=' + compact])
                box.keys(compact.decode('ascii') + '\r')
                out = box.ex(b'RUN')
                broke = box.stepper.break_hit
                rb, pb, ib = box.ev(b'MKD$(R#)'), box.ev(b'MKD$(P#)'), box.ev(b'MKD$(I#)')
                listed = box.ex(b'LIST 30')
            except harness.Internal as e:
                res.violation(e.key, str(e), ['program', text])
                continue
            code, line = harness.err_of(out)
            if code or b'Redo' in out or broke:
                res.violation('read:basic:error-on-valid-number',
                              'program reading %r: error %s in line %s, output %r' % (text, code, line, out[-80:]),
                              ['program', text])
                box.ex(b'CLEAR')
                continue
            for path, bb in (('READ', rb), ('literal', pb), ('INPUT', ib)):
                _basic_value(res, path, text, lit, bb)
                res.count('path_' + path)
                res.case((path, text))
            # LIST of the stored literal: shown text against the value the literal holds
            m = listed.rstrip(b'\r\n').partition(b'P#=')[2]
            shown = m[1:] if m[:1] in (b'-', b'+') and lit.signed else m
            s = dt.parse_shown(shown)
            if s is None:
                res.violation('print:list:malformed', 'LIST shows literal %r as %r' % (text, listed), ['LIST', text])
            else:
                if s.sigil == '#' or s.expletter == 'D':
                    n = 8
                elif s.form() == 'int' and not s.sigil and s.value <= 32767:
                    n = 2
                else:
                    n = 4
                pv = abs(rnum.decode(pb))
                if n == 4 and pb[:4] != b'\0\0\0\0':
                    res.violation('print:list:type-character', 'LIST shows %r for a literal holding double precision %s'
                                  % (shown, pb.hex()), ['LIST', text])
                else:
                    stored = pb if n == 8 else (pb[4:] if n == 4 else None)
                    if stored is not None:
                        stored = stored[:-2] + bytes([stored[-2] & 0x7f]) + stored[-1:]
                    else:
                        stored = int(pv).to_bytes(2, 'little') if pv <= 32767 and pv.denominator == 1 else None
                    if stored is None:
                        res.violation('print:list:integer-form-for-fraction', 'LIST shows %r for value %s' % (shown, pv),
                                      ['LIST', text])
                    else:
                        _judge_shown(res, 'LIST', shown, stored, False, True)
                        res.count('path_LIST')
                        res.case(('LIST', text))
            if sampled < 2:
                sampled += 1
                res.sample({'kind': 'read_basic', 'text': text, 'READ': rb.hex(), 'literal': pb.hex(), 'INPUT': ib.hex(),
                            'VAL': vb.hex(), 'LIST': listed, 'exact_decimal': str(lit.value)})
