"""
C06 Numeric comparisons agree with the exact order of values.

Oracle: exact order of the decoded operand values (integers M*2^k compared exactly) against
 (a) values.eq/neq/gt/gte/lt/lte on raw Integer/Single/Double patterns in all nine type pairings
     (volume), plus the mutual consistency of the implementation's own six answers, and
 (b) the BASIC level: PRINT A=B;A<>B;A<B;A>B;A<=B;A>=B and Session.evaluate of the relations, with
     operands planted as raw bytes (CVS/CVD of string variables, typed variables); every pair goes
     through all 15 surface spellings (=, <>, ><, <, >, <=, =<, >=, => and the two-character ones
     with inner blanks), the expected result coming from the exact order, not from the spelling.
"""
import random
import time

from ..models import c03_mbf as mbf

META = {
    'property_id': 'C06',
    'technique': 'reference-model monitor (exact order of decoded values) over directed and random operand pairs in all type pairings, API and BASIC level',
    'level': 'exploration',
    'level_text': (
        'Runtime oracle: for every generated pair the six relational results must be the Integer -1 when the relation holds '
        'between the exact decoded values and 0 otherwise; in addition exactly one of <, =, > must be -1 and <= must be the '
        'negation of > on the implementation\'s own answers. Seed-independent core: all pairs of a boundary table per type '
        '(range ends, adjacent representables, every zero encoding class) and cross-type tables; random pairs from nine '
        'classes (identical, adjacent, opposite sign, zero encodings, same exponent, byte-border mantissas, mixed types with '
        'exactly / not exactly representable narrower value). The BASIC-level leg evaluates every pair under all 15 surface '
        'spellings of the relations (=, <>, ><, <, >, <=, =<, >=, =>, two-character ones also with inner blanks), so the '
        'parser\'s operator table is covered for every operand type pair.'),
    'level_note': ('Trusted: Python integer arithmetic for the exact order, the harness. Nothing in this statement is left '
                   'unpinned for numeric operands; strings are not part of the property.'),
    'rule': ('case = (left pattern, right pattern) with all six relations evaluated (BASIC level: all 15 surface spellings of them); distinct by the pair; non-trivial = '
             'the two patterns are not both canonical zeros (directed blocks are duplicate-free by construction and '
             'counted by the enumerating loop; random pairs are hashed)'),
    'design_ref': 'DESIGN.md section 4 C06',
    'assumptions': ['MBF layout as documented in vf/models/rnum.py'],
    'require_counters': {'any': ['equal_values_seen', 'equal_values_different_bytes_seen', 'noncanonical_zero_seen',
                                 'adjacent_values_seen', 'opposite_sign_equal_magnitude_seen', 'mixed_type_pairs',
                                 'mixed_inexact_seen', 'less_seen', 'greater_seen', 'basic_cases',
                                 'basic_unequal_pairs_all_spellings']},
    'timeout': {'quick': 900, 'thorough': 10800},
}

RELS = ['eq', 'neq', 'lt', 'gt', 'lte', 'gte']
SYM = {'eq': b'=', 'neq': b'<>', 'lt': b'<', 'gt': b'>', 'lte': b'<=', 'gte': b'>='}
TRUE, FALSE = b'\xff\xff', b'\0\0'
TN = mbf.TYPENAME


def plan(tier, seed):
    shards = []
    if tier == 'quick':
        for n in (2, 4, 8):
            shards.append({'kind': 'directed', 'size': n})
        shards.append({'kind': 'directed_mixed', 'part': 0, 'parts': 2})
        shards.append({'kind': 'directed_mixed', 'part': 1, 'parts': 2})
        for i in range(8):
            shards.append({'kind': 'random', 'part': i, 'n': 45000})
        for i in range(3):
            shards.append({'kind': 'basic', 'part': i, 'n': 7000})
    else:
        for n in (2, 4, 8):
            shards.append({'kind': 'directed', 'size': n})
        shards.append({'kind': 'directed_mixed', 'part': 0, 'parts': 2})
        shards.append({'kind': 'directed_mixed', 'part': 1, 'parts': 2})
        for i in range(32):
            shards.append({'kind': 'random', 'part': i, 'n': 220000})
        for i in range(8):
            shards.append({'kind': 'basic', 'part': i, 'n': 50000})
    return shards


def order(a, b):
    """-1, 0, 1: exact order of the decoded values"""
    sa, ma, ka = mbf.parts(a)
    sb, mb, kb = mbf.parts(b)
    if sa != sb:
        return -1 if sa < sb else 1
    if sa == 0:
        return 0
    k = min(ka, kb)
    va, vb = ma << (ka - k), mb << (kb - k)
    if va == vb:
        return 0
    return sa if va > vb else -sa


def expected(c):
    return {'eq': c == 0, 'neq': c != 0, 'lt': c < 0, 'gt': c > 0, 'lte': c <= 0, 'gte': c >= 0}


def observe(res, a, b, c):
    if c == 0:
        res.count('equal_values_seen')
        if a != b:
            res.count('equal_values_different_bytes_seen')
    elif c < 0:
        res.count('less_seen')
    else:
        res.count('greater_seen')
    if (len(a) != 2 and a[-1] == 0 and any(a[:-1])) or (len(b) != 2 and b[-1] == 0 and any(b[:-1])):
        res.count('noncanonical_zero_seen')
    if len(a) != len(b):
        res.count('mixed_type_pairs')
        from ..gen.c04_pairs import exact_in
        if exact_in(a if len(a) > len(b) else b, min(len(a), len(b))) is None:
            res.count('mixed_inexact_seen')
    elif c != 0 and len(a) != 2:
        if a[-1] == b[-1] and a[:-2] == b[:-2] and (a[-2] ^ b[-2]) == 0x80:
            res.count('opposite_sign_equal_magnitude_seen')
        else:
            ra, rb = int.from_bytes(a, 'little'), int.from_bytes(b, 'little')
            # same sign, encodings one step apart (mantissa field +-1 incl. carry into the exponent byte)
            ka = (a[-1] << (8 * len(a) - 9)) | (int.from_bytes(a[:-1], 'little') & ((1 << (8 * len(a) - 9)) - 1))
            kb = (b[-1] << (8 * len(b) - 9)) | (int.from_bytes(b[:-1], 'little') & ((1 << (8 * len(b) - 9)) - 1))
            if abs(ka - kb) == 1 and (a[-2] & 0x80) == (b[-2] & 0x80):
                res.count('adjacent_values_seen')


# every surface spelling of each relation (the parser's operator table is part of the property):
# (label used in keys, relation, source text). Inner blanks are legal between the two characters.
SPELLINGS = [('eq', 'eq', b'='), ('neq', 'neq', b'<>'), ('lt', 'lt', b'<'), ('gt', 'gt', b'>'), ('lte', 'lte', b'<='), ('gte', 'gte', b'>='),
             ('neq[><]', 'neq', b'><'), ('lte[=<]', 'lte', b'=<'), ('gte[=>]', 'gte', b'=>'),
             ('neq[<_>]', 'neq', b'< >'), ('neq[>_<]', 'neq', b'> <'), ('lte[<_=]', 'lte', b'< ='), ('lte[=_<]', 'lte', b'= <'),
             ('gte[>_=]', 'gte', b'> ='), ('gte[=_>]', 'gte', b'=  >')]
API_FORMS = [(r, r, SYM[r]) for r in RELS]


def judge(res, level, a, b, got, forms=API_FORMS):
    """got: dict form-label -> ('ok', bytes) | ('err', ...) | ('host', ...); forms: (label, relation, text)"""
    pt = '%s-%s' % (TN[len(a)], TN[len(b)])
    c = order(a, b)
    exp = expected(c)
    observe(res, a, b, c)
    truth = {}
    for label, rel0, text in forms:
        g = got[label]
        rel = label
        if g[0] == 'host':
            res.violation('internal:%s@values.%s' % (g[1], rel), 'host exception %s comparing %s %s %s' % (g[2], a.hex(), rel, b.hex()), [rel, a, b])
            continue
        if g[0] != 'ok':
            res.violation('%s:%s:%s:error-raised' % (level, rel, pt), '%s %s %s -> %r' % (a.hex(), rel, b.hex(), g), [rel, a, b])
            continue
        if g[1] not in (TRUE, FALSE):
            res.violation('%s:%s:%s:result-not-minus-one-or-zero' % (level, rel, pt), '%s %s %s -> %s' % (a.hex(), rel, b.hex(), g[1].hex()), [rel, a, b])
            continue
        val = (g[1] == TRUE)
        truth.setdefault(rel0, val)
        if val != exp[rel0]:
            za = mbf.parts(a)[0] == 0 and len(a) != 2 and any(a[:-1])
            zb = mbf.parts(b)[0] == 0 and len(b) != 2 and any(b[:-1])
            if za or zb:
                mech = 'noncanonical-zero'
            elif c == 0:
                mech = 'equal-values'
            elif mbf.parts(a)[0] != mbf.parts(b)[0]:
                mech = 'different-signs'
            elif mbf.parts(a)[0] < 0:
                mech = 'both-negative'
            else:
                mech = 'both-positive'
            res.violation('%s:%s:%s:wrong-on-%s' % (level, rel, pt, mech),
                          '%s (=%r) %s %s (=%r) -> %d, exact order says %d' % (
                              a.hex(), float(mbf.frac(a)), text.decode(), b.hex(), float(mbf.frac(b)),
                              -1 if val else 0, -1 if exp[rel0] else 0), [rel, a, b])
    if len(truth) == 6:
        # consistency of the implementation's own answers (follows from the order if all six are right)
        if (truth['lt'] + truth['eq'] + truth['gt']) != 1:
            res.violation('%s:consistency:%s:not-exactly-one-of-lt-eq-gt' % (level, pt),
                          '%s vs %s: < %s, = %s, > %s' % (a.hex(), b.hex(), truth['lt'], truth['eq'], truth['gt']), ['consistency', a, b])
        if truth['lte'] == truth['gt']:
            res.violation('%s:consistency:%s:lte-not-negation-of-gt' % (level, pt),
                          '%s vs %s: <= %s, > %s' % (a.hex(), b.hex(), truth['lte'], truth['gt']), ['consistency', a, b])
        if truth['gte'] == truth['lt'] or truth['neq'] == truth['eq']:
            res.violation('%s:consistency:%s:gte-or-neq-not-negation' % (level, pt),
                          '%s vs %s: >= %s, < %s, <> %s, = %s' % (a.hex(), b.hex(), truth['gte'], truth['lt'], truth['neq'], truth['eq']),
                          ['consistency', a, b])


class Api(object):
    def __init__(self, w):
        from .. import numapi
        self.numapi = numapi
        V = numapi.V
        self.fn = {'eq': V.eq, 'neq': V.neq, 'lt': V.lt, 'gt': V.gt, 'lte': V.lte, 'gte': V.gte}
        self.w = w

    def all(self, a, b):
        numapi = self.numapi
        out = {}
        for rel in RELS:
            self.w.cur = (rel, a, b)
            try:
                out[rel] = numapi.call(self.fn[rel], numapi.num(a), numapi.num(b))
            except Exception as e:
                out[rel] = ('host', type(e).__name__, repr(e))
        return out


def table(n):
    """directed values of one type"""
    from ..gen import c04_pairs as gp
    if n == 2:
        s = set([0, 1, -1, 2, -2, 127, 128, 129, 255, 256, 257, -127, -128, -129, -255, -256, -257, 32767, 32766, -32768, -32767,
                 0x7f00, 0x00ff, -0x100, 0x7fff, 0x4000, -0x4000, 0x5555, -0x5556])
        return [mbf.int_bytes(v) for v in sorted(s)]
    out = []
    f = mbf.BITS[n] - 1
    full = (1 << f) - 1
    byte_borders = [0xff, 0x100, 0xffff, 0x10000]
    if n == 8:
        byte_borders += [0xffffff, 0x1000000, 0xffffffff, 0x100000000, (1 << 40) - 1, 1 << 40, (1 << 48) - 1, 1 << 48]
    for e in (1, 2, 127, 128, 129, 130, 144, 254, 255):
        for m in [0, 1, 2, full, full - 1, 1 << (f - 1), (1 << (f - 1)) - 1, (1 << (f - 1)) + 1] + byte_borders:
            for neg in (False, True):
                out.append(mbf.pack(n, e, m & full, neg))
    out.extend(gp.noncanonical_zeros(n))
    out.append(mbf.pack(n, 0, full, True))
    for v in (1, -1, 2, 32767, -32768, 32768, 255, 256):
        out.append(mbf.from_int(v, n))
    return sorted(set(out))


def run_shard(spec, res):
    kind = spec['kind']
    t0 = time.process_time()
    rng = random.Random('%s:C06:%s:%s' % (spec['seed'], kind + str(spec.get('size', '')), spec.get('part', 0)))
    mbf.selftest(random.Random('%s:C06:selftest' % spec['seed']), 150)
    _order_selftest(random.Random('%s:C06:orderselftest' % spec['seed']))
    from ..gen import c04_watch
    try:
        c04_watch.guarded_run(res, _run, spec, kind, rng, res)
    finally:
        res.count('shard_cpu_ms', int((time.process_time() - t0) * 1000))


def _order_selftest(rng):
    """order() against the Fraction model"""
    from ..models import rnum
    from ..gen import c04_pairs as gp
    for i in range(300):
        na, nb = rng.choice((2, 4, 8)), rng.choice((2, 4, 8))
        a, b = gp.cmp_pair(rng, na, nb, gp.CMP_CLASSES[i % len(gp.CMP_CLASSES)])
        fa, fb = rnum.decode(a), rnum.decode(b)
        assert order(a, b) == (fa > fb) - (fa < fb), (a, b)


def _run(w, spec, kind, rng, res):
    from ..gen import c04_pairs as gp
    if kind == 'basic':
        return _basic(w, spec, rng, res)
    api = Api(w)
    if kind == 'directed':
        tab = table(spec['size'])
        n = 0
        for a in tab:
            for b in tab:
                judge(res, 'api', a, b, api.all(a, b))
                n += 6
        res.bulk(n, n)
        res.sample({'kind': kind, 'type': TN[spec['size']], 'table': len(tab), 'pairs': len(tab) ** 2, 'first': [x.hex() for x in tab[:5]]})
    elif kind == 'directed_mixed':
        tabs = {2: table(2), 4: table(4), 8: table(8)}
        # add to each float table the exact images of the other tables' values, and their neighbours
        ext = {}
        for n in (4, 8):
            extra = set()
            for m in (2, 4, 8):
                if m == n:
                    continue
                for v in tabs[m]:
                    x = gp.exact_in(v, n)
                    if x is not None:
                        extra.add(x)
                        for d in (-1, 1):
                            y = gp.step(x, d)
                            if y is not None:
                                extra.add(y)
            ext[n] = sorted(set(tabs[n][::3]) | extra)
        ext[2] = tabs[2]
        cnt = 0
        combos = [(2, 4), (2, 8), (4, 8)]
        j = 0
        for na, nb in combos:
            for a in ext[na]:
                j += 1
                if j % spec['parts'] != spec['part']:
                    continue
                for b in ext[nb]:
                    judge(res, 'api', a, b, api.all(a, b))
                    judge(res, 'api', b, a, api.all(b, a))
                    cnt += 12
        res.bulk(cnt, cnt)
        res.sample({'kind': kind, 'tables': {TN[k]: len(v) for k, v in ext.items()}})
    elif kind == 'random':
        sizes = [(2, 2), (2, 4), (2, 8), (4, 2), (4, 4), (4, 8), (8, 2), (8, 4), (8, 8)]
        weights = [1, 2, 2, 2, 6, 4, 2, 4, 6]
        pairing = [s for s, wt in zip(sizes, weights) for _ in range(wt)]
        for i in range(spec['n']):
            na, nb = pairing[i % len(pairing)]
            cls = gp.CMP_CLASSES[(i // len(pairing)) % len(gp.CMP_CLASSES)]
            a, b = gp.cmp_pair(rng, na, nb, cls)
            judge(res, 'api', a, b, api.all(a, b))
            res.case((a, b), nontrivial=bool(any(a) or any(b)))
            res.evaluations += 5
            if i < 2:
                res.sample({'kind': kind, 'class': cls, 'a': a.hex(), 'b': b.hex(), 'exact_order': order(a, b),
                            'results': {k: v[1].hex() if v[0] == 'ok' else repr(v) for k, v in api.all(a, b).items()}})
    else:
        raise ValueError(kind)


def _basic(w, spec, rng, res):
    from .. import harness
    from ..gen import c04_pairs as gp
    tabs = {2: table(2), 4: table(4), 8: table(8)}
    SIG = {2: b'%', 4: b'!', 8: b'#'}
    with harness.Box() as box:
        for i in range(spec['n']):
            na, nb = rng.choice((2, 4, 4, 8, 8)), rng.choice((2, 4, 4, 8, 8))
            if rng.random() < 0.25:
                a, b = rng.choice(tabs[na]), rng.choice(tabs[nb])
            else:
                a, b = gp.cmp_pair(rng, na, nb, gp.CMP_CLASSES[i % len(gp.CMP_CLASSES)])
            w.cur = ('basic-compare', a, b)
            mode = i % 3
            try:
                ops = []
                for slot, x in ((0, a), (1, b)):
                    if len(x) == 2:
                        name = b'I%' if slot == 0 else b'J%'
                        box.set(name.decode(), int.from_bytes(x, 'little', signed=True))
                        ops.append(name)
                    else:
                        sv = b'S$' if slot == 0 else b'T$'
                        box.set(sv.decode(), x)
                        ops.append((b'CVS(' if len(x) == 4 else b'CVD(') + sv + b')')
                if mode == 0:
                    # typed variables + one PRINT of every surface spelling
                    A = (b'A' if len(a) != 2 else b'K') + SIG[len(a)]
                    B = (b'B' if len(b) != 2 else b'L') + SIG[len(b)]
                    out = box.ex(A + b'=' + ops[0] + b':' + B + b'=' + ops[1] + b':PRINT ' + b';'.join(A + t + B for _, _, t in SPELLINGS))
                    toks = out.split()
                    vals = toks if (len(toks) == len(SPELLINGS) and all(t in (b'-1', b'0') for t in toks) and not harness.err_of(out)[0]) else None
                    got = {}
                    for k, (r, _, _) in enumerate(SPELLINGS):
                        if vals is None:
                            got[r] = ('err', 'output %r' % out)
                        else:
                            got[r] = ('ok', TRUE if vals[k] == b'-1' else FALSE)
                else:
                    got = {}
                    for r, _, t in SPELLINGS:
                        v = box.ev(ops[0] + (t if mode == 1 else b' ' + t + b' ') + ops[1])
                        if isinstance(v, int) and not isinstance(v, bool) and v in (-1, 0):
                            got[r] = ('ok', TRUE if v == -1 else FALSE)
                        elif isinstance(v, int):
                            got[r] = ('ok', mbf.int_bytes(v) if -32768 <= v <= 32767 else b'')
                        else:
                            got[r] = ('err', 'evaluate gave %r' % (v,))
            except harness.Internal as e:
                res.violation(e.key, str(e), ['basic', a, b])
                if type(e.exc).__name__ == 'Hang':
                    return
                continue
            judge(res, 'basic', a, b, got, SPELLINGS)
            res.case((b'basic', a, b, mode), nontrivial=bool(any(a) or any(b)))
            res.evaluations += len(SPELLINGS) - 1
            res.count('basic_spellings_evaluated', len(SPELLINGS))
            if order(a, b) != 0:
                res.count('basic_unequal_pairs_all_spellings')
            res.count('basic_cases')
            if i < 2:
                res.sample({'kind': 'basic', 'a': a.hex(), 'b': b.hex(), 'mode': 'PRINT of all %d spellings on typed variables' % len(SPELLINGS) if mode == 0 else 'evaluate of every spelling',
                            'results': {k: repr(v) for k, v in got.items()}})
