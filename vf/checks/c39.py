"""
C39 RND is a deterministic full-period sequence in [0, 1).

What is observed
  * BASIC level (real Session): MKS$(RND...) bytes of every value, through Session.evaluate
    ("ev" histories), stored programs (S$=S$+MKS$(RND), read back with get_variable) and direct
    statements (RANDOMIZE, CLEAR, RUN).  Every value is decoded from its four bytes.
  * the generator's real state update: Randomiser.rnd_ (the function behind RND) is called on
    the session's own Randomiser object and its seed attribute is READ after every call (never
    written).  Period / injectivity are measured on these observed transitions only.
Reference: vf/models/c39_rrnd.py (documented constants a=214013 c=2531011 m=2^24) predicts
the successor of an observed state and WHERE to cut the orbit into segments; it never replaces
an observation.

Full period (thorough, exhaustive): 16 shards.  Boundary states S_0 (the fresh session's state)
and S_1..S_15 (the states a real Randomiser is in after RND(-x_k), x_k chosen with the model so
that the segments have about 2^20 steps) are observed in every shard.  Shard k walks the real
generator from S_k and demands: every state in 0..2^24-1, no state visited twice (2 MiB bitmap),
no boundary state met before the last step, S_(k+1 mod 16) met at exactly the predicted step.
The segment lengths add up to 2^24.  If all 16 shards hold, the orbit of S_0 returns to S_0 after
2^24 steps; its minimal period p divides 2^24, and p < 2^24 would put S_0 = x_p strictly inside the
chain (p <= 2^23), which some shard would have seen - so p = 2^24 and every state is on the cycle.
"""
import random

from ..models import c39_rrnd as rrnd
from ..models import rnum

M = rrnd.M
MASK = M - 1

META = {
    'property_id': 'C39',
    'technique': ('state-transition monitor on the real generator (bitmap of visited states, segment chaining) + '
                  'reference LCG model + differential fresh-session / same-argument comparison at BASIC level'),
    'level': 'exploration',
    'level_text': (
        'Runtime oracle. Every RND value (bytes via MKS$) is decoded exactly and must be an integer multiple of 2^-24 in '
        '[0,1) equal to the generator state; successive states must obey the documented LCG; RUN / CLEAR must restart '
        'the fresh-session sequence; RND(0) must repeat the previous value without advancing; equal RND(-x) and equal '
        'RANDOMIZE arguments must reseed identically. Thorough: the real step function is walked over ALL 2^24 states '
        '(16 chained segments, see module docstring) - single cycle of length exactly 2^24, value = seed/2^24 and '
        'successor = a*s+c checked at every one of them; RANDOMIZE over all 65536 integers x 4 histories. '
        'Quick: 2^18 consecutive real states from start-up, injectivity of the real step on 2^20 observed transitions, '
        '4096 RANDOMIZE integers, sampled float arguments, random call histories.'),
    'level_note': (
        'Trusted: Python ints, the harness, MKS$/CVS/CVD/CHR$ copying bytes, reading Randomiser._seed (read-only; the '
        'walk also decodes every returned value so a wrong attribute cannot hide a wrong value). Constants a, c, m and the '
        'start-up seed come from documentation (MS KB Q28150; PC-BASIC manual; the five numbers GW-BASIC prints first) '
        '- see vf/models/c39_rrnd.py. RANDOMIZE arguments of every numeric type are reduced to a 16-bit number as the PC-BASIC '
        'manual documents (last two bytes of the MKI$/MKS$/MKD$ bytes, xor the preceding two for floats; first four bytes of a double ignored) '
        'and must then seed exactly as RANDOMIZE of that integer does from the same prior state (differential against the integer path; '
        'how the integer maps to a seed is not modelled). Not pinned and therefore not demanded: WHICH seed a negative RND argument selects '
        '(only: same argument -> same seed), RND(0) directly after '
        'start-up/RUN/CLEAR/RANDOMIZE (no "last value" yet; only range and value = seed/2^24 are checked there), arguments '
        'of different type with equal value, RANDOMIZE without argument (prompt), doubles outside the single range as RND '
        'arguments. RND(x>0) is taken to mean RND (GW-BASIC manual). Literal reading kept for "RANDOMIZE with the same '
        'argument reseeds identically": a result that depends on the call history is reported under the key '
        'randomize:reseed-keeps-low-byte-of-previous-seed when (and only when) it is a function of (argument, low byte of '
        'the previous seed); any other dependence has its own key.'),
    'rule': ('case = one observed generator transition (state -> state, with the returned value) in the walks, or one '
             '(operation, argument, history) step of a BASIC-level call history / one (argument, history-context) '
             'RANDOMIZE or RND(-x) experiment; walks are duplicate-free by construction (bitmap) and counted in bulk; '
             'history steps are distinct by (shard, index, op, argument); every case is non-trivial'),
    'design_ref': 'DESIGN.md section 4 C39',
    'assumptions': [
        'LCG constants a=214013, c=2531011, m=2^24 (Microsoft KB Q28150, PC-BASIC reference manual)',
        'start-up seed derived from the first five numbers GW-BASIC prints (.1213501 .651861 .8688611 .7297625 .798853): 0x4FC752',
        'RND(x) with x>0 behaves as RND',
        'the argument of RND(-x) is identified by its type and bytes (or source text)',
        'RANDOMIZE reduces its argument to a 16-bit number as documented in the PC-BASIC reference manual (RANDOMIZE)',
    ],
    'exhaustive': {
        'thorough': ('all 2^24 generator states: each is visited exactly once by walking the real step function (16 chained '
                     'segments), returning to the start after exactly 2^24 steps; value and successor checked at each; '
                     'RANDOMIZE over all 65536 integer arguments'),
    },
    'require_counters': {
        'quick': ['states_walked', 'boundary_states_stepped_into', 'values_checked_exact', 'transitions_injectivity_sample', 'restart_by_RUN_seen',
                  'restart_by_CLEAR_seen', 'rnd0_repeat_checked', 'rndneg_same_arg_pairs', 'randomize_same_arg_same_state_pairs',
                  'randomize_int_args', 'randomize_float_args', 'randomize_args_compared_with_documented_reduction',
                  'randomize_doubles_with_low_mantissa_bits'],
        'thorough': ['states_walked', 'boundary_states_stepped_into', 'cycle_segments_joined', 'values_checked_exact', 'transitions_injectivity_sample',
                     'restart_by_RUN_seen', 'restart_by_CLEAR_seen', 'rnd0_repeat_checked', 'rndneg_same_arg_pairs',
                     'randomize_same_arg_same_state_pairs', 'randomize_int_args', 'randomize_float_args',
                     'randomize_args_compared_with_documented_reduction', 'randomize_doubles_with_low_mantissa_bits'],
    },
    'timeout': {'quick': 900, 'thorough': 7200},
}

NSEG = 16


def plan(tier, seed):
    shards = [{'kind': 'directed'}]
    if tier == 'quick':
        shards.append({'kind': 'walk', 'n': 1 << 18})
        shards.append({'kind': 'inject', 'lowbytes': 8, 'pairs': 1 << 18})
        for i in range(2):
            shards.append({'kind': 'randomize_int', 'part': i, 'parts': 2, 'count': 4096})
        for i in range(2):
            shards.append({'kind': 'randomize_float', 'part': i, 'n': 2500})
        for i in range(2):
            shards.append({'kind': 'negarg', 'part': i, 'n': 6000})
        for i in range(4):
            shards.append({'kind': 'hist_ev', 'part': i, 'n': 120000})
        for i in range(4):
            shards.append({'kind': 'hist_prog', 'part': i, 'n': 1200})
    else:
        for k in range(NSEG):
            shards.append({'kind': 'cycle', 'part': k})
        for i in range(2):
            shards.append({'kind': 'inject', 'part': i, 'lowbytes': 16, 'pairs': 1 << 19})
        for i in range(16):
            shards.append({'kind': 'randomize_int', 'part': i, 'parts': 16, 'count': 65536})
        for i in range(8):
            shards.append({'kind': 'randomize_float', 'part': i, 'n': 25000})
        for i in range(8):
            shards.append({'kind': 'negarg', 'part': i, 'n': 60000})
        for i in range(16):
            shards.append({'kind': 'hist_ev', 'part': i, 'n': 600000})
        for i in range(16):
            shards.append({'kind': 'hist_prog', 'part': i, 'n': 4000})
    return shards


# ---------------------------------------------------------------------------------------------
# helpers

class _Stop(Exception):
    """Too many violations of one kind in a shard: stop the shard's loop (the verdict is already violated)."""


def _chrs(b):
    return b'+'.join(b'CHR$(%d)' % x for x in bytes(b))


def cvs(b):
    return b'CVS(' + _chrs(b) + b')'


def cvd(b):
    return b'CVD(' + _chrs(b) + b')'


def _fresh_state(harness):
    """(seed attribute, first 16 values * 2^24) of a brand new session, observed."""
    with harness.Box() as box:
        s0 = _seed_attr(box.impl.randomiser)
        vals = []
        for _ in range(16):
            vals.append(rrnd.seed_of_single(box.ev(b'MKS$(RND)')))
        return s0, vals


class _NoSeedAttr(Exception):
    pass


def _seed_attr(r):
    try:
        s = r._seed
    except AttributeError:
        raise _NoSeedAttr('Randomiser has no attribute _seed (state not observable)')
    return s


def _value_problem_key(sv):
    if sv in ('negative', 'ge-one'):
        return 'rnd:value-out-of-[0,1)'
    return 'rnd:value-not-seed-over-2^24'


# ---------------------------------------------------------------------------------------------
# walking the real generator

def _walk(res, r, cur, n, bitmap, boundary_states, last_must_be, ctx):
    """
    n real steps r.rnd_([None]) from the observed state `cur`. Per step: state in range, returned value
    == state/2^24 exactly, state == documented successor of the previous one, not visited before, not a
    boundary state unless it is the last step. Returns (final state, steps done).
    """
    rnd = r.rnd_
    arg = [None]
    sos = rrnd.seed_of_single
    A, C = rrnd.A, rrnd.C
    nviol = 0
    i = 0
    try:
        for i in range(1, n + 1):
            v = rnd(arg)
            s = r._seed
            if not (0 <= s < M) or not isinstance(s, int):
                res.violation('rnd:state-outside-24-bit-range', 'state %r after %d steps from %s' % (s, i, ctx), [ctx, i, cur])
                raise _Stop()
            sv = sos(v.to_bytes())
            if sv != s:
                nviol += 1
                res.violation(_value_problem_key(sv) if not isinstance(sv, int) else 'rnd:value-not-seed-over-2^24',
                              'state %d: RND returned bytes %s (value*2^24 = %r), expected exactly %d/2^24'
                              % (s, bytes(v.to_bytes()).hex(), sv, s), [ctx, i, cur])
            if s != ((A * cur + C) & MASK):
                nviol += 1
                res.violation('rnd:successor-not-documented-lcg-step',
                              'state %d is followed by %d, documented LCG gives %d' % (cur, s, (A * cur + C) & MASK), [ctx, i, cur])
            idx, bit = s >> 3, 1 << (s & 7)
            if bitmap[idx] & bit:
                res.violation('cycle:state-revisited-before-2^24-steps',
                              'state %d reached again after %d steps of the walk %s: the orbit is shorter than 2^24' % (s, i, ctx),
                              [ctx, i, cur])
                raise _Stop()
            bitmap[idx] |= bit
            if s in boundary_states and i != n:
                res.violation('cycle:boundary-state-inside-segment',
                              'boundary state %d met after %d of %d steps of %s' % (s, i, n, ctx), [ctx, i, cur])
                raise _Stop()
            cur = s
            if nviol > 20:
                raise _Stop()
    except _Stop:
        return cur, i
    if last_must_be is not None and cur != last_must_be:
        res.violation('cycle:segment-does-not-reach-next-boundary',
                      'walk %s: after %d real steps the state is %d, not the next boundary state %d'
                      % (ctx, n, cur, last_must_be), [ctx, n])
    return cur, n


def _shard_cycle(spec, res, harness):
    """Thorough: segment k of the 16-segment chain covering all 2^24 states."""
    k = spec['part']
    with harness.Box() as box0:
        s0 = _seed_attr(box0.impl.randomiser)
    bounds = rrnd.cycle_boundaries(s0, NSEG, M)
    # observe the boundary states on the real implementation
    observed = [s0]
    with harness.Box() as box:
        r, vals = box.impl.randomiser, box.impl.values
        for off, mant in bounds[1:]:
            x = vals.new_single().from_bytes(rrnd.neg_single_bytes(mant))
            r.rnd_([x])
            observed.append(_seed_attr(r))
    predicted = [rrnd.jump(s0, off) for off, _ in bounds]
    if observed != predicted:
        # the statement does not pin which seed RND(-x) selects: no verdict from this shard
        res.inconclusive('cycle: RND(-x) does not put the generator where the segment plan expects '
                         '(boundaries cannot be placed); observed %r planned %r' % (observed[:3], predicted[:3]))
        return
    if len(set(observed)) != NSEG:
        res.inconclusive('cycle: boundary states not pairwise distinct')
        return
    offs = [off for off, _ in bounds] + [M]
    n = offs[k + 1] - offs[k]
    nxt = observed[(k + 1) % NSEG]
    with harness.Box() as box:
        r, vals = box.impl.randomiser, box.impl.values
        if k:
            r.rnd_([vals.new_single().from_bytes(rrnd.neg_single_bytes(bounds[k][1]))])
        cur = _seed_attr(r)
        if cur != observed[k]:
            res.violation('rndneg:same-argument-different-seed', 'boundary %d observed as %d, then as %d' % (k, observed[k], cur), [k])
            return
        bitmap = bytearray(M >> 3)
        end, done = _walk(res, r, cur, n, bitmap, set(observed), nxt, 'segment %d of %d from state %d' % (k, NSEG, cur))
    res.bulk(done, done)
    res.count('states_walked', done)
    res.count('values_checked_exact', done)
    if done == n and end == nxt:
        res.count('cycle_segments_joined')
        res.count('cycle_steps_in_joined_segments', n)
    res.sample({'kind': 'cycle', 'segment': k, 'start_state': cur, 'steps': n, 'end_state': end, 'next_boundary': nxt,
                'boundary_reached_by': 'fresh session' if k == 0 else 'RND(CVS(%s))' % rrnd.neg_single_bytes(bounds[k][1]).hex()})


def _shard_walk(spec, res, harness):
    """Quick: n consecutive real states from start-up."""
    n = spec['n']
    with harness.Box() as box:
        r = box.impl.randomiser
        cur = _seed_attr(r)
        bitmap = bytearray(M >> 3)
        bitmap[cur >> 3] |= 1 << (cur & 7)
        end, done = _walk(res, r, cur, n, bitmap, set(), None, 'from start-up state %d' % cur)
    res.bulk(done, done)
    res.count('states_walked', done)
    res.count('values_checked_exact', done)
    res.sample({'kind': 'walk', 'start_state': cur, 'steps': done, 'end_state': end, 'model_end_state': rrnd.jump(cur, done)})


def _shard_inject(spec, res, harness, rng):
    """
    Injectivity of the real step on observed transitions T -> T'. T is the (read) state after RANDOMIZE n
    (all 65536 n for several low bytes of the previous seed: all states with those low bytes, so every pair
    differing in the high bits is present) or after RND(-x) (random mantissas m together with m xor 2^22).
    """
    succ = bytearray(M >> 3)
    seenT = bytearray(M >> 3)
    ntrans = dups = 0
    with harness.Box() as box:
        r, vals = box.impl.randomiser, box.impl.values
        arg = [None]
        ints = [vals.new_integer().from_int(n) for n in range(-32768, 32768)]

        def observe(T):
            nonlocal ntrans, dups
            idx, bit = T >> 3, 1 << (T & 7)
            v = r.rnd_(arg)
            s = r._seed
            if not (0 <= s < M):
                res.violation('rnd:state-outside-24-bit-range', 'state %r follows %d' % (s, T), [T])
                raise _Stop()
            if seenT[idx] & bit:
                dups += 1
                return
            seenT[idx] |= bit
            ntrans += 1
            if rrnd.seed_of_single(v.to_bytes()) != s:
                res.violation('rnd:value-not-seed-over-2^24', 'state %d: value bytes %s' % (s, bytes(v.to_bytes()).hex()), [T])
            i2, b2 = s >> 3, 1 << (s & 7)
            if succ[i2] & b2:
                res.violation('cycle:step-map-not-injective',
                              'state %d is the successor of %d and of another observed state: the step map is not a permutation' % (s, T), [T])
                raise _Stop()
            succ[i2] |= b2

        try:
            lows = set()
            guard = 0
            while len(lows) < spec['lowbytes'] and guard < 4000:
                guard += 1
                # a fixed negative argument puts the generator in a fixed state before every RANDOMIZE, so that
                # the 65536 states reached by RANDOMIZE n share their low byte and cover all 2^16 high parts
                xb = rrnd.neg_single_bytes(rng.randrange(1 << 23, M))
                r.rnd_([vals.new_single().from_bytes(xb)])
                r.reseed(ints[32768])
                low = _seed_attr(r) & 0xff
                if low in lows:
                    continue
                lows.add(low)
                for x in ints:
                    r.rnd_([vals.new_single().from_bytes(xb)])
                    r.reseed(x)
                    observe(r._seed)
                res.count('inject_randomize_low_bytes')
            for _ in range(spec['pairs']):
                m = rng.randrange(1 << 23, M)
                for mm in (m, m ^ (1 << 22)):
                    r.rnd_([vals.new_single().from_bytes(rrnd.neg_single_bytes(mm))])
                    observe(r._seed)
        except _Stop:
            pass
    res.bulk(ntrans, ntrans)
    res.count('transitions_injectivity_sample', ntrans)
    res.count('inject_duplicate_states_skipped', dups)
    res.sample({'kind': 'inject', 'distinct_transitions': ntrans, 'low_bytes_swept_with_all_65536_RANDOMIZE_arguments': sorted(lows)})


# ---------------------------------------------------------------------------------------------
# BASIC-level call histories

class Tracker(object):
    """Follows a call history; knows only the documented step, the fresh state and what it has seen."""

    def __init__(self, res, fresh, maps, fresh_vals=()):
        self.res = res
        self.fresh = fresh
        self.fresh_vals = list(fresh_vals)   # the first values of a fresh session, as observed
        self.maps = maps
        self.s = fresh          # current state if known
        self.last = None        # last value returned (as integer) if RND(0) must repeat it
        self.since = 'start-up'
        self.pending = None     # RANDOMIZE seen, first value not yet
        self.zero_since = False
        self.k = 0              # number of values drawn since start-up / RUN / CLEAR (None: reseeded since)
        self.since_restart = 'start-up'

    def restart(self, how):
        self.s = self.fresh
        self.last = None
        self.since = how
        self.pending = None
        self.zero_since = False
        self.k = 0
        self.since_restart = how
        self.res.count('restart_by_%s_seen' % how.split()[0])

    def unknown(self):
        self.s = None
        self.last = None
        self.pending = None
        self.since = 'unknown'
        self.k = None

    def randomize(self, argkey, newseed, case):
        """RANDOMIZE executed. newseed = state read afterwards (or None when it cannot be read)."""
        oldlow = None if self.s is None else self.s & 0xff
        if newseed is not None:
            self.note_randomize(argkey, oldlow, ('seed', newseed), case)
            self.s = newseed
            self.pending = None
        else:
            self.s = None
            self.pending = (argkey, oldlow)
        self.last = None
        self.since = 'RANDOMIZE'
        self.zero_since = False
        self.k = None

    def note_randomize(self, argkey, oldlow, result, case):
        if oldlow is None:
            return
        res = self.res
        kind = result[0]
        # arguments with known bytes are identified by the 16-bit number the manual says RANDOMIZE takes from them
        if isinstance(argkey, tuple) and argkey[0] in ('cvs', 'cvd'):
            argkey = ('n', rrnd.randomize_n(argkey[1]))
        elif isinstance(argkey, tuple) and argkey[0] == 'text' and argkey[1].isdigit() and int(argkey[1]) <= 32767:
            argkey = ('n', int(argkey[1]))
        byarg = self.maps['rz'].setdefault((argkey, kind), {})
        if oldlow in byarg:
            res.count('randomize_same_arg_same_state_pairs')
            if byarg[oldlow] != result:
                res.violation('randomize:same-argument-same-prior-low-byte-different-seed',
                              'RANDOMIZE %r with previous seed low byte %d gave %r, earlier %r' % (argkey, oldlow, result, byarg[oldlow]), case)
        else:
            for low2, r2 in byarg.items():
                if r2 != result:
                    res.count('randomize_same_arg_other_history_differs')
                    res.violation('randomize:reseed-keeps-low-byte-of-previous-seed',
                                  'RANDOMIZE %r gives %r when the previous seed has low byte %d but %r when it has low byte %d: '
                                  'the same argument does not reseed identically' % (argkey, result, oldlow, r2, low2), case)
                else:
                    res.count('randomize_same_arg_other_history_same')
                break
            if len(byarg) < 4:
                byarg[oldlow] = result

    def value(self, op, argkey, b, case, attr=None):
        """One value returned. op: 'next' (RND / RND(x>0)), 'zero', 'neg'. b = the 4 bytes. attr = seed read afterwards."""
        res = self.res
        sv = rrnd.seed_of_single(b)
        res.count('values_checked_exact')
        if not isinstance(sv, int):
            res.violation(_value_problem_key(sv), '%s(%r) returned bytes %s: %s' % (op, argkey, bytes(b).hex(), sv), case)
            self.unknown()
            return None
        if attr is not None and attr != sv:
            res.violation('rnd:value-not-seed-over-2^24',
                          '%s(%r) returned %d/2^24 while the generator state is %r' % (op, argkey, sv, attr), case)
        if op == 'next':
            if self.k is not None and self.k < len(self.fresh_vals):
                # differential: the k-th value after start-up / RUN / CLEAR is the k-th value of a fresh session
                if sv != self.fresh_vals[self.k]:
                    how = self.since_restart
                    key = ('rnd:fresh-sessions-give-different-sequences' if how == 'start-up'
                           else 'rnd:sequence-after-%s-differs-from-fresh-session' % how.split()[0])
                    res.violation(key, 'value number %d after %s is %d/2^24, in a fresh session it is %d/2^24'
                                  % (self.k + 1, how, sv, self.fresh_vals[self.k]), case)
                self.k += 1
            if self.s is not None and not (self.since == self.since_restart and self.fresh_vals and self.since != 'start-up'):
                # (directly after RUN / CLEAR the state is only presumed: the differential check above judges that value)
                exp = rrnd.step(self.s)
                if sv != exp:
                    res.violation('rnd:successor-not-documented-lcg-step',
                                  'after state %d (%s%s) RND returned %d/2^24, the documented LCG gives %d/2^24'
                                  % (self.s, self.since, ', RND(0) in between' if self.zero_since else '', sv, exp), case)
            elif self.pending is not None:
                self.note_randomize(self.pending[0], self.pending[1], ('first-value', sv), case)
            self.pending = None
            self.s = sv
            self.last = sv
            self.since = 'RND'
            self.zero_since = False
        elif op == 'zero':
            if self.last is not None:
                res.count('rnd0_repeat_checked')
                if sv != self.last:
                    res.violation('rnd0:does-not-repeat-last-value',
                                  'RND(0) returned %d/2^24 after the value %d/2^24' % (sv, self.last), case)
            else:
                res.count('rnd0_without_previous_value_not_judged')
            self.zero_since = True
        elif op == 'neg':
            seen = self.maps['neg']
            if argkey in seen:
                res.count('rndneg_same_arg_pairs')
                if seen[argkey] != sv:
                    res.violation('rndneg:same-argument-different-seed',
                                  'RND(%r) returned %d/2^24, earlier %d/2^24' % (argkey, sv, seen[argkey]), case)
            elif len(seen) < 200000:
                seen[argkey] = sv
            self.pending = None
            self.s = sv
            self.last = sv
            self.since = 'RND(-x)'
            self.zero_since = False
            self.k = None
        return sv


POS_ARGS = [b'1', b'2', b'.5', b'32767', b'1E+30', b'3#', b'.0001', b'100000', b'1D+10', b'7.25', b'&H7FFF',
            cvs(b'\0\0\0\1'), cvs(b'\xff\xff\x7f\xff'), cvs(b'\0\0\0\x81')]


def _rand_single_bytes(rng, negative=None):
    """Random single encoding, non-zero; biased towards boundary bytes."""
    def byte():
        return rng.choice((0, 1, 0x7f, 0x80, 0xff, 0x55, 0xaa)) if rng.random() < 0.3 else rng.randrange(256)
    b0, b1, b2 = byte(), byte(), byte()
    e = rng.choice((1, 2, 0x7f, 0x80, 0x81, 0x98, 0x99, 0xfe, 0xff)) if rng.random() < 0.3 else rng.randrange(1, 256)
    if negative is True:
        b2 |= 0x80
    elif negative is False:
        b2 &= 0x7f
    return bytes([b0, b1, b2, e])


def _rand_double_bytes(rng, negative=None, single_range=False):
    b = bytearray(rng.randrange(256) if rng.random() < 0.7 else rng.choice((0, 0xff, 0x80)) for _ in range(8))
    b[7] = rng.randrange(0x62, 0x9f) if single_range else rng.choice((1, 0x80, 0x81, 0xff, rng.randrange(1, 256)))
    if negative is True:
        b[6] |= 0x80
    elif negative is False:
        b[6] &= 0x7f
    return bytes(b)


def _neg_arg(rng):
    """(key, source) of a random negative RND argument."""
    r = rng.random()
    if r < 0.25:
        t = rng.choice((b'-1', b'-2', b'-.5', b'-3', b'-32768', b'-1E+10', b'-.1', b'-8388608', b'-16777215', b'-1.5#',
                        b'-32767', b'-255', b'-256', b'-1E-10'))
        return ('text', t), t
    if r < 0.4:
        b = _rand_double_bytes(rng, True, single_range=True)
        return ('cvd', b), cvd(b)
    b = _rand_single_bytes(rng, True)
    return ('cvs', b), cvs(b)


def _randomize_arg(rng):
    r = rng.random()
    if r < 0.35:
        n = rng.choice((0, 1, -1, 2, 255, 256, -256, 32767, -32768, -32767, 128, -128)) if rng.random() < 0.4 else rng.randint(-32768, 32767)
        t = b'%d' % n
        return ('text', t), t
    if r < 0.5:
        t = rng.choice((b'1!', b'1#', b'.25#', b'32768', b'65536', b'1E+10', b'-1E+10', b'1D+30', b'.1', b'TIMER*0', b'3.5'))
        return ('text', t), t
    if r < 0.75:
        b = _rand_single_bytes(rng)
        return ('cvs', b), cvs(b)
    b = _rand_double_bytes(rng)
    return ('cvd', b), cvd(b)


def _shard_hist_ev(spec, res, harness, rng):
    """Random call histories through Session.evaluate / execute; the state is read after every call."""
    fresh, fresh_vals = _fresh_state(harness)
    maps = {'neg': {}, 'rz': {}}
    n = spec['n']
    done = 0
    tag = spec.get('part', 0)
    while done < n:
        with harness.Box() as box:
            r = box.impl.randomiser
            box.ex(b'10 REM')
            tr = Tracker(res, fresh, maps, fresh_vals)
            if _seed_attr(r) != fresh:
                res.violation('rnd:fresh-sessions-start-in-different-states', 'state %r vs %r' % (r._seed, fresh), [])
            # one session carries several thousand calls
            for _ in range(min(n - done, rng.choice((50, 500, 5000)))):
                done += 1
                q = rng.random()
                case = None
                try:
                    if q < 0.5:
                        b = box.ev(b'MKS$(RND)')
                        op, key = 'next', None
                    elif q < 0.62:
                        a = rng.choice(POS_ARGS)
                        b = box.ev(b'MKS$(RND(' + a + b'))')
                        op, key = 'next', a
                    elif q < 0.77:
                        before = _seed_attr(r)
                        b = box.ev(b'MKS$(RND(0))') if rng.random() < 0.8 else box.ev(b'MKS$(RND(0!*1))')
                        op, key = 'zero', None
                        if _seed_attr(r) != before:
                            res.violation('rnd0:advances-or-disturbs-the-sequence',
                                          'RND(0) changed the generator state from %d to %d' % (before, r._seed), ['RND(0)', before])
                    elif q < 0.89:
                        key, src = _neg_arg(rng)
                        b = box.ev(b'MKS$(RND(' + src + b'))')
                        op = 'neg'
                    elif q < 0.96:
                        key, src = _randomize_arg(rng)
                        out = box.ex(b'RANDOMIZE ' + src)
                        case = ['RANDOMIZE', src]
                        if harness.err_of(out)[0]:
                            res.violation('randomize:unexpected-error', 'RANDOMIZE %r -> %r' % (src, out), case)
                            tr.unknown()
                        else:
                            tr.randomize(key, _seed_attr(r), case)
                        res.case((tag, done, 'randomize', key))
                        continue
                    else:
                        how = rng.choice(('CLEAR', 'RUN', 'CLEAR ,32768', 'RUN 10'))
                        box.ex(how.encode())
                        tr.restart(how)
                        if _seed_attr(r) != fresh:
                            res.violation('rnd:%s-does-not-reset-the-generator' % how.split()[0],
                                          'state after %s is %r, a fresh session has %r' % (how, r._seed, fresh), [how])
                        res.case((tag, done, how))
                        continue
                except harness.Internal as e:
                    res.violation(e.key, str(e), [q])
                    tr.unknown()
                    continue
                case = [op, key, tr.s, tr.since]
                if b is None or len(b) != 4:
                    res.violation('rnd:unexpected-basic-error', '%s %r gave %r' % (op, key, b), case)
                    tr.unknown()
                    continue
                tr.value(op, key, b, case, attr=_seed_attr(r))
                res.case((tag, done, op, key, tr.s))
                if done <= 2:
                    res.sample({'kind': 'hist_ev', 'op': op, 'arg': key, 'value_bytes': b, 'value_times_2^24': tr.s, 'state_read': r._seed})


def _gen_program(rng, tr_events):
    """
    A stored program. Returns lines; appends to tr_events the ordered tracker events
    ('restart', how) / ('value', op, key) / ('randomize', key) / ('unrecorded',) for the oracle.
    """
    lines = []
    ln = 10
    # unrecorded prefix (changes the state before the CLEAR / leaves it unknown without one)
    pre = []
    for _ in range(rng.randint(0, 3)):
        q = rng.random()
        if q < 0.5:
            pre.append(b'X=RND')
        elif q < 0.75:
            pre.append(b'X=RND(' + _neg_arg(rng)[1] + b')')
        else:
            pre.append(b'RANDOMIZE ' + _randomize_arg(rng)[1])
    lines.append(b'%d REM' % ln)
    ln += 10
    for p in pre:
        lines.append(b'%d %s' % (ln, p))
        ln += 10
    if pre:
        tr_events.append(('unrecorded',))
    if rng.random() < 0.6:
        how = rng.choice((b'CLEAR', b'CLEAR ,32768', b'CLEAR 100'))
        lines.append(b'%d %s' % (ln, how))
        ln += 10
        tr_events.append(('restart', how.decode()))
    lines.append(b'%d S$=""' % ln)
    ln += 10
    nvals = 0
    target = rng.randint(5, 60)
    while nvals < target:
        q = rng.random()
        if q < 0.3:
            k = min(rng.randint(1, 12), target - nvals)
            lines.append(b'%d FOR I%%=1 TO %d:S$=S$+MKS$(RND):NEXT' % (ln, k))
            tr_events.extend([('value', 'next', None)] * k)
            nvals += k
        elif q < 0.5:
            lines.append(b'%d R!=RND:S$=S$+MKS$(R!)' % ln)
            tr_events.append(('value', 'next', None))
            nvals += 1
        elif q < 0.6:
            a = rng.choice(POS_ARGS)
            lines.append(b'%d S$=S$+MKS$(RND(' % ln + a + b'))')
            tr_events.append(('value', 'next', a))
            nvals += 1
        elif q < 0.75:
            lines.append(b'%d S$=S$+MKS$(RND(0))' % ln)
            tr_events.append(('value', 'zero', None))
            nvals += 1
        elif q < 0.88:
            key, src = _neg_arg(rng)
            lines.append(b'%d S$=S$+MKS$(RND(' % ln + src + b'))')
            tr_events.append(('value', 'neg', key))
            nvals += 1
        else:
            key, src = _randomize_arg(rng)
            lines.append(b'%d RANDOMIZE ' % ln + src)
            tr_events.append(('randomize', key))
        ln += 10
    return lines, nvals


def _shard_hist_prog(spec, res, harness, rng):
    """Stored programs; RUN / RUN n / GOTO launches in reused sessions; CLEAR inside programs."""
    fresh, fresh_vals = _fresh_state(harness)
    maps = {'neg': {}, 'rz': {}}
    n = spec['n']
    done = 0
    tag = spec.get('part', 0)
    while done < n:
        with harness.Box(budget=5000) as box:
            tr = Tracker(res, fresh, maps, fresh_vals)
            for _ in range(min(n - done, rng.choice((1, 3, 12)))):
                done += 1
                events = []
                lines, nvals = _gen_program(rng, events)
                launch = rng.choice((b'RUN', b'RUN', b'RUN 10', b'GOTO 10'))
                case = {'program': [l.decode('latin-1') for l in lines], 'launch': launch.decode()}
                try:
                    out = box.run(lines, cmd=launch)
                    s = box.get('S$')
                except harness.Internal as e:
                    res.violation(e.key, str(e), case)
                    tr.unknown()
                    continue
                code, _ln = harness.err_of(out)
                if code or not isinstance(s, bytes) or len(s) != 4 * nvals:
                    res.violation('rnd:program-did-not-deliver-its-values', 'output %r, S$ has %r bytes, expected %d'
                                  % (out[-80:], None if s is None else len(s), 4 * nvals), case)
                    tr.unknown()
                    continue
                if launch.startswith(b'RUN'):
                    tr.restart(launch.decode())
                else:
                    # NEW and entering program lines happened since the last program: the statement says nothing
                    # about what they do to the generator
                    tr.unknown()
                pos = 0
                for ev in events:
                    if ev[0] == 'unrecorded':
                        tr.unknown()
                    elif ev[0] == 'restart':
                        tr.restart(ev[1])
                    elif ev[0] == 'randomize':
                        tr.randomize(ev[1], None, case)
                    else:
                        tr.value(ev[1], ev[2], s[pos:pos + 4], case)
                        pos += 4
                        res.case((tag, done, pos, ev[1], ev[2], tr.s))
                if done <= 1:
                    res.sample({'kind': 'hist_prog', 'program': lines, 'launch': launch, 'S$': s})
            # the state the program left must be what the values imply (read-only cross-check)
            if tr.s is not None and not tr.zero_since and tr.pending is None and tr.since in ('RND', 'RND(-x)'):
                if _seed_attr(box.impl.randomiser) != tr.s:
                    res.violation('rnd:value-not-seed-over-2^24', 'last value %d/2^24 but generator state %r'
                                  % (tr.s, box.impl.randomiser._seed), [])


# ---------------------------------------------------------------------------------------------
# same-argument experiments

def _three(box, res, case):
    """Three consecutive RND values as integers (None on trouble); checks exactness + documented succession."""
    out = []
    for i in range(3):
        b = box.ev(b'MKS$(RND)')
        if b is None or len(b) != 4:
            res.violation('rnd:unexpected-basic-error', 'MKS$(RND) gave %r' % (b,), case)
            return None
        sv = rrnd.seed_of_single(b)
        res.count('values_checked_exact')
        if not isinstance(sv, int):
            res.violation(_value_problem_key(sv), 'bytes %s: %s' % (b.hex(), sv), case)
            return None
        if out and sv != rrnd.step(out[-1]):
            res.violation('rnd:successor-not-documented-lcg-step', '%d followed by %d' % (out[-1], sv), case)
        out.append(sv)
    return out


def _low_byte_twin(box, res, fresh):
    """A negative argument source after which the generator's state has the same low byte as a fresh session (observed)."""
    for low in range(256):
        src = cvs(rrnd.neg_single_bytes((1 << 23) | 0x123400 | low))
        b = box.ev(b'MKS$(RND(' + src + b'))')
        sv = rrnd.seed_of_single(b) if b else None
        if isinstance(sv, int) and (sv & 0xff) == (fresh & 0xff) and sv != fresh:
            return src
    return None


def _randomize_contexts(box, res, fresh, twin, key, setup, argsrc, case, argbytes=None, ncache=None):
    """
    RANDOMIZE <arg> in four histories:
      A, A2: after CLEAR (twice)           -> must be identical (same argument, same state)
      C    : after RND(twin) = other state with the same low byte as fresh -> literal statement: identical
      B    : after CLEAR and one RND       -> literal statement: identical; recorded deviation: differs
    """
    r = box.impl.randomiser
    seqs = {}
    seeds = {}
    for ctx, prefix in (('A', b'CLEAR:'), ('A2', b'CLEAR:'), ('C', b'X=RND(' + (twin or b'-1') + b'):'), ('B', b'CLEAR:X=RND:')):
        if ctx == 'C' and twin is None:
            continue
        out = box.ex(prefix + setup + b'RANDOMIZE ' + argsrc)
        if harness_err(out):
            res.violation('randomize:unexpected-error', 'RANDOMIZE %r -> %r' % (key, out), case)
            return
        seeds[ctx] = _seed_attr(r)
        seqs[ctx] = _three(box, res, case)
        if seqs[ctx] is None:
            return
        if seqs[ctx][0] != rrnd.step(seeds[ctx]):
            res.violation('rnd:successor-not-documented-lcg-step', 'state %d after RANDOMIZE, first value %d/2^24'
                          % (seeds[ctx], seqs[ctx][0]), case)
    res.count('randomize_same_arg_same_state_pairs')
    if seqs['A'] != seqs['A2']:
        res.violation('randomize:same-argument-same-state-different-sequence',
                      'CLEAR:RANDOMIZE %r gave %r then %r' % (key, seqs['A'], seqs['A2']), case)
    if 'C' in seqs:
        res.count('randomize_same_arg_same_low_byte_pairs')
        if seqs['C'] != seqs['A']:
            res.violation('randomize:same-argument-same-prior-low-byte-different-seed',
                          'RANDOMIZE %r after CLEAR gave %r, after RND(twin) (same low byte of the seed) %r' % (key, seqs['A'], seqs['C']), case)
    if seqs['B'] != seqs['A']:
        res.count('randomize_same_arg_other_history_differs')
        res.violation('randomize:reseed-keeps-low-byte-of-previous-seed',
                      'CLEAR:RANDOMIZE %r then RND,RND,RND = %r/2^24 but CLEAR:X=RND:RANDOMIZE %r gives %r/2^24: the same argument '
                      'does not reseed identically (seeds %d vs %d)' % (key, seqs['A'], key, seqs['B'], seeds['A'], seeds['B']), case)
    else:
        res.count('randomize_same_arg_other_history_same')
    if argbytes is not None:
        # documented reduction of the argument to a 16-bit number: RANDOMIZE <arg> after CLEAR must give what
        # RANDOMIZE N% gives after CLEAR for that number (differential against the integer path, same prior state)
        n = rrnd.randomize_n(argbytes)
        ref = None if ncache is None else ncache.get(n)
        if ref is None:
            out = box.ex(b'CLEAR:N%%=%d:RANDOMIZE N%%' % n)
            if harness_err(out):
                res.violation('randomize:unexpected-error', 'RANDOMIZE N%% (=%d) -> %r' % (n, out), case)
                return seeds['A']
            ref = (_seed_attr(r), _three(box, res, case))
            if ncache is not None and len(ncache) < 70000:
                ncache[n] = ref
        res.count('randomize_args_compared_with_documented_reduction')
        if len(argbytes) == 8 and (argbytes[0] or argbytes[1]):
            res.count('randomize_doubles_with_low_mantissa_bits')
        if ref != (seeds['A'], seqs['A']):
            res.violation('randomize:%s-argument-not-reduced-as-documented' % {2: 'integer', 4: 'single', 8: 'double'}.get(len(argbytes), 'other'),
                          'CLEAR:RANDOMIZE %r (bytes %s): seed %d, values %r/2^24; the manual takes the last two bytes xor the preceding two '
                          '= %d, and CLEAR:RANDOMIZE %d%% gives seed %d, values %r/2^24'
                          % (key, bytes(argbytes).hex(), seeds['A'], seqs['A'], n, n, ref[0], ref[1]), case)
    return seeds['A']


def harness_err(out):
    from .. import harness
    return harness.err_of(out)[0]


def _shard_randomize_int(spec, res, harness, rng):
    fresh, _ = _fresh_state(harness)
    count, part, parts = spec['count'], spec['part'], spec['parts']
    if count >= 65536:
        alln = list(range(-32768, 32768))
    else:
        # a set closed under n -> n xor 0x8000 (seeds 2^23 apart), boundary values always in
        base = {0, 1, -1, 2, 255, 256, 32767, -32768, -32767, 127, 128, -128, -129, 16384, -16384}
        pool = random.Random('%s:C39:randomize_int:set' % spec['seed'])
        while len(base) < count // 2:
            base.add(pool.randint(-32768, 32767))
        allv = set()
        for n in base:
            allv.add(n)
            allv.add(n + 32768 if n < 0 else n - 32768)
        alln = sorted(allv)
    mine = alln[part::parts]
    seeds = set()
    with harness.Box() as box:
        twin = _low_byte_twin(box, res, fresh)
        if twin is None:
            res.count('no_low_byte_twin_found')
        for n in mine:
            case = ['RANDOMIZE N%', n]
            try:
                sd = _randomize_contexts(box, res, fresh, twin, n, b'N%%=%d:' % n, b'N%', case)
            except harness.Internal as e:
                res.violation(e.key, str(e), case)
                continue
            if sd is not None:
                seeds.add(sd)
            res.case(('rzint', n))
            res.count('randomize_int_args')
    res.count('randomize_int_distinct_seeds_after_CLEAR', len(seeds))
    res.sample({'kind': 'randomize_int', 'arguments': len(mine), 'first': mine[:6], 'distinct seeds': len(seeds)})


def _shard_randomize_float(spec, res, harness, rng):
    fresh, _ = _fresh_state(harness)
    directed = [('cvs', bytes(b)) for b in (b'\0\0\0\x81', b'\0\0\0\x7f', b'\0\0\x80\x81', b'\xff\xff\x7f\xff', b'\xff\xff\xff\xff',
                                            b'\1\0\0\1', b'\0\0\0\0', b'\0\0\0\x90', b'\0\xff\0\x98')]
    directed += [('cvd', bytes(b)) for b in (b'\0\0\0\0\0\0\0\x81', b'\0\0\0\0\0\0\0\x7f', b'\xde\xad\xbe\xef\xff\x80\0\x80',
                                             b'\xff' * 8, b'\0' * 8, b'\1\2\3\4\5\6\7\x88')]
    ncache = {}
    with harness.Box() as box:
        twin = _low_byte_twin(box, res, fresh)
        for i in range(spec['n']):
            if i < len(directed):
                kind, b = directed[i]
            elif rng.random() < 0.5:
                kind, b = 'cvs', _rand_single_bytes(rng)
            else:
                kind, b = 'cvd', _rand_double_bytes(rng)
            src = cvs(b) if kind == 'cvs' else cvd(b)
            case = ['RANDOMIZE', kind, b.hex()]
            try:
                if rng.random() < 0.5:
                    _randomize_contexts(box, res, fresh, twin, (kind, b.hex()), b'', src, case, argbytes=b, ncache=ncache)
                else:
                    var = b'V!' if kind == 'cvs' else b'V#'
                    _randomize_contexts(box, res, fresh, twin, (kind, b.hex()), var + b'=' + src + b':', var, case, argbytes=b, ncache=ncache)
            except harness.Internal as e:
                res.violation(e.key, str(e), case)
                continue
            res.case(('rzfloat', kind, b))
            res.count('randomize_float_args')
            if i == len(directed):
                res.sample({'kind': 'randomize_float', 'statement': b'CLEAR:RANDOMIZE ' + src})


def _shard_negarg(spec, res, harness, rng):
    """RND(-x): every value of each mantissa byte and of the exponent byte (directed), then random singles/doubles/texts."""
    fresh, _ = _fresh_state(harness)
    classes = []
    if spec.get('part', 0) == 0 or spec['tier'] == 'quick':
        for v in range(256):
            classes.append(bytes([v, 0x34, 0x92, 0x85]))
            classes.append(bytes([0x56, v, 0xc5, 0x7a]))
            classes.append(bytes([0x9a, 0xbc, 0x80 | (v & 0x7f), 0x81]))
            if v:
                classes.append(bytes([0x01, 0x80, 0xff, v]))
        classes = sorted(set(classes))
        if spec['tier'] == 'quick':
            classes = classes[spec.get('part', 0)::2]
    n = spec['n']
    histories = (b'CLEAR', b'CLEAR:X=RND:X=RND', b'RANDOMIZE 77:X=RND', b'X=RND(-3):X=RND(0)', b'X=RND')
    with harness.Box() as box:
        r = box.impl.randomiser
        seeds = set()
        for i in range(n):
            if i < len(classes):
                key, src = ('cvs', classes[i]), cvs(classes[i])
                res.count('rndneg_mantissa_exponent_byte_classes')
            else:
                key, src = _neg_arg(rng)
            case = ['RND(-x)', list(key[:1]) + [bytes(key[1]).hex()]]
            firsts = []
            try:
                for h in rng.sample(histories, 2):
                    box.ex(h)
                    b = box.ev(b'MKS$(RND(' + src + b'))')
                    if b is None or len(b) != 4:
                        res.violation('rnd:unexpected-basic-error', 'RND(%r) gave %r' % (src, b), case)
                        break
                    sv = rrnd.seed_of_single(b)
                    res.count('values_checked_exact')
                    if not isinstance(sv, int):
                        res.violation(_value_problem_key(sv), 'RND(%r) bytes %s: %s' % (src, b.hex(), sv), case)
                        break
                    if sv != _seed_attr(r):
                        res.violation('rnd:value-not-seed-over-2^24', 'RND(%r) = %d/2^24, state %r' % (src, sv, r._seed), case)
                    b0 = box.ev(b'MKS$(RND(0))')
                    res.count('rnd0_repeat_checked')
                    if b0 != b:
                        res.violation('rnd0:does-not-repeat-last-value', 'RND(0) after RND(%r): %r vs %r' % (src, b0, b), case)
                    seq = _three(box, res, case)
                    if seq is None:
                        break
                    if seq[0] != rrnd.step(sv):
                        res.violation('rnd:successor-not-documented-lcg-step', 'RND(%r) = %d/2^24 followed by %d/2^24' % (src, sv, seq[0]), case)
                    firsts.append([sv] + seq)
            except harness.Internal as e:
                res.violation(e.key, str(e), case)
                continue
            if len(firsts) == 2:
                res.count('rndneg_same_arg_pairs')
                seeds.add(firsts[0][0])
                if firsts[0] != firsts[1]:
                    res.violation('rndneg:same-argument-different-seed',
                                  'RND(%r) after two different histories: %r vs %r' % (src, firsts[0], firsts[1]), case)
            res.case(('neg', key))
            if i == 0:
                res.sample({'kind': 'negarg', 'expression': b'RND(' + src + b')', 'sequences': firsts})
        res.count('rndneg_distinct_seeds', len(seeds))


# ---------------------------------------------------------------------------------------------
# boundary states

def boundary_targets():
    """States at the edges of the 24-bit range: 2^k-1, 2^k, 2^k+1, all-ones / high-byte patterns."""
    ts = set()
    for k in range(25):
        for d in (-1, 0, 1):
            ts.add((1 << k) + d)
    ts.update((0, 1, 2, M - 1, M - 2, 0x7fffff, 0x7ffffe, 0x800000, 0x800001, 0xffff00, 0xffff01, 0xffff7f, 0xffff80,
               0xfffffe, 0xff0000, 0xff00ff, 0x00ffff, 0x7fff00, 0x7fff80, 0x800080, 0xff, 0x100, 0xaaaaaa, 0x555555,
               0xc00000, 0xbfffff, 0x400000, 0x3fffff))
    return sorted(x for x in ts if 0 <= x < M)


def _boundary_states(res, harness):
    """
    For each target state T: a negative argument whose mantissa is (by the documented LCG) j+1 >= 2 steps before T,
    then RND j times, so that a plain RND steps from T's predecessor INTO T; then RND(0) x2, then RND out of T.
    The model only chooses the argument; every state is READ, every value decoded, BASIC level (Session.evaluate).
    """
    hit = 0
    with harness.Box() as box:
        r = box.impl.randomiser
        for T in boundary_targets():
            m, j = rrnd.pred(rrnd.pred(T)), 1
            while m < (1 << 23) and j < 64:
                m, j = rrnd.pred(m), j + 1
            if m < (1 << 23):
                res.count('boundary_states_not_reachable')
                continue
            src = cvs(rrnd.neg_single_bytes(m))
            case = ['boundary state', T, 'RND(%s) then %d x RND' % (src.decode(), j)]
            steps = [b'MKS$(RND(' + src + b'))'] + [b'MKS$(RND)'] * j + [b'MKS$(RND(0))', b'MKS$(RND(0))', b'MKS$(RND)']
            prev_state = prev_val = None
            for i, expr in enumerate(steps):
                try:
                    b = box.ev(expr)
                except harness.Internal as e:
                    res.violation(e.key, str(e), case)
                    break
                s = _seed_attr(r)
                res.count('values_checked_exact')
                if b is None or len(b) != 4:
                    res.violation('rnd:unexpected-basic-error', '%r gave %r in state %r' % (expr, b, s), case)
                    break
                sv = rrnd.seed_of_single(b)
                if not isinstance(sv, int):
                    res.violation(_value_problem_key(sv), 'state %d: RND returned bytes %s (%s)' % (s, b.hex(), sv), case)
                elif sv != s:
                    res.violation('rnd:value-not-seed-over-2^24',
                                  'state %d (&H%06X): RND returned bytes %s = %d/2^24, expected exactly %d/2^24' % (s, s, b.hex(), sv, s), case)
                zero = expr.endswith(b'(0))')
                if zero:
                    res.count('rnd0_repeat_checked')
                    if b != prev_val:
                        res.violation('rnd0:does-not-repeat-last-value', 'state %d: RND(0) gave %s after %s' % (s, b.hex(), prev_val.hex()), case)
                    if s != prev_state:
                        res.violation('rnd0:advances-or-disturbs-the-sequence', 'RND(0) moved the state from %d to %d' % (prev_state, s), case)
                elif i > 0 and s != rrnd.step(prev_state):
                    res.violation('rnd:successor-not-documented-lcg-step',
                                  'state %d is followed by %d, documented LCG gives %d' % (prev_state, s, rrnd.step(prev_state)), case)
                if i == j and s == T:
                    hit += 1
                prev_state, prev_val = s, b
            res.case(('boundary-state', T))
    res.count('boundary_states_stepped_into', hit)


# ---------------------------------------------------------------------------------------------
# directed core

def _shard_directed(spec, res, harness):
    # 1. the model's own consistency with the documentation
    fs = rrnd.derive_fresh_seed()
    res.case('model:fresh-seed-unique')
    if len(fs) != 1:
        res.inconclusive('model: start-up seed not uniquely derivable from the documented numbers: %r' % (fs,))
        return
    doc_seed = fs[0]
    if not rrnd.predicts_full_period():
        res.inconclusive('model: documented constants do not predict a full period')
    # 1b. the fast byte decoder used in the walks against the R-NUM reference decoder
    chk = random.Random('C39:decoder-self-check')
    for i in range(30000):
        b = bytes([chk.randrange(256), chk.randrange(256), chk.randrange(256),
                   chk.choice((0, 1, 100, 104, 105, 110, 120, 127, 128, 129, 255, chk.randrange(256)))])
        got = rrnd.seed_of_single(b)
        v = rnum.decode(b)
        if isinstance(got, int):
            good = 0 <= v < 1 and v * M == got
        elif got == 'negative':
            good = v < 0
        elif got == 'ge-one':
            good = v >= 1
        else:
            good = 0 < v < 1 and (v * M).denominator != 1
        if not good:
            res.inconclusive('decoder self-check failed for bytes %s: %r vs %r' % (b.hex(), got, v))
            return
    res.count('decoder_self_check_patterns', 30000)
    # 2. fresh session: documented numbers, printed and exact
    with harness.Box() as box:
        r = box.impl.randomiser
        out = box.ex(b'PRINT RND;RND;RND;RND;RND')
        res.case('doc:first-five-printed')
        if out.split() != [t.encode() for t in rrnd.DOC_FIRST_PRINTED]:
            res.violation('rnd:start-up-sequence-differs-from-gwbasic', 'PRINT RND;RND;RND;RND;RND -> %r, GW-BASIC prints %r'
                          % (out, rrnd.DOC_FIRST_PRINTED), ['PRINT RND;RND;RND;RND;RND'])
        box.ex(b'CLEAR')
        out = box.ex(b'FOR I=1 TO 5:PRINT INT(RND*100);:NEXT')
        res.case('doc:first-five-int100')
        if [int(t) for t in out.split() if t.isdigit()] != rrnd.DOC_FIRST_INT100:
            res.violation('rnd:start-up-sequence-differs-from-gwbasic', 'INT(RND*100) x5 -> %r' % (out,), ['INT(RND*100)'])
    fresh, first = _fresh_state(harness)
    s = doc_seed
    exp = []
    for _ in range(len(first)):
        s = rrnd.step(s)
        exp.append(s)
    res.case('doc:first-values-exact')
    if first != exp:
        res.violation('rnd:start-up-sequence-differs-from-gwbasic', 'first values*2^24 %r, documented LCG from the documented start gives %r'
                      % (first, exp), ['MKS$(RND) x8'])
    # the constants implied by the first three observed values
    if all(isinstance(v, int) for v in first[:3]):
        res.case('doc:constants-from-observation')
        cs = rrnd.derive_constants(first[0], first[1], first[2])
        res.count('constants_derived_from_observed_values', 1 if cs else 0)
        if cs is not None and cs != (rrnd.A, rrnd.C):
            res.violation('rnd:successor-not-documented-lcg-step', 'first three values imply a=%d c=%d, documented a=%d c=%d'
                          % (cs + (rrnd.A, rrnd.C)), ['first three values'])
    # 3. restart after RUN / CLEAR: byte-identical value strings, program level
    prog = [b'10 S$="":T$=""', b'20 FOR I%=1 TO 60:S$=S$+MKS$(RND):NEXT', b'30 FOR I%=1 TO 60:T$=T$+MKS$(RND(1)):NEXT']
    with harness.Box() as box:
        box.run(prog)
        ref = box.get('S$') + box.get('T$')
    res.count('values_checked_exact', 120)
    tr = Tracker(res, fresh, {'neg': {}, 'rz': {}}, first)
    for i in range(0, len(ref), 4):
        tr.value('next', None, ref[i:i + 4], ['fresh program', i // 4])
    dirty = [b'X=RND', b'RANDOMIZE 12345', b'X=RND(-7.5)', b'RANDOMIZE -1:X=RND:X=RND(0)', b'FOR I=1 TO 300:X=RND:NEXT',
             b'X=RND(-1E+10):RANDOMIZE 1D+30']
    with harness.Box() as box:
        r = box.impl.randomiser
        for d in dirty:
            for how in ('RUN', 'RUN 10', 'RUN 20', 'CLEAR+GOTO', 'CLEAR ,32768+GOTO', 'CLEAR 10+GOTO', 'CLEAR in program'):
                case = [d.decode(), how]
                box.ex(b'NEW')
                box.enter(prog)
                box.ex(d)
                if how.startswith('RUN'):
                    if how == 'RUN 20':
                        box.ex(b'S$="":T$=""')    # wiped by RUN anyway
                    box.ex(how.encode())
                    res.count('restart_by_RUN_seen')
                elif how == 'CLEAR in program':
                    box.enter([b'5 X=RND:CLEAR'])
                    box.ex(b'GOTO 5')
                    res.count('restart_by_CLEAR_seen')
                else:
                    box.ex(how.split('+')[0].encode())
                    if _seed_attr(r) != fresh:
                        res.violation('rnd:CLEAR-does-not-reset-the-generator', 'state %r after %s / %s' % (r._seed, d, how), case)
                    box.ex(b'GOTO 10')
                    res.count('restart_by_CLEAR_seen')
                got = (box.get('S$') or b'') + (box.get('T$') or b'')
                res.case(('restart', d, how))
                # (RUN 20 skips line 10: S$ and T$ start empty after RUN's own clear -> same strings)
                if got != ref:
                    res.violation('rnd:sequence-after-%s-differs-from-fresh-session' % ('RUN' if how.startswith('RUN') else 'CLEAR'),
                                  'after %r then %s the first 120 values differ from a fresh session (first value*2^24: %r vs %r)'
                                  % (d, how, rrnd.seed_of_single(got[:4]) if len(got) >= 4 else None, rrnd.seed_of_single(ref[:4])), case)
    # 4. RND(0): repeats the last value; differential: the value after five RND(0) is the value without them
    with harness.Box() as box:
        r = box.impl.randomiser
        for setup in (b'X=RND', b'X=RND(1)', b'X=RND(-2)', b'RANDOMIZE 5:X=RND', b'X=RND:X=RND', b'X=RND(-1.5#)'):
            case = [setup.decode()]
            box.ex(b'CLEAR:' + setup)
            plain = box.ev(b'MKS$(RND)')
            box.ex(b'CLEAR:' + setup + b':Y=X')
            before = _seed_attr(r)
            vals = [box.ev(b'MKS$(RND(0))') for _ in range(3)] + [box.ev(b'MKS$(RND(0#))'), box.ev(b'MKS$(RND(0%*1))')]
            x = box.ev(b'MKS$(Y)')
            res.case(('rnd0', setup))
            res.count('rnd0_repeat_checked', len(vals))
            if any(v != x for v in vals):
                res.violation('rnd0:does-not-repeat-last-value', 'after %r: X=%r, RND(0) x5 = %r' % (setup, x, vals), case)
            nxt = box.ev(b'MKS$(RND)')
            if nxt != plain:
                res.violation('rnd0:advances-or-disturbs-the-sequence',
                              'CLEAR:%s then RND gives %r, with five RND(0) in between it gives %r (state before the RND(0)s: %d)'
                              % (setup.decode(), plain, nxt, before), case)
    # 5. same-argument reseeding, directed (includes the history-dependence reproducer)
    with harness.Box() as box:
        twin = _low_byte_twin(box, res, fresh)
        for t in (b'1', b'0', b'-1', b'32767', b'-32768', b'1!', b'1#', b'.25#', b'65536', b'1E+10', b'TIMER*0+3'):
            _randomize_contexts(box, res, fresh, twin, t.decode(), b'', t, ['RANDOMIZE', t.decode()])
            res.case(('rz-directed', t))
            res.count('randomize_int_args' if t.lstrip(b'-').isdigit() and abs(int(t)) < 32769 else 'randomize_float_args')
        # every numeric type, bytes of the argument read back through MKI$ / MKS$ / MKD$; doubles with low mantissa bits
        ncache = {}
        typed = [(b'%', b'MKI$', x) for x in (b'1', b'-1', b'0', b'32767', b'-32768', b'&H8001', b'255', b'256')]
        typed += [(b'!', b'MKS$', x) for x in (b'1', b'1.5', b'.1', b'40000', b'-1234.567', b'65536', b'1E+10', b'-1E-10', b'16777215', b'.3333333')]
        typed += [(b'#', b'MKD$', x) for x in (b'1', b'.25', b'-40960', b'.1', b'3.141592653589793', b'-12345.678', b'1D+20', b'123456789',
                                                 b'65536.0000152588', b'1.000000000000001', b'.1D-30', b'4294967297', b'-.3333333333333333')]
        for sigil, mk, lit in typed:
            var = b'V' + sigil
            if box.ex(var + b'=' + lit).strip(b'\r\n\xff'):
                continue
            ab = box.ev(mk + b'(' + var + b')')
            if not ab or len(ab) not in (2, 4, 8):
                continue
            case = ['RANDOMIZE', (var + b'=' + lit).decode()]
            _randomize_contexts(box, res, fresh, twin, (var + b'=' + lit).decode(), var + b'=' + lit + b':', var, case,
                                argbytes=ab, ncache=ncache)
            res.case(('rz-typed', sigil, lit))
            res.count('randomize_int_args' if sigil == b'%' else 'randomize_float_args')
        # typed literals directly as the argument
        for mk, lit in ((b'MKD$', b'.1#'), (b'MKD$', b'3.141592653589793#'), (b'MKD$', b'1D+20'), (b'MKD$', b'123456789#'),
                        (b'MKS$', b'.1!'), (b'MKS$', b'1.5!'), (b'MKI$', b'12345%')):
            ab = box.ev(mk + b'(' + lit + b')')
            if not ab:
                continue
            _randomize_contexts(box, res, fresh, twin, lit.decode(), b'', lit, ['RANDOMIZE', lit.decode()], argbytes=ab, ncache=ncache)
            res.case(('rz-literal', lit))
        for t in (b'-1', b'-2', b'-.5', b'-1E+10', b'-32768', b'-1.5#', cvs(b'\0\0\x80\x01'), cvs(b'\xff\xff\xff\xff')):
            seqs = []
            for h in (b'CLEAR', b'X=RND:X=RND', b'RANDOMIZE 9'):
                box.ex(h)
                b = box.ev(b'MKS$(RND(' + t + b'))')
                seqs.append([rrnd.seed_of_single(b)] + (_three(box, res, [t]) or []))
            res.case(('neg-directed', t))
            res.count('rndneg_same_arg_pairs', 2)
            if seqs[0] != seqs[1] or seqs[0] != seqs[2]:
                res.violation('rndneg:same-argument-different-seed', 'RND(%r) after three histories: %r' % (t, seqs), [t.decode('latin-1')])
            if not isinstance(seqs[0][0], int):
                res.violation(_value_problem_key(seqs[0][0]), 'RND(%r): %r' % (t, seqs[0][0]), [t.decode('latin-1')])
    # 5b. boundary generator states, stepped INTO by RND (value construction at the edges of the 24-bit range)
    _boundary_states(res, harness)
    # 6. a short real walk so that the directed shard also sees the step function
    with harness.Box() as box:
        r = box.impl.randomiser
        cur = _seed_attr(r)
        bitmap = bytearray(M >> 3)
        bitmap[cur >> 3] |= 1 << (cur & 7)
        end, done = _walk(res, r, cur, 20000, bitmap, set(), None, 'directed walk')
        res.bulk(done, done)
        res.count('states_walked', done)
        res.count('values_checked_exact', done)
    res.sample({'kind': 'directed', 'documented_start_seed': doc_seed, 'observed_fresh_state': fresh,
                'first_values_times_2^24': first, 'model_predicts_full_period': rrnd.predicts_full_period()})


# ---------------------------------------------------------------------------------------------

def run_shard(spec, res):
    from .. import harness
    kind = spec['kind']
    rng = random.Random('%s:C39:%s:%s' % (spec['seed'], kind, spec.get('part', 0)))
    try:
        if kind == 'directed':
            _shard_directed(spec, res, harness)
        elif kind == 'cycle':
            _shard_cycle(spec, res, harness)
        elif kind == 'walk':
            _shard_walk(spec, res, harness)
        elif kind == 'inject':
            _shard_inject(spec, res, harness, rng)
        elif kind == 'hist_ev':
            _shard_hist_ev(spec, res, harness, rng)
        elif kind == 'hist_prog':
            _shard_hist_prog(spec, res, harness, rng)
        elif kind == 'randomize_int':
            _shard_randomize_int(spec, res, harness, rng)
        elif kind == 'randomize_float':
            _shard_randomize_float(spec, res, harness, rng)
        elif kind == 'negarg':
            _shard_negarg(spec, res, harness, rng)
        else:
            raise ValueError(kind)
    except _NoSeedAttr as e:
        res.inconclusive(str(e))
    except harness.Internal as e:
        res.violation(e.key, str(e), [kind])
    except (harness.error.BASICError,) as e:
        res.violation('rnd:unexpected-basic-error', 'BASIC error %r escaped in shard %s' % (e, kind), [kind])
