"""
C44 TIME$, DATE$ and ENVIRON read back what was set.

Oracle: the property's own grammar of valid values, under the harness's virtual clock
(time does not advance unless the check advances it, so read-back is exact):

 valid    (two-digit hh | hh:mm | hh:mm:ss in range; mm-dd-yy[yy] / mm/dd/yy[yy] of a real calendar day,
           yyyy 1980..2099, yy 80..99 -> 19yy, 00..77 -> 20yy): no error; TIME$ / DATE$ return the value
           (normalised to hh:mm:ss / mm-dd-yyyy); after advancing the clock by k seconds TIME$ has advanced by k.
 invalid  (out-of-range, negative, signed, empty or non-numeric component, wrong number of parts):
           error 5 and TIME$ and DATE$ both unchanged.
 either   (spellings the statement does not pin: one-digit or zero-padded longer components, blanks around a
           component, '.' as time separator, mixed date separators, 1-3 digit years): one of the two
           outcomes above, consistently.
 sub-second: with the clock aligned to a whole second at the set, the clock is moved in microsecond steps around
           every carry (seconds, minutes, hours, midnight at month / year ends) and both functions are read after
           every step: TIME$ is a valid time of day equal to the set time plus the WHOLE seconds elapsed (never
           ahead, never behind) and DATE$ changes exactly when that sum passes midnight.
 ENVIRON "name=value" then ENVIRON$(name), ENVIRON$(lower), ENVIRON$(upper), ENVIRON$(random case) = value;
           a later ENVIRON under another capitalisation replaces the value. NUL / control bytes / non-ASCII
           names: a BASIC error or an exact read-back, never a host exception.
"""
import calendar
import os
import random

META = {
    'property_id': 'C44',
    'technique': 'set / read-back monitor under a virtual clock against an independent validity grammar',
    'level': 'exploration',
    'level_text': (
        'Runtime oracle: every TIME$ / DATE$ assignment is classified by an independent grammar of the property '
        '(valid / invalid / unpinned spelling) and the error code and the values both functions return afterwards '
        'are compared with the prediction; the clock is virtual, so equality is exact, and explicit clock advances '
        'check that time moves by exactly the elapsed seconds. ENVIRON strings are read back through ENVIRON$ under '
        'four capitalisations of the name. Thorough tier enumerates all 86400+1440+24 times and all 43830 days of '
        '1980..2099 in every pinned format; quick tier enumerates all hh:mm and hh forms, boundary hh:mm:ss and '
        'every month start/end and samples the rest.'),
    'level_note': (
        'Trusted: the harness VirtualClock (replaces datetime in clock.py), Python calendar for month lengths. '
        'The two-digit-year window (80-99 -> 19yy, 00-77 -> 20yy) is taken from the GW-BASIC manual. Not pinned '
        '(either outcome accepted if consistent): one-digit components, blanks around components, dots as time '
        'separators, mixed date separators, years written with 1-3 digits or with extra leading zeros. Pinned as '
        'invalid per the property quantifier: signed components (+5, -0), digits with underscores (1_2), empty '
        'components. Malformed ENVIRON strings (no "=", empty name) are only required not to crash. ENVIRON$(n) by '
        'index is not part of the statement.'),
    'rule': ('case = (function, the string assigned, the clock advance if any) or (ENVIRON string, spelling of the name '
             'read back); distinct by that tuple; enumerated blocks are duplicate-free by construction; non-trivial = '
             'the assignment was executed and both read-backs were compared'),
    'design_ref': 'DESIGN.md section 4 C44',
    'assumptions': ['the virtual clock is the only time source of clock.py', 'POSIX os.environ (case-sensitive host names)'],
    'exhaustive': {
        'quick': 'all 1440 hh:mm and all 24 hh time strings; every first and last day of every month 1980-2099 in four formats',
        'thorough': 'all 86400 hh:mm:ss, 1440 hh:mm and 24 hh time strings; all 43830 days 1980-01-01..2099-12-31 as mm-dd-yyyy and '
                    'mm/dd/yyyy (and mm-dd-yy, mm/dd/yy where the two-digit year is in the window)'},
    'require_counters': {'any': ['time_valid_readback_ok', 'date_valid_readback_ok', 'invalid_rejected_unchanged',
                                 'environ_readback_ok', 'environ_case_variants_ok', 'clock_advances_checked',
                                 'subsecond_readbacks_ok', 'carries_observed', 'midnight_wraps_observed']},
}

WS = b' \t\n\x0b\x0c\r'


# ---------------------------------------------------------------------------------------
# the oracle's grammar

def _num(comp):
    """-> (kind, value): kind 'strict' (exactly the digits), 'lenient' (blanks around digits), None."""
    core = comp.strip(WS)
    if not core or not core.isdigit() or not all(48 <= c <= 57 for c in core):
        return None, None
    return ('strict' if core == comp else 'lenient'), int(core)


def classify_time(s):
    """('valid'|'either', (h, m, s)) | ('invalid', None)"""
    seps = s.count(b':') + s.count(b'.')
    parts = s.replace(b'.', b':').split(b':')
    if not (1 <= len(parts) <= 3):
        return 'invalid', None
    vals, strict = [], b'.' not in s
    for p in parts:
        k, v = _num(p)
        if k is None:
            return 'invalid', None
        if k != 'strict' or len(p) != 2:
            strict = False
        vals.append(v)
    vals += [0] * (3 - len(vals))
    if vals[0] > 23 or vals[1] > 59 or vals[2] > 59:
        return 'invalid', None
    return ('valid' if strict else 'either'), tuple(vals)


def year_of(v, ndigits):
    """Calendar year for a year component or None."""
    if 1980 <= v <= 2099:
        return v
    if 80 <= v <= 99:
        return 1900 + v
    if 0 <= v <= 77:
        return 2000 + v
    return None


def classify_date(s):
    """('valid'|'either', (y, m, d)) | ('invalid', None)"""
    parts = s.replace(b'/', b'-').split(b'-')
    if len(parts) != 3:
        return 'invalid', None
    strict = not (b'/' in s and b'-' in s)
    vals = []
    for i, p in enumerate(parts):
        k, v = _num(p)
        if k is None:
            return 'invalid', None
        if k != 'strict' or len(p) != (2 if i < 2 else len(p)) or (i == 2 and len(p) not in (2, 4)):
            strict = False
        vals.append(v)
    m, d, yv = vals
    y = year_of(yv, len(parts[2].strip(WS)))
    if y is None or not (1 <= m <= 12):
        return 'invalid', None
    if not (1 <= d <= calendar.monthrange(y, m)[1]):
        return 'invalid', None
    core = parts[2].strip(WS)
    if len(core) == 4 and yv < 1000:
        strict = False                      # '0080'
    if len(core) == 2 and not (yv <= 77 or yv >= 80):
        return 'invalid', None
    return ('valid' if strict else 'either'), (y, m, d)


def fmt_time(t):
    return b'%02d:%02d:%02d' % t


def fmt_date(ymd):
    return b'%02d-%02d-%04d' % (ymd[1], ymd[2], ymd[0])


# ---------------------------------------------------------------------------------------
# the monitored session

class Clk(object):

    def __init__(self, res):
        from .. import harness
        self.harness = harness
        self.res = res
        self.box = harness.Box(budget=1000)
        self.cur_time = None     # what TIME$ / DATE$ must return now (None = unknown)
        self.cur_date = None
        self.sync()

    def close(self):
        self.box.close()

    def __enter__(self):
        return self

    def __exit__(self, *a):
        self.close()
        return False

    def sync(self):
        self.cur_time = self.box.ev(b'TIME$')
        self.cur_date = self.box.ev(b'DATE$')

    def assign(self, fn, s, literal=False):
        """fn = b'TIME$' | b'DATE$'. -> error code, or None after an internal error was reported."""
        box, harness = self.box, self.harness
        try:
            if literal and b'"' not in s and all(32 <= c < 127 for c in s):
                out = box.ex(fn + b'="' + s + b'"')
            else:
                box.set('T$', s)
                out = box.ex(fn + b'=T$')
        except harness.Internal as e:
            self.res.count('internal_errors')
            self.res.violation(e.key, '%s=%r: %s' % (fn.decode(), s, e), {'fn': fn, 'value': s})
            self.sync()
            return None
        return harness.err_of(out)[0]

    def check(self, fn, s, literal=False, count=True):
        """Assign and judge one string."""
        res = self.res
        which = 'time' if fn == b'TIME$' else 'date'
        cls, val = (classify_time if which == 'time' else classify_date)(s)
        before_t, before_d = self.cur_time, self.cur_date
        code = self.assign(fn, s, literal)
        if code is None:
            return
        t, d = self.box.ev(b'TIME$'), self.box.ev(b'DATE$')
        case = {'fn': fn, 'value': s, 'class': cls, 'before': [before_t, before_d], 'after': [t, d], 'error': code}
        expect_ok = fmt_time(val) if (val is not None and which == 'time') else (fmt_date(val) if val is not None else None)
        if cls == 'invalid' or (cls == 'either' and code != 0):
            if code == 0:
                res.violation('%s:invalid-accepted:%s' % (which, invalid_mechanism(which, s)),
                              '%s=%r is not a valid %s but was accepted; %s now %r' % (fn.decode(), s, which, fn.decode(),
                                                                                       t if which == 'time' else d), case)
                self.sync()
                return
            if code != 5:
                res.violation('%s:invalid-wrong-error' % which, '%s=%r gave error %d, expected 5' % (fn.decode(), s, code), case)
            if (t, d) != (before_t, before_d):
                res.violation('%s:invalid-changed-clock' % which,
                              '%s=%r was rejected but TIME$/DATE$ went %r/%r -> %r/%r' % (fn.decode(), s, before_t, before_d, t, d), case)
                self.sync()
                return
            res.count('invalid_rejected_unchanged' if cls == 'invalid' else 'unpinned_spelling_rejected')
            return
        # valid, or an unpinned spelling that was accepted
        if code != 0:
            res.violation('%s:valid-rejected' % which, '%s=%r gave error %d' % (fn.decode(), s, code), case)
            self.sync()
            return
        got = t if which == 'time' else d
        if got != expect_ok:
            res.violation('%s:readback-differs' % which, '%s=%r then %s returned %r, expected %r' % (
                fn.decode(), s, fn.decode(), got, expect_ok), case)
            self.sync()
            return
        other_before, other_after = (before_d, d) if which == 'time' else (before_t, t)
        if other_before != other_after:
            # not a violation of the statement (it only speaks about the corresponding function); evidence only
            res.count('other_function_changed_by_set')
        self.cur_time, self.cur_date = t, d
        if count:
            res.count(('%s_valid_readback_ok' % which) if cls == 'valid' else 'unpinned_spelling_accepted')

    def advance(self, k):
        """Advance the virtual clock by k whole seconds and check TIME$ (and the day roll-over)."""
        res = self.res
        t0, d0 = self.cur_time, self.cur_date
        self.box.clock.advance(k)
        t, d = self.box.ev(b'TIME$'), self.box.ev(b'DATE$')
        h, m, s = [int(x) for x in t0.split(b':')]
        total = h * 3600 + m * 60 + s + k
        exp_t = fmt_time(((total // 3600) % 24, (total // 60) % 60, total % 60))
        case = {'time_before': t0, 'date_before': d0, 'advance_seconds': k, 'after': [t, d]}
        res.case(('advance', t0, d0, k))
        if t != exp_t:
            res.violation('time:advance-differs-from-elapsed', 'TIME$ %r + %d s elapsed gives %r, expected %r' % (t0, k, t, exp_t), case)
        else:
            res.count('clock_advances_checked')
            mm, dd, yy = [int(x) for x in d0.split(b'-')]
            import datetime
            nd = datetime.date(yy, mm, dd) + datetime.timedelta(days=total // 86400)
            if nd.year <= 2099:
                if d != fmt_date((nd.year, nd.month, nd.day)):
                    res.violation('date:rollover-differs', 'DATE$ %r, TIME$ %r + %d s gives DATE$ %r' % (d0, t0, k, d), case)
                elif total >= 86400:
                    res.count('midnight_rollovers_checked')
        self.cur_time, self.cur_date = t, d


def _clk_subsecond(self, t_set, d_set, steps_us):
    """
    Set DATE$/TIME$ with the (virtual) clock on a whole second, then move the clock in steps of micro-
    seconds and read both functions after every step. With E = whole seconds elapsed since the set:
    TIME$ must parse as a valid time and equal t_set + E (never ahead, never behind), and DATE$ must be
    d_set plus the number of times that sum passed midnight - it changes exactly when TIME$ wraps to 00:00:00.
    """
    import datetime
    res, box = self.res, self.box
    # align the clock to a whole second (the set keeps the sub-second phase of the clock)
    micro = box.clock.t.microsecond
    if micro:
        box.clock.advance((1000000 - micro) / 1e6)
    if box.clock.t.microsecond:
        box.clock.t = box.clock.t.replace(microsecond=0)
    self.check(b'DATE$', d_set, count=False)
    self.check(b'TIME$', t_set, count=False)
    if self.cur_time != t_set or self.cur_date != d_set:
        return                          # the set itself failed and was reported
    t0 = box.clock.t
    h, m, sec = [int(x) for x in t_set.split(b':')]
    base = h * 3600 + m * 60 + sec
    mm, dd, yy = [int(x) for x in d_set.split(b'-')]
    day0 = datetime.date(yy, mm, dd)
    for step in steps_us:
        box.clock.t = box.clock.t + datetime.timedelta(microseconds=step)
        el = box.clock.t - t0
        el_us = (el.days * 86400 + el.seconds) * 1000000 + el.microseconds
        total = base + el_us // 1000000
        exp_t = fmt_time(((total // 3600) % 24, (total // 60) % 60, total % 60))
        nd = day0 + datetime.timedelta(days=total // 86400)
        t, d = box.ev(b'TIME$'), box.ev(b'DATE$')
        case = {'time_set': t_set, 'date_set': d_set, 'elapsed_microseconds': el_us, 'read': [t, d]}
        res.case(('subsecond', t_set, d_set, el_us))
        ok = True
        parts = (t or b'').split(b':')
        valid = (len(parts) == 3 and all(len(x) == 2 and x.isdigit() for x in parts)
                 and int(parts[0]) < 24 and int(parts[1]) < 60 and int(parts[2]) < 60)
        if not valid:
            res.violation('time:function-returns-invalid-time',
                          'TIME$=%r, then %.6f s elapsed: TIME$ returns %r, which is not a time of day' % (t_set, el_us / 1e6, t), case)
            ok = False
        elif t != exp_t:
            got = int(parts[0]) * 3600 + int(parts[1]) * 60 + int(parts[2])
            ahead = ((got - total) % 86400) < 43200
            res.violation('time:runs-ahead-of-elapsed-time' if ahead else 'time:lags-behind-elapsed-time',
                          'TIME$=%r, then %.6f s elapsed (%d whole seconds): TIME$ returns %r, expected %r' % (
                              t_set, el_us / 1e6, el_us // 1000000, t, exp_t), case)
            ok = False
        if nd.year <= 2099 and d != fmt_date((nd.year, nd.month, nd.day)):
            res.violation('date:changes-not-at-midnight-wrap',
                          'DATE$=%r TIME$=%r, then %.6f s elapsed: TIME$ %r but DATE$ %r, expected %r' % (
                              d_set, t_set, el_us / 1e6, t, d, fmt_date((nd.year, nd.month, nd.day))), case)
            ok = False
        if ok:
            res.count('subsecond_readbacks_ok')
            if total % 60 == 0 and el_us >= 1000000 and el_us % 1000000 < 500000:
                res.count('carries_observed')
            if total // 86400 and el_us % 1000000 < 500000:
                res.count('midnight_wraps_observed')
    # leave the clock on a whole second again and resynchronise the tracked values
    micro = box.clock.t.microsecond
    if micro:
        box.clock.t = box.clock.t + datetime.timedelta(microseconds=1000000 - micro)
    self.sync()


Clk.subsecond = _clk_subsecond

# offsets (cumulative microseconds after the set) straddling the next whole seconds
SUBSECOND_WALK = [0, 1, 249999, 250000, 499999, 500000, 500001, 750000, 999998, 999999, 1000000, 1000001, 1250000, 1499999,
                  1500000, 1999999, 2000000, 2500000]


def walk_steps(offsets):
    out, prev = [], 0
    for o in offsets:
        out.append(o - prev)
        prev = o
    return out


def invalid_mechanism(which, s):
    """Why the oracle calls the string invalid (mechanism for the key)."""
    seps = (b':', b'.') if which == 'time' else (b'-', b'/')
    if b'_' in s:
        return 'underscore-in-number'
    if b'+' in s or (which == 'time' and b'-' in s):
        return 'signed-component'
    comps = s
    for sp in seps:
        comps = comps.replace(sp, b'\x01')
    comps = comps.split(b'\x01')
    if which == 'date' and len(comps) != 3 or which == 'time' and len(comps) > 3:
        return 'wrong-number-of-parts'
    if any(not c.strip(WS) for c in comps):
        return 'empty-component'
    if any(not c.strip(WS).isdigit() for c in comps):
        return 'non-numeric-component'
    return 'out-of-range'


# ---------------------------------------------------------------------------------------
# generators

TIME_INVALID = [
    b'24', b'24:00', b'24:00:00', b'99', b'23:60', b'23:99', b'23:59:60', b'23:59:99', b'00:60:00', b'100', b'123:00', b'12:100',
    b'12:30:100', b'1000000000000', b'12:345', b'25:61:61',
    b'-1', b'-1:00', b'12:-1', b'12:-1:00', b'12:30:-5', b'-12:30', b'-0', b'-00:00:00', b'12:-0', b'-5:-5:-5',
    b'+5', b'+05', b'+05:30', b'12:+30', b'12:30:+15', b'+0',
    b'', b':', b'::', b'12:', b':30', b'12::30', b'12:30:', b':30:15', b'.', b'12.',
    b'ab', b'12:xx', b'1a', b'12:3o:00', b'0x10', b'1e1', b'1_2', b'1_2:00', b'12:3_0', b'12;30', b'noon', b'12h30', b'12:30pm',
    b'\xb9\xb2', b'12:30:15\x00', b'\x0012', b'1 2', b'12:3 0', b'12,30', b'12-30', b'12/30/15', b'12:30:15.5',
    b'1:2:3:4', b'12:30:15:00', b'1.2.3.4', b'00:00:00:00', b'12: :30', b' ', b'  :  ',
]
TIME_EITHER = [b'1:2:3', b'7', b'7:5', b'07:5', b'7:05:09', b' 5', b'5 ', b' 05:30 ', b'12: 30', b'12.30.15', b'12:30.15',
               b'12.30', b'1.5', b'012', b'0012:030:0005', b'12:30:15 ', b'\t12:30', b'0:0:0', b'000']
DATE_INVALID = [
    b'13-01-2000', b'00-01-2000', b'99-01-2000', b'01-00-2000', b'01-32-2000', b'01-99-2000', b'02-30-2000', b'02-31-2000',
    b'02-29-2001', b'02-29-1900', b'02-29-2100', b'04-31-1999', b'06-31-2020', b'09-31-1985', b'11-31-2099', b'02-29-1981',
    b'02-29-81', b'02-29-01', b'13/01/2000', b'12/32/1999',
    b'01-02-78', b'01-02-79', b'01/02/78', b'01-02-100', b'01-02-999', b'01-02-1000', b'01-02-1979', b'12-31-1979', b'01-01-2100',
    b'01-02-9999', b'01-02-10000', b'01-02-19800', b'01-02-198',
    b'+1-02-1990', b'01-+2-1990', b'01-02-+1990', b'+01/+02/+1990', b'-1/02/1990', b'01/-2/1990', b'01/02/-1990', b'-01-02-1990',
    b'01--02-1990', b'01-02--90',
    b'', b'-', b'--', b'//', b'01--1990', b'01-02-', b'-02-1990', b'01-02', b'01', b'01-02-1990-5', b'1-2-3-4', b'01021990',
    b'01-02-1990-', b'-01-02-1990-', b'01/02', b'/', b'01//1990',
    b'ab-cd-efgh', b'01-02-19x0', b'1_0-01-2000', b'10-0_1-2000', b'01-01-2_000', b'Jan-01-2000', b'01-Jan-2000', b'01.02.1990',
    b'01:02:1990', b'01 02 1990', b'01-02-1990\x00', b'\xb1\xb2-01-2000', b'0x1-01-2000', b'1e0-01-2000', b'01-02-1990 x',
    b'1 0-01-2000', b'01-0 2-2000',
]
DATE_EITHER = [b'1-2-1990', b'1/2/90', b'1-02-1990', b'01-2-1990', b' 1-2-1990', b'01-02-1990 ', b'01 - 02 - 1990', b'01-02/1990',
               b'01/02-90', b'01-02-5', b'01-02-080', b'01-02-0080', b'001-002-1990', b'01-02-00080', b'1-1-0', b'12-31-077']


def mutate(rng, s, alphabet):
    s = bytearray(s)
    for _ in range(rng.choice([1, 1, 1, 2, 3])):
        r = rng.random()
        pos = rng.randrange(len(s) + 1)
        if r < 0.4 and s:
            s[min(pos, len(s) - 1)] = rng.choice(alphabet)
        elif r < 0.75:
            s[pos:pos] = bytes([rng.choice(alphabet)])
        elif s:
            del s[min(pos, len(s) - 1)]
    return bytes(s)


TIME_ALPHA = b'0123456789:::...+-- _ax\x00/9562'
DATE_ALPHA = b'0123456789---///+ _ax\x00.:1290'


def rand_time(rng):
    return (rng.randrange(24), rng.randrange(60), rng.randrange(60))


def rand_date(rng):
    y = rng.randint(1980, 2099)
    m = rng.randint(1, 12)
    return (y, m, rng.randint(1, calendar.monthrange(y, m)[1]))


def spell_date(ymd, sep, short):
    y, m, d = ymd
    if short:
        return b'%02d%s%02d%s%02d' % (m, sep, d, sep, y % 100)
    return b'%02d%s%02d%s%04d' % (m, sep, d, sep, y)


def short_ok(y):
    return 1980 <= y <= 1999 or 2000 <= y <= 2077


# ---------------------------------------------------------------------------------------
# plan / run

def plan(tier, seed):
    shards = [{'kind': 'time_directed'}, {'kind': 'date_directed'}, {'kind': 'environ_directed'}, {'kind': 'subsecond_directed'},
              {'kind': 'time_forms'}, {'kind': 'date_month_ends', 'part': 0, 'parts': 2}, {'kind': 'date_month_ends', 'part': 1, 'parts': 2}]
    if tier == 'quick':
        for i in range(4):
            shards.append({'kind': 'time_random', 'part': i, 'n': 4500})
        for i in range(4):
            shards.append({'kind': 'date_random', 'part': i, 'n': 4500})
        for i in range(3):
            shards.append({'kind': 'environ_random', 'part': i, 'n': 3000})
    else:
        for h in range(24):
            shards.append({'kind': 'time_all', 'hour': h, 'part': h})
        for i in range(12):
            shards.append({'kind': 'date_all', 'from': 1980 + 10 * i, 'to': 1989 + 10 * i, 'part': i})
        for i in range(6):
            shards.append({'kind': 'time_random', 'part': i, 'n': 40000})
        for i in range(6):
            shards.append({'kind': 'date_random', 'part': i, 'n': 40000})
        for i in range(8):
            shards.append({'kind': 'environ_random', 'part': i, 'n': 20000})
    return shards


def run_shard(spec, res):
    kind = spec['kind']
    rng = random.Random('%s:C44:%s:%s' % (spec['seed'], kind, spec.get('part', 0)))
    if kind.startswith('environ'):
        return _environ(spec, rng, res)
    with Clk(res) as clk:
        if kind == 'time_directed':
            _time_directed(clk, res)
        elif kind == 'date_directed':
            _date_directed(clk, res)
        elif kind == 'time_forms':
            _time_forms(clk, res)
        elif kind == 'subsecond_directed':
            _subsecond_directed(clk, res)
        elif kind == 'date_month_ends':
            _date_month_ends(clk, res, spec)
        elif kind == 'time_all':
            _time_all(clk, res, spec)
        elif kind == 'date_all':
            _date_all(clk, res, spec)
        elif kind == 'time_random':
            _time_random(clk, res, spec, rng)
        elif kind == 'date_random':
            _date_random(clk, res, spec, rng)
        else:
            raise ValueError(kind)


def _time_directed(clk, res):
    rng = random.Random('C44:time_directed')
    clk.check(b'TIME$', b'10:20:30')
    clk.check(b'DATE$', b'03-04-1995')
    for i, s in enumerate(TIME_INVALID):
        if classify_time(s)[0] != 'invalid':
            raise AssertionError('table entry %r is not invalid for the oracle' % s)
        clk.check(b'TIME$', s, literal=bool(i % 2))
        res.case(('time', s))
        if i % 7 == 0:
            clk.check(b'TIME$', fmt_time(rand_time(rng)))
    for s in TIME_EITHER:
        if classify_time(s)[0] != 'either':
            raise AssertionError('table entry %r is not an unpinned spelling for the oracle' % s)
        clk.check(b'TIME$', s)
        res.case(('time', s))
    # boundary hh:mm:ss
    edge = (0, 1, 29, 30, 58, 59)
    n = 0
    for h in range(24):
        for m in edge:
            for s in edge:
                clk.check(b'TIME$', fmt_time((h, m, s)), literal=(n % 5 == 0))
                n += 1
    res.bulk(n, n)
    # elapsed time, incl. midnight and month / year ends
    for t0, d0, k in [(b'23:59:58', b'12-31-1999', 1), (b'23:59:58', b'12-31-1999', 2), (b'23:59:58', b'12-31-1999', 3),
                      (b'00:00:00', b'01-01-1980', 86399), (b'00:00:00', b'01-01-1980', 86400), (b'12:00:00', b'02-28-2000', 86400),
                      (b'12:00:00', b'02-28-2001', 86400), (b'23:59:59', b'02-29-2096', 1), (b'10:00:00', b'06-15-2020', 0),
                      (b'10:00:00', b'06-15-2020', 59), (b'10:00:00', b'06-15-2020', 3600), (b'10:00:00', b'06-15-2020', 200000),
                      (b'23:59:59', b'12-30-2099', 1), (b'01:02:03', b'07-04-2050', 86400 * 366)]:
        clk.check(b'DATE$', d0, count=False)
        clk.check(b'TIME$', t0, count=False)
        clk.advance(k)
    for _ in range(300):
        clk.check(b'TIME$', fmt_time(rand_time(rng)), count=False)
        clk.advance(rng.choice([0, 1, 2, 59, 60, 61, 3599, 3600, 86399, 86400, rng.randrange(200000)]))
    res.sample({'kind': 'time_directed', 'invalid_examples': TIME_INVALID[16:24], 'unpinned_examples': TIME_EITHER[:5]})


def _subsecond_directed(clk, res):
    """Sub-second read-backs around every carry: seconds, minutes, hours, midnight with month / year ends."""
    steps = walk_steps(SUBSECOND_WALK)
    day = b'06-15-2020'
    for sec in range(60):                                   # every seconds value (carry into minutes at :59)
        clk.subsecond(b'12:30:%02d' % sec, day, steps)
    for m in range(60):                                     # every minute boundary
        clk.subsecond(b'07:%02d:59' % m, day, steps)
    for h in range(24):                                     # every hour boundary, incl. midnight
        clk.subsecond(b'%02d:59:59' % h, day, steps)
        clk.subsecond(b'%02d:00:00' % h, day, steps)
    for d in (b'12-31-1999', b'01-01-1980', b'02-28-2000', b'02-29-2000', b'02-28-2001', b'12-31-2098', b'12-30-2099', b'04-30-1985',
              b'07-31-2077', b'12-31-2077'):
        clk.subsecond(b'23:59:59', d, steps)
        clk.subsecond(b'23:59:58', d, steps)
    # longer walks: half-second raster over several minutes across midnight
    clk.subsecond(b'23:58:30', b'12-31-1999', [500000] * 400)
    clk.subsecond(b'11:59:00', day, [333333] * 400)
    res.sample({'kind': 'subsecond_directed', 'offsets_microseconds': SUBSECOND_WALK})


def _time_forms(clk, res):
    """All hh:mm and all hh strings (both tiers)."""
    n = 0
    for h in range(24):
        clk.check(b'TIME$', b'%02d' % h, literal=True)
        n += 1
        for m in range(60):
            clk.check(b'TIME$', b'%02d:%02d' % (h, m), literal=(m % 7 == 0))
            n += 1
    res.bulk(n, n)
    res.count('time_strings_enumerated', n)
    res.sample({'kind': 'time_forms', 'enumerated': 'all hh (24) and hh:mm (1440)'})


def _time_all(clk, res, spec):
    h = spec['hour']
    n = 0
    for m in range(60):
        for s in range(60):
            clk.check(b'TIME$', b'%02d:%02d:%02d' % (h, m, s), literal=(s == m))
            n += 1
    res.bulk(n, n)
    res.count('time_strings_enumerated', n)
    res.sample({'kind': 'time_all', 'hour': h, 'enumerated': '%02d:00:00 .. %02d:59:59' % (h, h)})


def _time_random(clk, res, spec, rng):
    for i in range(spec['n']):
        r = rng.random()
        if r < 0.45:
            s = fmt_time(rand_time(rng))
            if rng.random() < 0.2:
                s = s[:rng.choice([2, 5])]
        elif r < 0.9:
            s = mutate(rng, fmt_time(rand_time(rng))[:rng.choice([2, 5, 8, 8])], TIME_ALPHA)
        else:
            s = b':'.join(b'%d' % rng.choice([rng.randrange(-5, 70), rng.randrange(100), rng.randrange(10 ** 6)])
                          for _ in range(rng.choice([1, 2, 3, 3, 4])))
        clk.check(b'TIME$', s, literal=rng.random() < 0.2)
        res.case(('time', s))
        if i < 2:
            res.sample({'kind': 'time_random', 'value': s, 'class': classify_time(s)[0], 'TIME$_after': clk.cur_time})
        if rng.random() < 0.03:
            clk.advance(rng.choice([1, 60, 3600, 86400, rng.randrange(100000)]))
        if rng.random() < 0.02:
            clk.check(b'DATE$', spell_date(rand_date(rng), b'-', False), count=False)
        if rng.random() < 0.02:
            t = rand_time(rng)
            if rng.random() < 0.5:
                t = rng.choice([(t[0], t[1], 59), (t[0], 59, 59), (23, 59, 59), (23, 59, rng.randrange(55, 60))])
            clk.subsecond(fmt_time(t), spell_date(rand_date(rng), b'-', False),
                          [rng.choice([1, 1000, 250000, 499999, 500000, 500001, 999999, 1000000, rng.randrange(1, 3000000)])
                           for _ in range(rng.randint(3, 12))])


def _date_directed(clk, res):
    rng = random.Random('C44:date_directed')
    clk.check(b'TIME$', b'11:22:33')
    clk.check(b'DATE$', b'06-15-2020')
    for i, s in enumerate(DATE_INVALID):
        if classify_date(s)[0] != 'invalid':
            raise AssertionError('table entry %r is not invalid for the oracle' % s)
        clk.check(b'DATE$', s, literal=bool(i % 2))
        res.case(('date', s))
        if i % 7 == 0:
            clk.check(b'DATE$', spell_date(rand_date(rng), b'-', False))
    for s in DATE_EITHER:
        if classify_date(s)[0] != 'either':
            raise AssertionError('table entry %r is not an unpinned spelling for the oracle' % s)
        clk.check(b'DATE$', s)
        res.case(('date', s))
    # boundary days
    n = 0
    for ymd in [(1980, 1, 1), (1980, 2, 29), (1999, 12, 31), (2000, 1, 1), (2000, 2, 29), (2077, 12, 31), (2078, 1, 1), (2079, 12, 31),
                (2080, 1, 1), (2096, 2, 29), (2099, 12, 31), (2020, 6, 15), (1981, 2, 28), (2001, 2, 28)]:
        for sep in (b'-', b'/'):
            clk.check(b'DATE$', spell_date(ymd, sep, False), literal=True)
            n += 1
            if short_ok(ymd[0]):
                clk.check(b'DATE$', spell_date(ymd, sep, True))
                n += 1
    # every two-digit year
    for yy in range(100):
        s = b'03-09-%02d' % yy
        clk.check(b'DATE$', s)
        n += 1
    res.bulk(n, n)
    res.sample({'kind': 'date_directed', 'invalid_examples': DATE_INVALID[20:28], 'unpinned_examples': DATE_EITHER[:5]})


def _date_month_ends(clk, res, spec):
    """First and last day of every month 1980..2099, four formats (both tiers)."""
    n = 0
    years = list(range(1980, 2100))[spec['part']::spec['parts']]
    for y in years:
        for m in range(1, 13):
            last = calendar.monthrange(y, m)[1]
            for d in (1, last):
                for sep in (b'-', b'/'):
                    clk.check(b'DATE$', spell_date((y, m, d), sep, False), literal=(m == 1))
                    n += 1
                    if short_ok(y):
                        clk.check(b'DATE$', spell_date((y, m, d), sep, True))
                        n += 1
            # the day after the last one is invalid
            clk.check(b'DATE$', spell_date((y, m, last + 1), b'-', False))
            n += 1
    res.bulk(n, n)
    res.count('date_strings_enumerated', n)
    res.sample({'kind': 'date_month_ends', 'years': '%d..%d step %d' % (years[0], years[-1], spec['parts'])})


def _date_all(clk, res, spec):
    n = 0
    for y in range(spec['from'], spec['to'] + 1):
        for m in range(1, 13):
            for d in range(1, calendar.monthrange(y, m)[1] + 1):
                for sep in (b'-', b'/'):
                    clk.check(b'DATE$', spell_date((y, m, d), sep, False), literal=(d == m))
                    n += 1
                    if short_ok(y):
                        clk.check(b'DATE$', spell_date((y, m, d), sep, True))
                        n += 1
    res.bulk(n, n)
    res.count('date_strings_enumerated', n)
    res.sample({'kind': 'date_all', 'years': '%d..%d' % (spec['from'], spec['to'])})


def _date_random(clk, res, spec, rng):
    for i in range(spec['n']):
        r = rng.random()
        if r < 0.45:
            ymd = rand_date(rng)
            s = spell_date(ymd, rng.choice([b'-', b'/']), short_ok(ymd[0]) and rng.random() < 0.4)
        elif r < 0.9:
            ymd = rand_date(rng)
            s = mutate(rng, spell_date(ymd, rng.choice([b'-', b'/']), short_ok(ymd[0]) and rng.random() < 0.4), DATE_ALPHA)
        else:
            s = rng.choice([b'-', b'/']).join(b'%d' % rng.choice([rng.randrange(-3, 40), rng.randrange(100), rng.randrange(1900, 2200),
                                                               rng.randrange(10 ** 5)]) for _ in range(rng.choice([2, 3, 3, 3, 4])))
        clk.check(b'DATE$', s, literal=rng.random() < 0.2)
        res.case(('date', s))
        if i < 2:
            res.sample({'kind': 'date_random', 'value': s, 'class': classify_date(s)[0], 'DATE$_after': clk.cur_date})
        if rng.random() < 0.02:
            clk.check(b'TIME$', fmt_time(rand_time(rng)), count=False)
        if rng.random() < 0.02:
            clk.advance(rng.choice([1, 3600, 86400, rng.randrange(100000)]))


# ---------------------------------------------------------------------------------------
# ENVIRON

NAME_PLAIN = b'ABCDEFGHIJKLMNOPQRSTUVWXYZabcdefghijklmnopqrstuvwxyz0123456789_'
NAME_PUNCT = bytes(c for c in range(32, 127) if c != 61)
VAL_PRINT = bytes(range(32, 127))
VAL_HIGH = bytes(range(128, 256))
VAL_CTRL = bytes(list(range(1, 32)) + [127])


def _recap(rng, b):
    out = bytearray(b)
    for i, c in enumerate(out):
        if (65 <= c <= 90 or 97 <= c <= 122) and rng.random() < 0.5:
            out[i] = c ^ 32
    return bytes(out)


def _up(b):
    return bytes(c - 32 if 97 <= c <= 122 else c for c in b)


def _low(b):
    return bytes(c + 32 if 65 <= c <= 90 else c for c in b)


class Env(object):

    def __init__(self, res):
        from .. import harness
        self.harness = harness
        self.res = res
        self.prefix = b'VF%d' % os.getpid()
        self.box = harness.Box(budget=1000)
        self.model = {}       # upper name -> value

    def close(self):
        try:
            self.box.close()
        finally:
            p = self.prefix.decode('ascii').upper()
            for k in list(os.environ):
                if k.upper().startswith(p):
                    try:
                        del os.environ[k]
                    except KeyError:
                        pass

    def __enter__(self):
        return self

    def __exit__(self, *a):
        self.close()
        return False

    def getenv(self, spelled, case):
        """-> (0, value) | (-1, None) on a BASIC error | (None, None) after reporting an internal error."""
        try:
            self.box.set('N$', spelled)
            got = self.box.ev(b'ENVIRON$(N$)')
        except self.harness.Internal as e:
            self.res.count('internal_errors')
            self.res.violation(e.key, 'ENVIRON$(%r): %s' % (spelled, e), case)
            return None, None
        return (0, got) if got is not None else (-1, None)

    def setenv(self, name, value, pinned):
        """
        ENVIRON name=value; read back under four spellings.
        pinned: success and exact read-back required; else a BASIC error is acceptable as well.
        """
        res, box, harness = self.res, self.box, self.harness
        es = name + b'=' + value
        case = {'environ': es, 'name': name, 'value': value, 'pinned': pinned}
        try:
            box.set('E$', es)
            out = box.ex(b'ENVIRON E$')
        except harness.Internal as e:
            res.count('internal_errors')
            res.violation(e.key, 'ENVIRON %r: %s' % (es, e), case)
            return False
        code = harness.err_of(out)[0]
        if code != 0:
            if pinned:
                res.violation('environ:set-rejected', 'ENVIRON %r gave error %d' % (es, code), case)
                return False
            res.count('environ_unpinned_rejected')
            # a rejected ENVIRON must not be half-applied (visible under the same name)
            return True
        self.model[_up(name)] = value
        ok = True
        spellings = [name, _up(name), _low(name)]
        variants_ok = 0
        for sp in spellings:
            code, got = self.getenv(sp, case)
            if code is None:
                return False
            if code != 0 or got != value:
                key = 'environ:readback-differs' if sp == name else 'environ:name-not-case-insensitive'
                res.violation(key, 'ENVIRON %r then ENVIRON$(%r) gave %s, expected %r' % (
                    es, sp, 'a BASIC error' if code else repr(got), value), dict(case, read_as=sp))
                ok = False
                break
            if sp != name:
                variants_ok += 1
        if ok:
            res.count('environ_readback_ok')
            if variants_ok and _up(name) != _low(name):
                res.count('environ_case_variants_ok')
        return ok

    def reread(self, rng, upper_name):
        """A name set earlier, read under a random capitalisation, still has its latest value."""
        sp = _recap(rng, upper_name)
        case = {'name': upper_name, 'read_as': sp, 'expected': self.model[upper_name]}
        code, got = self.getenv(sp, case)
        if code is None:
            return
        if code != 0 or got != self.model[upper_name]:
            self.res.violation('environ:name-not-case-insensitive' if sp != upper_name else 'environ:readback-differs',
                               'ENVIRON$(%r) gave %s, expected the value %r set under another capitalisation' % (
                                   sp, 'a BASIC error' if code else repr(got), self.model[upper_name]), case)
        else:
            self.res.count('environ_later_rereads_ok')

    def malformed(self, es):
        """No '=' / empty name / empty string: only 'no host exception' is required."""
        try:
            self.box.set('E$', es)
            out = self.box.ex(b'ENVIRON E$')
        except self.harness.Internal as e:
            self.res.count('internal_errors')
            self.res.violation(e.key, 'ENVIRON %r: %s' % (es, e), {'environ': es})
            return
        self.res.count('environ_malformed_no_crash')
        if self.harness.err_of(out)[0] == 5:
            self.res.count('environ_malformed_rejected')


def _environ(spec, rng, res):
    with Env(res) as env:
        P = env.prefix
        if spec['kind'] == 'environ_directed':
            rng = random.Random('C44:environ_directed')
            table = [
                (b'A', b'1'), (b'a', b'lower name'), (b'MiXeD', b'Mixed Value'), (b'X1', b''), (b'PATHLIKE', b'C:\\DOS;C:\\BASIC'),
                (b'EQ', b'a=b=c'), (b'SP', b'  leading and trailing  '), (b'Q', b'"quoted"'), (b'LONG', b'v' * 200),
                (b'ALLPRINT', VAL_PRINT), (b'HIGH1', VAL_HIGH[:64]), (b'HIGH2', VAL_HIGH[64:]), (b'case', b'first'),
                (b'CASE', b'second'), (b'Case', b'third'), (b'n_1', b'x'), (b'Z' * 40, b'long name'),
            ]
            for name, value in table:
                env.setenv(P + name, value, pinned=True)
                res.case(('environ', name, value))
            for c in NAME_PUNCT:
                env.setenv(P + b'P' + bytes([c]) + b'q', b'punct %d' % c, pinned=(c in NAME_PLAIN))
                res.case(('environ-name-char', c))
            for c in VAL_PRINT + VAL_HIGH:
                env.setenv(P + b'VAL', b'a' + bytes([c]) + b'z', pinned=True)
                res.case(('environ-value-char', c))
            # D15 reproducers and the other bytes no host environment can hold
            for name, value in [(b'NULV', b'a\x00b'), (b'NULV2', b'\x00'), (b'NUL\x00N', b'1'), (b'\x00', b'1')]:
                env.setenv(P + name, value, pinned=False)
                res.case(('environ-nul', name, value))
                res.count('environ_nul_cases')
            for c in VAL_CTRL:
                env.setenv(P + b'CTL', b'a' + bytes([c]) + b'z', pinned=False)
                env.setenv(P + b'C' + bytes([c]) + b'N', b'ctl %d' % c, pinned=False)
                res.case(('environ-ctrl', c))
            for c in (128, 130, 225, 255):
                env.setenv(P + b'H' + bytes([c]), b'high name', pinned=False)
                res.case(('environ-high-name', c))
            for es in (b'', b'=', b'=x', P + b'NOEQ', b'==', b' ', P, b'=' + P):
                env.malformed(es)
                res.case(('environ-malformed', es))
            for k in sorted(env.model):
                env.reread(rng, k)
            res.sample({'kind': 'environ_directed', 'prefix': P, 'names_set': len(env.model)})
            return
        for i in range(spec['n']):
            r = rng.random()
            if env.model and r < 0.15:
                env.reread(rng, rng.choice(sorted(env.model)))
                res.case(('reread', i))
                continue
            # names: mostly from a small pool so that overwrites under other capitalisations happen
            if rng.random() < 0.5:
                base = rng.choice([b'ALPHA', b'Beta', b'gamma', b'D', b'e1', b'LongerName_42', b'zz'])
                name = P + _recap(rng, base)
            else:
                alpha = NAME_PLAIN if rng.random() < 0.7 else NAME_PUNCT
                name = P + bytes(rng.choice(alpha) for _ in range(rng.randint(1, 12)))
            vr = rng.random()
            pinned = all(c in NAME_PLAIN for c in name)
            if vr < 0.5:
                value = bytes(rng.choice(VAL_PRINT) for _ in range(rng.randint(0, 40)))
            elif vr < 0.8:
                value = bytes(rng.choice(VAL_PRINT + VAL_HIGH) for _ in range(rng.randint(1, 60)))
            elif vr < 0.93:
                value = bytes(rng.choice(VAL_PRINT + VAL_CTRL) for _ in range(rng.randint(1, 30)))
                pinned = pinned and not any(c in VAL_CTRL for c in value)
            else:
                value = bytes(rng.randrange(256) for _ in range(rng.randint(1, 30)))
                pinned = pinned and not any(c in VAL_CTRL or c == 0 for c in value)
            if rng.random() < 0.04:
                name = name + bytes([rng.choice([0, 1, 7, 128, 200, 255])]) + b'X'
                pinned = False
            if len(name) + 1 + len(value) > 255:
                value = value[:255 - len(name) - 1]
            env.setenv(name, value, pinned)
            res.case(('environ', name, value))
            if i < 2:
                res.sample({'kind': 'environ_random', 'statement': b'ENVIRON "' + name + b'=' + value + b'"', 'pinned': pinned})
