"""
C15 Saved programs load back identically in every file format.

Oracles
 (1) cipher: converter.protect / converter.unprotect driven directly on BytesIO.  Exhaustive over every
     (position mod 143, byte) pair: unprotect(protect(s)+EOF) == s, same length, the map of every position is
     injective on the 256 byte values; protect(unprotect(c+EOF)) == c; random strings of every length 0..600.
 (2) programs (generated: C13 simple lines, C17 grammar lines, C14 reference programs, long lines, ^Z and
     other control bytes inside strings, line numbers 65530..65535 by patching a tokenised file; and corpus
     programs from /repo/tests): SAVE in B / P / A format to the native mount, to internal @: files bound to a
     Python stream and to a native path (Session.bind_file), and to CAS1: (CAS image; WAV image in a few cases);
     LOAD (and MERGE for A) in a FRESH session; observed: program memory (Program.bytecode), listing
     (LIST ,"file"), and the tokenised file written by a second SAVE.
       B, P : program memory after LOAD byte-identical to the memory before SAVE
       A    : listing after LOAD / NEW+MERGE identical, whenever typing the listing line by line into a fresh
              session gives the same program (the statement's "re-enters as the same program")
 (2b) load/save histories inside ONE session (hide_protected on or off) mixing protected and unprotected files, NEW and
      MERGE: after every step the program just loaded must list, match the file's program and save in every format.
 (2c) cassette: ASCII programs whose text length sits at and around multiples of the 255-byte record payload (k*255-8..k*255+8,
      k=1..3) saved as the first of two or three files on one tape (then B / P / A files), every file loaded back in order by name;
      in the generated programs the order of the three formats on the tape is random.
 (3) converter: pcbasic.main('--convert=X', src, dst) in-process against LOAD src + SAVE dst,X in a session,
     for src in B/P/A and X in B/P/A: identical files.
"""
import io
import os
import random
import shutil
import tempfile

from ..models import c13_rprog as rprog
from ..gen import prog_gen as pg
from ..gen import c17_lines as gl
from ..gen import c14_refprog as rp

META = {
    'property_id': 'C15',
    'technique': 'round-trip monitor (memory / listing / file bytes before vs after SAVE+LOAD on every device and format) + exhaustive cipher enumeration + differential converter vs session',
    'level': 'exploration',
    'level_text': (
        'The protection cipher is enumerated exhaustively over all 143 x 256 (position, byte) pairs in both directions, plus random strings '
        'of every length 0..600. Generated and corpus programs are saved in the three formats on the native mount, bound internal files and '
        'cassette images and loaded back in fresh sessions; program memory, listing and re-saved files are compared; the command-line '
        'converter is run in-process and compared byte for byte with LOAD+SAVE in a session.'),
    'level_note': (
        'Trusted: harness, the image scanner of R-PROG. Program memory is observed as Program.bytecode (the anchor state) and through saved files. '
        'ASCII round trips are only demanded when the listing, typed line by line into a fresh session, gives the same program; programs '
        'containing ^Z or other control bytes and line numbers above 65529 are exercised in tokenised/protected formats only. '
        'WAV cassette images only in a few cases per run (slow).'),
    'rule': ('case = (program text, device, format) or one cipher string; distinct by program text + device + format; cipher pair blocks counted by '
             'the enumerating loop; non-trivial = program with at least 3 lines'),
    'design_ref': 'DESIGN.md section 4 C15',
    'assumptions': ['Program.bytecode is the program memory', 'typing the listing line by line decides whether it re-enters as the same program'],
    'exhaustive': {'quick': 'cipher: every (position mod 143, byte) pair, encode->decode and decode->encode',
                   'thorough': 'cipher: every (position mod 143, byte) pair, encode->decode and decode->encode'},
    'require_counters': {'any': ['cipher_pairs', 'cipher_lengths', 'fmt_B_disk', 'fmt_P_disk', 'fmt_A_disk', 'fmt_B_bound', 'fmt_P_bound', 'fmt_A_bound',
                                 'fmt_B_cas', 'fmt_P_cas', 'fmt_A_cas', 'merge_seen', 'ascii_reenterable', 'ctrl_z_in_string_seen',
                                 'high_line_numbers_seen', 'long_lines_seen', 'converter_runs', 'corpus_programs', 'protected_hidden_resave_seen',
                                 'session_steps', 'session_unprotected_after_protected_seen_hidden',
                                 'tape_length_cases', 'tape_A_followed_by_another_file', 'tape_B_followed_by_another_file',
                                 'tape_P_followed_by_another_file', 'programs_with_line_zero']},
    'timeout': {'quick': 900, 'thorough': 7200},
}


def plan(tier, seed):
    shards = [{'kind': 'cipher'}, {'kind': 'directed'}]
    if tier == 'quick':
        shards += [{'kind': 'programs', 'part': i, 'n': 45} for i in range(6)]
        shards += [{'kind': 'corpus', 'part': i, 'parts': 2, 'n': 60} for i in range(2)]
        shards += [{'kind': 'converter', 'part': i, 'n': 8} for i in range(3)]
        shards += [{'kind': 'sessions', 'part': i, 'n': 20} for i in range(2)]
    else:
        shards += [{'kind': 'programs', 'part': i, 'n': 250} for i in range(20)]
        shards += [{'kind': 'corpus', 'part': i, 'parts': 6, 'n': 400} for i in range(6)]
        shards += [{'kind': 'converter', 'part': i, 'n': 30} for i in range(12)]
        shards += [{'kind': 'sessions', 'part': i, 'n': 120} for i in range(6)]
    return shards


# ----------------------------------------------------------------------------------------------
# (1) cipher

def _protect(s):
    from pcbasic.basic import converter
    out = io.BytesIO()
    converter.protect(io.BytesIO(s), out)
    return out.getvalue()


def _unprotect(c):
    from pcbasic.basic import converter
    out = io.BytesIO()
    # the decoder drops the final byte of its input (the ^Z that ends a protected file)
    converter.unprotect(io.BytesIO(c + b'\x1a'), out)
    return out.getvalue()


def run_cipher(spec, res):
    period = 143
    enc_at = [dict() for _ in range(period)]
    # every (position, byte): constant strings carry byte b at all 143 positions; a second block of 3 periods checks the positions again later in the stream
    for b in range(256):
        for n in (period, 3 * period + 7):
            s = bytes([b]) * n
            try:
                c = _protect(s)
                d = _unprotect(c)
                c2 = _protect(_unprotect(s))
            except Exception as e:   # host exception from the cipher
                from .. import harness
                res.violation(harness.internal_key(e), repr(e), {'byte': b, 'length': n})
                continue
            if len(c) != len(s):
                res.violation('cipher:length-changes', 'protect of %d bytes gives %d' % (len(s), len(c)), {'byte': b, 'length': n})
            if d != s:
                i = next((i for i in range(min(len(d), len(s))) if d[i] != s[i]), min(len(d), len(s)))
                res.violation('cipher:decode-of-encode-not-identity', 'byte %d at position %d (mod 143: %d) decodes to %r' % (
                    b, i, i % period, d[i:i + 1]), {'byte': b, 'length': n, 'position': i})
            if c2 != s:
                i = next((i for i in range(min(len(c2), len(s))) if c2[i] != s[i]), min(len(c2), len(s)))
                res.violation('cipher:encode-of-decode-not-identity', 'cipher byte %d at position %d does not re-encode to itself' % (b, i),
                              {'byte': b, 'length': n, 'position': i})
            if n == period:
                for p in range(min(period, len(c))):
                    enc_at[p].setdefault(c[p], []).append(b)
        res.count('cipher_pairs', period)
    for p in range(period):
        clash = [(k, v) for k, v in enc_at[p].items() if len(v) > 1]
        if clash or len(enc_at[p]) != 256:
            res.violation('cipher:position-map-not-injective', 'position %d: %d distinct cipher bytes for 256 plain bytes, e.g. %r' % (
                p, len(enc_at[p]), clash[:1]), {'position': p})
    res.bulk(2 * 256 * period, 2 * 256 * period)
    res.sample({'kind': 'cipher', 'pairs': 256 * period, 'example_plain': b'\x00' * 8, 'example_cipher': _protect(b'\x00' * 8)})
    # random strings of every length 0..600 (seeded) and structured ones
    rng = random.Random('%s:C15:cipher:0' % spec['seed'])
    reps = 2 if spec['tier'] == 'quick' else 40
    for n in range(0, 601):
        for r in range(reps):
            if r % 2:
                s = bytes(rng.randrange(256) for _ in range(n))
            else:
                s = bytes(rng.choice([0, 0x1a, 0xff, 0x0d, rng.randrange(256)]) for _ in range(n))
            res.case(('cipher', s))
            try:
                c = _protect(s)
                if len(c) != n or _unprotect(c) != s:
                    res.violation('cipher:decode-of-encode-not-identity', 'random string of length %d' % n, {'plain': s})
                if _protect(_unprotect(s)) != s:
                    res.violation('cipher:encode-of-decode-not-identity', 'random string of length %d' % n, {'cipher': s})
            except Exception as e:
                from .. import harness
                res.violation(harness.internal_key(e) + (':empty-input' if n == 0 else ''),
                              'cipher on a string of length %d: %r' % (n, e), {'plain': s})
        res.count('cipher_lengths')


# ----------------------------------------------------------------------------------------------
# program memory observation

def memory(box):
    """Program memory of the session: the anchor state Program.bytecode (read-only)."""
    return bytes(box.impl.program.bytecode.getvalue())


def core_of(code, base=None):
    """(core image: leading 00 + lines + 00 00 terminator, trailing bytes after the terminator, scan problems)."""
    lines, problems = rprog.scan_image(code[1:], base)
    if lines:
        off, link, lineno, body = lines[-1]
        term = off + 4 + len(body) + 1
    else:
        term = 0
    end = 1 + term + 2
    return code[:end], code[end:], problems, lines


REM_BYTE_KEY = 'load:tokenised:byte-8F-inside-a-string-literal-is-scanned-as-REM-so-a-00-in-a-later-number-token-ends-the-line'


def rem_byte_in_string(body):
    """Does the tokenised line body carry the byte 8F (value of the REM token) inside a string literal?"""
    p, n = 0, len(body)
    while p < n:
        b = body[p]
        if b == 0x22:
            q = body.find(b'"', p + 1)
            q = n if q < 0 else q
            if b'\x8f' in body[p + 1:q]:
                return True
            p = q + 1
        elif b in rprog.PAYLOAD:
            p += 1 + rprog.PAYLOAD[b]
        elif b == 0x8f:
            return False    # a real REM: the rest is comment
        else:
            p += 1
    return False


class Keep(io.BytesIO):
    """BytesIO that remembers its content when the interpreter closes it."""
    final = None

    def close(self):
        self.final = self.getvalue()
        io.BytesIO.close(self)


class Sandbox(object):
    """Own root directory: c/ is the native mount, tapes and bound native files live next to it."""

    def __init__(self):
        self.root = tempfile.mkdtemp(prefix='vfc15_')
        self.c = os.path.join(self.root, 'c')
        os.makedirs(self.c)
        self.n = 0

    def box(self, tape=None, **kw):
        from .. import harness
        mounts = {'C': self.c, 'Z': None}
        if tape:
            mounts['CAS1'] = tape
        return harness.Box(root=self.root, mounts=mounts, budget=20000, **kw)

    def path(self, name):
        return os.path.join(self.c, name)

    def fresh(self, stem):
        self.n += 1
        return '%s%d' % (stem, self.n)

    def close(self):
        shutil.rmtree(self.root, ignore_errors=True)


FMT_ARG = {'B': b'', 'P': b',P', 'A': b',A'}


def _first_diff(a, b):
    i = 0
    while i < min(len(a), len(b)) and a[i] == b[i]:
        i += 1
    return i


def check_program(res, lines, rng, label, devices=('disk', 'bound', 'cas'), formats='BPA', special=None, preloaded=None, use_wav=False):
    """
    lines: list of bytes 'number text' typed into the first session (or preloaded = (file name, bytes) to LOAD instead).
    special: None | 'binary' (control bytes in strings: tokenised formats only)
    """
    from .. import harness
    sb = Sandbox()
    case = {'program': lines if lines is not None else {'corpus_file': label}, 'label': label}

    state = {'hazard': False, 'eof': False}

    def viol(key, what, extra=None):
        c = dict(case)
        if extra:
            c.update(extra)
        if state['hazard'] and ('program-memory-differs' in key or 'listing-differs' in key or key.startswith('resave:')):
            # one mechanism, whatever the device: name it
            key = REM_BYTE_KEY
        if 'eof-byte-of-the-file-kept' in key:
            state['eof'] = True
        res.violation(key, what, c)

    try:
        tape = 'CAS:' + os.path.join(sb.root, 'tape.cas')
        wav = 'WAV:' + os.path.join(sb.root, 'tape.wav')
        saved = {}     # (device, fmt) -> artefact
        # ---- first session: the stored program, saved everywhere ----------------------------------------
        with sb.box(tape=(wav if use_wav else tape)) as a:
            if preloaded is not None:
                name, data = preloaded
                with open(sb.path('SRC.BAS'), 'wb') as f:
                    f.write(data)
                out = a.ex(b'LOAD "SRC"', 20000)
                if out:
                    res.count('corpus_load_errors')
                    return 'skipped'
            else:
                for l in lines:
                    out = a.ex(l, 20000)
                    if out:
                        viol('setup:entry-output', 'entering %r gave %r' % (l[:60], out[:80]))
                        return 'bad'
            mem0 = memory(a)
            core0, tail0, problems, scanned = core_of(mem0)
            if problems:
                if preloaded is not None:
                    res.count('corpus_unscannable_images')
                    return 'skipped'
                viol('setup:image-unscannable', '; '.join(problems[:2]))
                return 'bad'
            nlines = len(scanned)
            state['hazard'] = any(rem_byte_in_string(body) for off, link, lineno, body in scanned)
            out, list0 = pg.list_to_file(a, b'L0.TXT')
            if list0 is None or out:
                if preloaded is not None:
                    res.count('corpus_unlistable')
                    return 'skipped'
                viol('setup:list-failed', 'LIST gave %r' % out[:80])
                return 'bad'
            for dev in devices:
                for fmt in formats:
                    if dev == 'disk':
                        nm = b'D' + fmt.encode()
                        out = a.ex(b'SAVE "C:%s"%s' % (nm, FMT_ARG[fmt]), 20000)
                        art = ('file', sb.path(nm.decode() + '.BAS'))
                    elif dev == 'bound':
                        if rng.random() < 0.5:
                            k = Keep()
                            nm = a.s.bind_file(k)
                            out = a.ex(b'SAVE "%s"%s' % (bytes(nm), FMT_ARG[fmt]), 20000)
                            art = ('stream', k)
                        else:
                            p = os.path.join(sb.root, 'bound_%s.bin' % fmt)
                            nm = a.s.bind_file(p, create=True)
                            out = a.ex(b'SAVE "%s"%s' % (bytes(nm), FMT_ARG[fmt]), 20000)
                            art = ('native', p)
                    else:
                        out = a.ex(b'SAVE "CAS1:T%s"%s' % (fmt.encode(), FMT_ARG[fmt]), 20000)
                        art = ('tape', fmt)
                    if out:
                        viol('save:%s:%s:error' % (dev, fmt), 'SAVE gave %r' % out[:100])
                        return 'bad'
                    saved[(dev, fmt)] = art
            # a second SAVE of the unchanged program writes the same file
            if 'disk' in devices and 'B' in formats:
                a.ex(b'SAVE "C:DB2"', 20000)
                if pg.read_file(a, 'DB2.BAS') != pg.read_file(a, 'DB.BAS'):
                    viol('save:B:two-saves-of-the-same-program-differ', 'files DB and DB2 differ')
            if memory(a) != mem0:
                viol('save:changes-program-memory', 'program memory changed by SAVE')
        # ---- does the listing re-enter as the same program? (typed line by line) --------------------------
        reenter = False
        if 'A' in formats and special is None:
            if all(len(l) <= 255 for l in list0):
                with sb.box() as t:
                    ok = True
                    for l in list0:
                        if t.ex(l, 20000):
                            ok = False
                            break
                    if ok:
                        reenter = core_of(memory(t))[0] == core0
            res.count('ascii_reenterable' if reenter else 'ascii_not_reenterable')
            if not reenter:
                res.count('ascii_not_reenterable:' + label.split(':')[0])
        # ---- fresh sessions: load back -------------------------------------------------------------------
        for dev in devices:
            devcls = dev if dev != 'cas' else ('wav' if use_wav else 'cas')
            with sb.box(tape=(wav if use_wav else tape)) as b:
                for fmt in formats:
                    art = saved[(dev, fmt)]
                    if fmt == 'A' and not reenter:
                        continue     # (A is the last file on the tape: nothing to skip over)

                    def source():
                        if art[0] == 'file':
                            return b'C:' + os.path.basename(art[1]).split('.')[0].encode()
                        if art[0] == 'stream':
                            data = art[1].final
                            if data is None:
                                return None
                            return bytes(b.s.bind_file(io.BytesIO(data)))
                        if art[0] == 'native':
                            return bytes(b.s.bind_file(art[1]))
                        return b'CAS1:T' + fmt.encode()

                    src = source()
                    if src is None:
                        viol('save:bound-stream:%s:stream-never-closed' % fmt, 'bound stream was not closed by SAVE')
                        continue
                    res.count('fmt_%s_%s' % (fmt, 'bound' if dev == 'bound' else devcls))
                    res.case((label, tuple(lines) if lines else label, devcls, fmt), nontrivial=nlines >= 3)
                    b.ex(b'NEW', 20000)
                    out = b.ex(b'LOAD "%s"' % src, 20000)
                    msg = [l for l in out.split(b'\r\n') if l and not l.endswith(b'Found.') and not l.endswith(b'Skipped.')]
                    if msg:
                        viol('load:%s:%s:error' % (devcls, fmt), 'LOAD gave %r' % out[:120], {'device': devcls, 'format': fmt})
                        continue
                    ok = compare_loaded(res, viol, b, devcls, fmt, 'load', mem0, core0, tail0, list0, state)
                    if ok and fmt == 'A' and dev != 'cas':
                        # NEW + MERGE
                        b.ex(b'NEW', 20000)
                        src = source()
                        out = b.ex(b'MERGE "%s"' % src, 20000)
                        if out:
                            viol('merge:%s:A:error' % devcls, 'MERGE gave %r' % out[:120])
                        else:
                            res.count('merge_seen')
                            compare_loaded(res, viol, b, devcls, fmt, 'merge', mem0, core0, tail0, list0, state)
                    if ok and fmt == 'B' and dev == 'disk' and not state['eof']:
                        # saving the loaded program again writes the same tokenised file
                        b.ex(b'SAVE "C:RB"', 20000)
                        f1, f2 = pg.read_file(b, 'DB.BAS'), pg.read_file(b, 'RB.BAS')
                        if f1 != f2:
                            if f2 == f1 + b'\x1a' * (len(f2) - len(f1)) and len(f2) > len(f1):
                                viol('resave:B:file-grows-by-an-eof-byte-per-load-save-cycle',
                                     'SAVE, LOAD, SAVE: second file is %d bytes longer (trailing ^Z)' % (len(f2) - len(f1)))
                            else:
                                viol('resave:B:file-differs', 'files differ at byte %d' % _first_diff(f1, f2))
        # ---- a protected file under hide_protected=True: cannot be inspected, but must re-save identically ---
        if 'disk' in devices and 'P' in formats and rng.random() < 0.5:
            with sb.box(hide_protected=True) as h:
                out = h.ex(b'LOAD "C:DP"', 20000)
                out2 = h.ex(b'SAVE "C:RP",P', 20000)
                if out or out2:
                    viol('protected:load-or-resave-error', 'LOAD gave %r, SAVE ,P gave %r' % (out[:60], out2[:60]))
                else:
                    res.count('protected_hidden_resave_seen')
                    f1, f2 = pg.read_file(h, 'DP.BAS'), pg.read_file(h, 'RP.BAS')
                    if f1 != f2:
                        viol('resave:P:file-differs', 'protected file re-saved from a protected session differs at byte %d (lengths %d, %d)' % (
                            _first_diff(f1, f2), len(f1), len(f2)))
        return 'ok'
    except harness.Internal as e:
        res.violation(e.key, str(e), case)
        return 'bad'
    finally:
        sb.close()


def compare_loaded(res, viol, b, devcls, fmt, how, mem0, core0, tail0, list0, state=None):
    """Compare the session's program with the one that was saved."""
    mem1 = memory(b)
    core1, tail1, problems, _ = core_of(mem1)
    extra = {'device': devcls, 'format': fmt}
    if fmt in 'BP':
        if problems or core1 != core0:
            i = _first_diff(core0, core1)
            viol('%s:%s:%s:program-memory-differs' % (how, devcls, fmt),
                 'program image differs at offset %d (%r.. / %r..), scan problems %r' % (i, core0[i:i + 12], core1[i:i + 12], problems[:1]), extra)
            return False
        if tail0:
            # the baseline itself was LOADed from a disk file and already carries bytes after its terminator (the ^Z of the mechanism
            # reported as eof-byte-of-the-file-kept-in-program-memory by the typed programs, or junk that followed the terminator in a
            # corpus file): these are not part of the program; only the program proper is compared
            res.count('baseline_already_had_eof_bytes')
            if state is not None:
                state['eof'] = True
        elif mem1 != mem0:
            if tail1 == tail0 + b'\x1a' * (len(tail1) - len(tail0)) and len(tail1) > len(tail0):
                viol('%s:%s:%s:eof-byte-of-the-file-kept-in-program-memory' % (how, 'disk-or-bound' if devcls in ('disk', 'bound') else devcls, fmt),
                     'program memory after LOAD has %d extra byte(s) %r after the program terminator' % (len(tail1) - len(tail0), tail1[len(tail0):]), extra)
                # the program proper is intact: go on with the listing and re-save observations
                out, list1 = pg.list_to_file(b, b'L1.TXT')
                return list1 == list0
            else:
                viol('%s:%s:%s:bytes-after-program-differ' % (how, devcls, fmt),
                     'memory after the terminator: %r before, %r after' % (tail0[:12], tail1[:12]), extra)
            return False
        # the listing must be the same too
    out, list1 = pg.list_to_file(b, b'L1.TXT')
    if list1 != list0:
        d = [(g, e) for g, e in zip((list1 or []) + [None] * len(list0), list0 + [None] * len(list1 or [])) if g != e][:1]
        viol('%s:%s:%s:listing-differs' % (how, devcls, fmt), 'first difference (after, before): %r' % (d,), extra)
        return False
    return True


# ----------------------------------------------------------------------------------------------
# program generators

def gen_program(rng, res):
    """-> (lines, label, special)"""
    r = rng.random()
    k = rng.choice([rng.randint(1, 8), rng.randint(8, 25), rng.randint(25, 50)])
    nums = sorted(rng.sample(range(0, 65530), k)) if rng.random() < 0.5 else [10 * (i + 1) for i in range(k)]
    if rng.random() < 0.2 and nums[0] != 0:
        # line number 0 (listed with its own spacing rule)
        nums[0] = 0
    if nums[0] == 0:
        res.count('programs_with_line_zero')
    if r < 0.30:
        lines = []
        for i, n in enumerate(nums):
            text, _ = pg.simple_line(rng, b'T%d' % i, maxpad=rng.choice([20, 60, 245 - 30]))
            lines.append(b'%d %s' % (n, text[:248 - len(b'%d' % n)].rstrip(b' ')))
        if rng.random() < 0.35:
            # a line whose listing has exactly 253, 254 or 255 characters (the line buffer limit)
            i = rng.randrange(len(lines))
            total = rng.choice([253, 254, 255, 255])
            head = b'%d REM ' % nums[i]
            lines[i] = head + bytes(rng.choice(b'abcdefghijklmnopqrstuvwxyz0123456789') for _ in range(total - len(head)))
            res.count('max_length_lines_seen')
        if any(len(l) > 200 for l in lines):
            res.count('long_lines_seen')
        return lines, 'simple', None
    if r < 0.70:
        dialect = 'advanced'
        lines = [b'%d %s' % (n, gl.recase(rng, gl.gen_line(rng, dialect, maxlen=220))) for n in nums]
        return lines, 'grammar', None
    if r < 0.85:
        prog = rp.gen_program(rng, max(8, min(k, 40)), rng.choice(['run', 'trap']))
        return [b'%d %s' % (n, rp.render(segs)) for n, segs in prog['lines']], 'refs', None
    # strings with ^Z and other control bytes that are not number-token leads with a payload: tokenised formats only
    lines = []
    ctrl = bytes([0x1a, 0x1a, 0x01, 0x07, 0x09, 0x11, 0x1b, 0x7f, 0x80, 0xff, 0xfe])
    for i, n in enumerate(nums):
        s = bytes(rng.choice(ctrl + b'abc xyz') for _ in range(rng.randint(1, 30)))
        lines.append(b'%d A$="%s":PRINT %d' % (n, s, i))
    res.count('ctrl_z_in_string_seen')
    return lines, 'binary-strings', 'binary'


def run_programs(spec, res):
    rng = random.Random('%s:C15:%s:%s' % (spec['seed'], spec['kind'], spec.get('part', 0)))
    for i in range(spec['n']):
        lines, label, special = gen_program(rng, res)
        devices, wav = ('disk', 'bound', 'cas'), False
        if i % 15 == 7:
            devices, wav = ('disk', 'cas'), True
        # the order of the formats is the order of the files on the tape: every format is sometimes followed by another file
        formats = ''.join(rng.sample('BP' if special else 'BPA', 2 if special else 3))
        st = check_program(res, lines, rng, label, devices, formats, special, use_wav=wav)
        res.count('programs_' + label)
        if i == 0:
            res.sample({'label': label, 'program': lines[:5], 'status': st})


def sized_program(target, first=10):
    """Program whose ASCII text (every line + one terminator byte) is exactly `target` bytes long."""
    lines, n, left = [], first, target
    while True:
        head = b'%d REM ' % n
        if left - (len(head) + 1) <= 200:
            pad = left - (len(head) + 1)
            if pad < 0:
                return None
            lines.append(head + b'p' * pad)
            return lines
        lines.append(head + b'q' * 100)
        left -= len(head) + 100 + 1
        n += 10


def tape_sequence(res, progs, label, wav=False):
    """
    progs = [(lines, fmt)...]: saved one after the other on ONE fresh tape, then every file is loaded back from a fresh session
    in tape order and by name; every one must give its program back (listing and program image).
    """
    from .. import harness
    sb = Sandbox()
    case = {'label': label, 'files': [[fmt, lines] for lines, fmt in progs]}
    try:
        tape = ('WAV:' if wav else 'CAS:') + os.path.join(sb.root, 'tape.' + ('wav' if wav else 'cas'))
        ref = []
        with sb.box(tape=tape) as a:
            for i, (lines, fmt) in enumerate(progs):
                a.ex(b'NEW', 20000)
                if a.enter(lines):
                    return
                core = core_of(memory(a))[0]
                out, listing = pg.list_to_file(a, b'L0.TXT')
                out2 = a.ex(b'SAVE "CAS1:F%d"%s' % (i, FMT_ARG[fmt]), 20000)
                if out or out2 or listing is None:
                    res.violation('cas:tape-sequence:save-error', 'file %d (%s): LIST %r SAVE %r' % (i, fmt, out, out2), case)
                    return
                ref.append((core, listing))
        with sb.box(tape=tape) as b:
            for i, (lines, fmt) in enumerate(progs):
                prev = progs[i - 1][1] if i else None
                where = ('first-file' if i == 0 else 'file-after-%s-file' % {'A': 'an-ascii', 'B': 'a-tokenised', 'P': 'a-protected'}[prev]) + \
                        ':' + {'A': 'ascii', 'B': 'tokenised', 'P': 'protected'}[fmt]
                res.count('tape_files_loaded')
                if i + 1 < len(progs):
                    res.count('tape_%s_followed_by_another_file' % fmt)
                res.case((label, i, fmt, tuple(lines)))
                b.ex(b'NEW', 20000)
                out = b.ex(b'LOAD "CAS1:F%d"' % i, 20000)
                msg = [l for l in out.split(b'\r\n') if l and not l.endswith(b'Found.') and not l.endswith(b'Skipped.')]
                if msg:
                    res.violation('cas:tape-sequence:%s:load-error' % where, 'LOAD "CAS1:F%d" gave %r' % (i, out[:120]), case)
                    continue
                out, listing = pg.list_to_file(b, b'L1.TXT')
                if listing != ref[i][1] or core_of(memory(b))[0] != ref[i][0]:
                    res.violation('cas:tape-sequence:%s:program-differs' % where, 'file %d: %d lines listed, %d saved' % (
                        i, len(listing or []), len(ref[i][1])), case)
    except harness.Internal as e:
        res.violation(e.key, str(e), case)
    finally:
        sb.close()


def run_tape_lengths(res):
    """ASCII programs whose text length sits at and around multiples of the 255-byte record payload, followed by other files."""
    small = [[b'10 PRINT "second"', b'20 GOTO 10'], [b'5 REM third', b'6 DATA 1,2,"x"']]
    j = 0
    for k in (1, 2, 3):
        # +-8 around k*255 covers one or two terminator bytes per line and a closing byte, whichever the tape format uses
        for target in range(k * 255 - 8, k * 255 + 9):
            lines = sized_program(target)
            if lines is None:
                continue
            f2 = 'BPA'[j % 3]
            progs = [(lines, 'A'), (small[0], f2)]
            if j % 2:
                progs.append((small[1], 'A' if f2 != 'A' else 'B'))
            tape_sequence(res, progs, 'tape-lengths:%d' % target)
            res.count('tape_length_cases')
            j += 1
    # two sized ASCII programs in a row, then a tokenised one
    for t1, t2 in ((255, 255), (254, 510), (253, 256), (509, 254), (765, 255)):
        tape_sequence(res, [(sized_program(t1), 'A'), (sized_program(t2, 1000), 'A'), (small[0], 'B')], 'tape-lengths:%d+%d' % (t1, t2))
        res.count('tape_length_cases')
    tape_sequence(res, [(sized_program(254), 'A'), (small[0], 'P')], 'tape-lengths:wav', wav=True)


def run_directed(spec, res):
    from .. import harness
    rng = random.Random('C15:directed')
    run_tape_lengths(res)
    fixed = [
        ([b'10 PRINT "HELLO"', b'20 GOTO 10'], 'two-lines'),
        ([b'0 REM first', b'65529 END'], 'boundary-numbers'),
        ([b'0 PRINT "zero"', b'10 PRINT "ten"'], 'line-zero'),
        ([b'0  PRINT "zero"', b'1 \tPRINT 1', b'2\tPRINT 2', b'10   REM x'], 'line-zero-and-leading-blanks'),
        ([b'10 A$="%s"' % (b'x' * 240)], 'long-line'),
        # listings of exactly 254 and 255 characters: the line buffer limit
        ([b'10 REM ' + b'x' * 247, b'20 PRINT "' + b'y' * 244 + b'"', b'30 REM ' + b'z' * 248, b'40 END'], 'max-length-lines'),
        ([b'10 REM'], 'one-empty-rem'),
        ([b'10 X=1.5:Y#=1D+10:Z%=&HFF:W=&O17:PRINT 100000;.5', b"20 ' \x80\xff high bytes", b'30 DATA 1, a b ,"c:d"'], 'literals'),
        ([b'%d PRINT %d' % (i, i) for i in range(1, 120)], 'many-short-lines'),
    ]
    for lines, label in fixed:
        check_program(res, lines, rng, 'directed:' + label)
        res.count('directed_programs')
    check_program(res, [b'10 A$="\x1a":PRINT 1', b'20 B$="a\x1ab\x1a"'], rng, 'directed:ctrl-z', formats='BP', special='binary')
    # the byte 8F (REM token value, a letter in codepage 437) inside a string, followed by a number token with a 00 byte
    check_program(res, [b'10 A$="\x8f":X=256:PRINT "ok"', b'20 PRINT "second"'], rng, 'directed:byte-8F-in-string')
    res.count('ctrl_z_in_string_seen')
    check_program(res, [b'10 PRINT "WAV"', b'20 GOTO 10'], rng, 'directed:wav', devices=('cas',), use_wav=True)
    # line numbers 65530..65535: patch the number of the last line of a tokenised file
    for high in (65530, 65531, 65535):
        sb = Sandbox()
        try:
            with sb.box() as a:
                a.enter([b'10 PRINT "A"', b'20 PRINT "B"', b'30 PRINT "C"'])
                a.ex(b'SAVE "C:H0"', 20000)
                img = bytearray(pg.read_file(a, 'H0.BAS'))
            lines, problems = rprog.scan_image(bytes(img[1:]), 0)
            off = lines[-1][0] + 1 + 2
            img[off:off + 2] = bytes([high & 0xff, high >> 8])
            check_program(res, None, rng, 'directed:line-%d' % high, formats='BP', special='binary', preloaded=('H1', bytes(img)))
            res.count('high_line_numbers_seen')
        finally:
            sb.close()


# ----------------------------------------------------------------------------------------------
# corpus

def corpus_files():
    from .. import harness
    base = os.path.join(harness.REPO, 'tests')
    out = []
    for d, _, files in os.walk(base):
        for f in files:
            if f.upper().endswith('.BAS'):
                out.append(os.path.join(d, f))
    return sorted(out)


def run_corpus(spec, res):
    rng = random.Random('%s:C15:%s:%s' % (spec['seed'], spec['kind'], spec.get('part', 0)))
    files = corpus_files()[spec['part']::spec['parts']]
    rng.shuffle(files)
    done = 0
    seen = set()
    for path in files:
        if done >= spec['n']:
            break
        try:
            with open(path, 'rb') as f:
                data = f.read()
        except (IOError, OSError):
            continue
        if len(data) < 8 or len(data) > 30000 or data in seen:
            continue
        seen.add(data)
        kind = {0xff: 'B', 0xfe: 'P'}.get(data[0], 'A')
        st = check_program(res, None, rng, 'corpus:' + os.path.relpath(path, os.path.dirname(os.path.dirname(path))),
                           devices=('disk', 'cas') if done % 3 == 0 else ('disk',), preloaded=(os.path.basename(path), data))
        if st == 'ok':
            res.count('corpus_programs')
            res.count('corpus_source_' + kind)
            done += 1


# ----------------------------------------------------------------------------------------------
# (3) converter

def run_converter(spec, res):
    from .. import harness
    import pcbasic
    rng = random.Random('%s:C15:%s:%s' % (spec['seed'], spec['kind'], spec.get('part', 0)))
    corpus = corpus_files()
    for i in range(spec['n']):
        sb = Sandbox()
        try:
            if i % 3 == 2 and corpus:
                path = rng.choice(corpus)
                with open(path, 'rb') as f:
                    data = f.read()
                if len(data) > 30000:
                    continue
                label = 'corpus:' + os.path.basename(os.path.dirname(path))
                lines = None
            else:
                lines, label, special = gen_program(rng, res)
                if special:
                    lines, label = [b'10 PRINT "A";1.5', b'20 GOTO 10'], 'small'
            case = {'label': label, 'program': lines}
            srcs = {}
            with sb.box() as a:
                if lines is None:
                    with open(sb.path('SRC.BAS'), 'wb') as f:
                        f.write(data)
                    if a.ex(b'LOAD "SRC"', 20000):
                        continue
                else:
                    if a.enter(lines):
                        continue
                for fmt in 'BPA':
                    if a.ex(b'SAVE "C:S%s"%s' % (fmt.encode(), FMT_ARG[fmt]), 20000):
                        srcs = None
                        break
                    srcs[fmt] = sb.path('S%s.BAS' % fmt)
            if not srcs:
                continue
            for sf, src in sorted(srcs.items()):
                for df in 'BPA':
                    dst = os.path.join(sb.root, 'conv_%s_%s.out' % (sf, df))
                    try:
                        st, val = harness.guarded(pcbasic.main, '--convert=%s' % df, src, dst)
                    except harness.Internal as e:
                        res.violation(e.key, str(e), dict(case, src=sf, dst=df))
                        continue
                    res.count('converter_runs')
                    with sb.box() as b:
                        # exactly what the converter is specified to equal: LOAD, then SAVE, whatever LOAD said
                        out = b.ex(b'LOAD "C:S%s"' % sf.encode(), 20000)
                        out2 = b.ex(b'SAVE "C:X%s"%s' % (df.encode(), FMT_ARG[df]), 20000)
                        try:
                            ses = pg.read_file(b, 'X%s.BAS' % df)
                        except (IOError, OSError):
                            ses = None
                        if out or out2:
                            res.count('converter_source_load_errors')
                    try:
                        with open(dst, 'rb') as f:
                            conv = f.read()
                    except (IOError, OSError):
                        conv = None
                    res.case((label, tuple(lines) if lines else label, sf, df))
                    if ses is None and conv is None:
                        res.count('converter_and_session_both_fail')
                        continue
                    if conv != ses:
                        what = ('converter wrote no file' if conv is None else 'session LOAD/SAVE failed (%r %r) but the converter wrote a file' % (out, out2)
                                if ses is None else 'files differ at byte %d (lengths %d, %d)' % (_first_diff(conv, ses), len(conv), len(ses)))
                        res.violation('convert:%s->%s:differs-from-save-in-session' % (sf, df), what, dict(case, src=sf, dst=df))
        finally:
            sb.close()


# ----------------------------------------------------------------------------------------------
# (2b) load/save histories inside ONE session, mixing protected and unprotected files

def run_sessions(spec, res, directed=False):
    """
    Several programs are saved in B, P and A format by a helper session.  Then ONE session (hide_protected on or off)
    performs a history of LOADs (P and non-P in any order, sometimes NEW, MERGE of an A file into an empty program,
    sometimes a typed line) and after EVERY step the round trip is demanded:
      * the LOAD reports no error
      * after loading an unprotected file (B or A) of program k - whatever was loaded before - the program can be
        listed and saved: listing == listing of k, program image == image of k, SAVE in B, A and P works, the A file
        holds the listing and the B / P file loads back as program k in a fresh session
      * after loading a P file with hide_protected on, SAVE ,P works and the file loads back as program k in a fresh
        session without hide_protected (what a protected program may disclose is C16's business)
    """
    from .. import harness
    rng = random.Random('C15:sessions:directed' if directed else '%s:C15:%s:%s' % (spec['seed'], spec['kind'], spec.get('part', 0)))
    nhist = 6 if directed else spec['n']
    for hi in range(nhist):
        sb = Sandbox()
        history = []
        progs = []
        case = {'history': history, 'programs': progs}

        def viol(key, what):
            res.violation(key, what + ' [after step %d: %r]' % (len(history), history[-1] if history else None), dict(case))

        try:
            # ---- helper session: the files ------------------------------------------------------------------
            info = []
            k = 0
            while len(info) < 3 and k < 12:
                k += 1
                if directed:
                    lines = [[b'10 REM round trip', b'20 FOR I%=1 TO 10:PRINT I%*2;:NEXT', b'30 GOTO 10'],
                             [b'5 PRINT "second"', b'6 DATA 1,2,"three"'], [b'100 A$="x":PRINT A$', b'65529 END']][len(info)]
                else:
                    lines, label, special = gen_program(rng, res)
                    if special or len(lines) > 30:
                        continue
                i = len(info)
                with sb.box() as a:
                    if a.enter(lines):
                        continue
                    core, tail, problems, scanned = core_of(memory(a))
                    out, listing = pg.list_to_file(a, b'L0.TXT')
                    if problems or listing is None or any(len(l) > 254 for l in listing):
                        continue
                    bad = False
                    for fmt in 'BPA':
                        if a.ex(b'SAVE "C:F%d%s"%s' % (i, fmt.encode(), FMT_ARG[fmt]), 20000):
                            bad = True
                    if bad:
                        continue
                # does the ASCII file re-enter as the same program in a plain fresh session?
                with sb.box() as t:
                    a_ok = (not t.ex(b'LOAD "C:F%dA"' % i, 20000)) and core_of(memory(t))[0] == core
                info.append({'core': core, 'listing': listing, 'a_ok': a_ok})
                progs.append(lines)
            if len(info) < 2:
                continue
            hide = directed or rng.random() < 0.75
            nsteps = 10 if directed else rng.randint(4, 12)
            with sb.box(hide_protected=hide) as b:
                loaded_p = False
                for step in range(nsteps):
                    if directed:
                        # protected first, then every unprotected format, with and without NEW in between
                        op = [('load', 0, 'P'), ('load', 1, 'B'), ('load', 0, 'P'), ('load', 1, 'A'), ('load', 2, 'P'), ('new',), ('load', 0, 'B'),
                              ('load', 1, 'P'), ('merge', 2, 'A'), ('load', 2, 'B')][(step + hi) % 10]
                    else:
                        r = rng.random()
                        i = rng.randrange(len(info))
                        if r < 0.35:
                            op = ('load', i, 'P')
                        elif r < 0.60:
                            op = ('load', i, 'B')
                        elif r < 0.80:
                            op = ('load', i, 'A')
                        elif r < 0.88:
                            op = ('new',)
                        else:
                            op = ('merge', i, 'A')
                    if op[0] in ('load', 'merge') and op[2] == 'A' and not info[op[1]]['a_ok']:
                        continue
                    if op[0] == 'merge' and hide and loaded_p:
                        # MERGE into a protected program is refused by design: start from NEW
                        history.append(['new'])
                        b.ex(b'NEW', 20000)
                        loaded_p = False
                    history.append(list(op))
                    if op[0] == 'new':
                        out = b.ex(b'NEW', 20000)
                        if out:
                            viol('session:new:error', 'NEW gave %r' % out[:80])
                            break
                        loaded_p = False
                        res.count('session_new_seen')
                        continue
                    i, fmt = op[1], op[2]
                    if op[0] == 'merge':
                        b.ex(b'NEW', 20000)
                        out = b.ex(b'MERGE "C:F%dA"' % i, 20000)
                    else:
                        out = b.ex(b'LOAD "C:F%d%s"' % (i, fmt.encode()), 20000)
                    after_p = loaded_p
                    res.count('session_steps')
                    res.case((hi, step, tuple(map(str, op)), hide, spec.get('seed'), spec.get('part')))
                    if after_p and fmt != 'P':
                        res.count('session_unprotected_after_protected_seen' + ('_hidden' if hide else ''))
                    where = '%s-of-%s-file%s' % (op[0], 'protected' if fmt == 'P' else 'unprotected',
                                                 '-after-protected-file-in-same-session' if after_p else '')
                    if out:
                        viol('session:%s:error' % where, '%s gave %r (hide_protected=%s)' % (op[0], out[:80], hide))
                        break
                    ref = info[i]
                    if fmt == 'P' and hide:
                        loaded_p = True
                        out = b.ex(b'SAVE "C:RP",P', 20000)
                        if out:
                            viol('session:resave-protected:error', 'SAVE ,P of a protected program gave %r' % out[:80])
                            break
                        check = [('RP', 'P')]
                    else:
                        loaded_p = False
                        if core_of(memory(b))[0] != ref['core']:
                            viol('session:%s:program-memory-differs' % where, 'program image is not that of the file loaded (hide_protected=%s)' % hide)
                            break
                        out, listing = pg.list_to_file(b, b'L1.TXT')
                        if out or listing != ref['listing']:
                            viol('session:%s:listing-differs-or-refused' % where, 'LIST gave %r, %s lines (hide_protected=%s)' % (
                                out[:60], None if listing is None else len(listing), hide))
                            break
                        check = []
                        for f2 in 'BAP':
                            out = b.ex(b'SAVE "C:R%s"%s' % (f2.encode(), FMT_ARG[f2]), 20000)
                            if out:
                                viol('session:%s:save-%s-refused' % (where, f2), 'SAVE in format %s gave %r (hide_protected=%s)' % (f2, out[:60], hide))
                                check = None
                                break
                            check.append(('R' + f2, f2))
                        if check is None:
                            break
                        if rprog.parse_listing_file(pg.read_file(b, 'RA.BAS')) != ref['listing']:
                            viol('session:%s:ascii-file-differs' % where, 'SAVE ,A wrote another listing')
                            break
                        check = [c for c in check if c[1] != 'A']
                        check = [rng.choice(check)]
                    # the re-saved tokenised / protected file loads back as the same program in a fresh plain session
                    # (outside the `with b` session's mount? the mount is shared: file names RB / RP)
                    for name, f2 in check:
                        with sb.box() as f:
                            out = f.ex(b'LOAD "C:%s"' % name.encode(), 20000)
                            if out or core_of(memory(f))[0] != ref['core']:
                                viol('session:%s:resaved-%s-file-does-not-load-back' % (where, f2), 'LOAD of the re-saved file gave %r' % out[:60])
                                break
                res.count('session_histories')
                res.count('session_histories_hide_protected' if hide else 'session_histories_plain')
        except harness.Internal as e:
            res.violation(e.key, str(e), dict(case))
        finally:
            sb.close()


def run_shard(spec, res):
    kind = spec['kind']
    if kind == 'sessions':
        return run_sessions(spec, res)
    if kind == 'cipher':
        return run_cipher(spec, res)
    if kind == 'directed':
        run_sessions(spec, res, directed=True)
        return run_directed(spec, res)
    if kind == 'programs':
        return run_programs(spec, res)
    if kind == 'corpus':
        return run_corpus(spec, res)
    if kind == 'converter':
        return run_converter(spec, res)
    raise ValueError(kind)
