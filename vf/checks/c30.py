"""
C30 Graphics never draws outside the viewport or the active page.

Pure frame condition.  Every statement is executed alone (line 20 of a stored program, under
ON ERROR GOTO so that no error message is printed over the pixels); all video pages are
snapshotted before and after.  The harness knows the viewport only from the VIEW statements it
issued itself; nothing about the geometry of the primitives is modelled.

 refuted when  a pixel of the active page outside the viewport differs        frame:pixel-outside-viewport:<KIND>
               (for VIEW: outside the new rectangle grown by its 1-pixel border)
               a pixel of any other page differs                               frame:other-page-changed:<KIND>
               in a text mode: the statement does not raise error 5            text:no-illegal-function-call:<KIND>
                               or any pixel / character of any page differs    text:screen-changed:<KIND>
               a host exception escapes                                        internal:<Exc>@<module:function>
"""
import random
import time

from .. import harness
from ..models import gfx

META = {
    'property_id': 'C30',
    'technique': 'frame-condition monitor: full pixel snapshots of all video pages around every single graphics statement',
    'level': 'exploration',
    'level_text': (
        'Runtime oracle on the real interpreter: each generated PSET/PRESET/LINE[,B|BF][,style]/CIRCLE/PAINT (solid, tiled)/'
        'DRAW/PUT (all verbs)/VIEW (fill, border) statement is run alone and the pixel buffers of ALL pages before/after are '
        'compared outside the viewport the harness set up itself; in text modes error 5 and an unchanged screen (pixels and '
        'characters of all pages) are demanded.  Every graphics mode of cga, ega (256k, 64k, mono), vga, hercules, olivetti, '
        'pcjr, tandy and the text modes (40/80) of those plus mda are covered in both tiers; MODE changes that carry a non-zero active page (SCREEN m1,,a,v then SCREEN m2,,a,v, pages named in both) precede drawing in a directed probe and in a share of the random episodes; a seed-independent table of '
        'edge/corner/far-out cases runs in every mode.'),
    'level_note': (
        'Trusted: the page-buffer read (validated against Session.get_pixels / VideoBuffer.pixels at mode entry and at checkpoints), '
        'the harness bookkeeping of VIEW. A pixel overwritten with its own value is invisible; the background is a patchwork of all '
        'attributes so that a stray write is seen with probability (n-1)/n per pixel. The statement does not say what a FAILED VIEW '
        'leaves as viewport: for it the union of the old viewport and the requested rectangle (+border) is allowed and the viewport '
        'is then reset by the harness. A drawing routine that draws too LITTLE (e.g. an exclusive upper bound) is not a C30 refutation '
        '(C31 sees it). PAINT statements ended by the harness step budget are discarded (counted in paint_budget_breaks). A statement that '
        'uses more than 20 CPU-seconds (process CPU time, not wall time) is abandoned and counted (statements_abandoned_after_cpu_limit), not judged: slow is not wrong; the '
        'session is replaced: the frame condition cannot be evaluated for it.'),
    'rule': ('case = (mode, active/visible page, viewport, window, statement text); distinct by that tuple; every case is '
             'non-trivial (a statement that changes nothing because it is clipped away is exactly the interesting case); '
             'behavioural counters record how many changed pixels, were clipped, raised errors'),
    'design_ref': 'DESIGN.md section 4 C30',
    'assumptions': ['page pixel buffers read through VideoBuffer internals are the same data Session.get_pixels exposes (checked at run time)'],
    'require_counters': {'any': ['put_partly_outside', 'mode_switches_nonzero_active_page', 'stmts_changed_pixels', 'stmts_clipped', 'stmts_clipped_changed', 'stmts_active_ne_visible',
                                 'other_pages_compared', 'text_ifc_seen', 'view_set', 'window_set', 'put_drew',
                                 'paint_filled', 'err_5', 'err_6']},
    'timeout': {'quick': 900, 'thorough': 3600},
}

HANG_CPU_SECONDS = 20          # a statement normally needs < 3 CPU-seconds even at radius 2500 / full-screen PAINT
HANG_PROBE_MODES = ('cga:2', 'tandy:3', 'hercules:3')
KINDS = ['PSET', 'PRESET', 'LINE', 'LINE-B', 'LINE-BF', 'CIRCLE', 'PAINT', 'PAINT-TILE', 'DRAW', 'PUT', 'VIEW']
FAR = [1000, 5000, 20000, 32767, 32768, 33000, 40000]


# pages per mode with the default 256k of video memory: ONLY a load-balancing hint for plan()
_PAGES_HINT = {7: 32, 8: 16, 'hercules:3': 2, 'olivetti:3': 1, 'ega64k:7': 8, 'ega64k:9': 2,
               'pcjr:5': 4, 'pcjr:6': 4, 'tandy:5': 4, 'tandy:6': 4}


def _cost(label):
    m = gfx.MODE_BY_LABEL[label]
    pages = _PAGES_HINT.get(label, _PAGES_HINT.get(m['screen'], 8))
    return 4.0 + 7e-6 * m['w'] * m['h'] * pages


def plan(tier, seed):
    labels = [m['label'] for m in gfx.GRAPHICS_MODES]
    shards = []
    if tier == 'quick':
        groups = gfx.balanced_groups(labels, 12, _cost)
        for i, g in enumerate(groups):
            shards.append({'kind': 'gfx', 'modes': g, 'n': 220, 'part': i, 'directed': True})
        shards.append({'kind': 'text', 'n': 12, 'part': 0})
    else:
        for l in labels:
            for p in range(5):
                shards.append({'kind': 'gfx', 'modes': [l], 'n': 1500, 'part': '%s.%d' % (l, p), 'directed': p == 0})
        shards.append({'kind': 'text', 'n': 60, 'part': 0})
        shards.append({'kind': 'text', 'n': 60, 'part': 1})
    return shards


# ---------------------------------------------------------------------------------------
# harness-side state of one session

class State(object):
    def __init__(self, g):
        self.g = g
        self.view = None          # None or (x0, y0, x1, y1, absolute)
        self.window = None        # None or (fx0, fy0, fx1, fy1, screen)

    @property
    def rect(self):
        if self.view is None:
            return (0, 0, self.g.w - 1, self.g.h - 1)
        return self.view[:4]

    def origin(self):
        if self.view is None or self.view[4]:
            return (0, 0)
        return (self.view[0], self.view[1])

    def cfg(self):
        return (self.g.mode['label'], self.g.apage, self.g.vpage, self.view, self.window)


def _num(v):
    if isinstance(v, float):
        t = ('%.4f' % v).rstrip('0').rstrip('.')
        return t.encode() if t not in ('', '-') else b'0'
    return b'%d' % v


def _pick_phys(rng, lo, hi, size):
    """One physical coordinate: far inside / on an edge +-1 / near outside / far outside."""
    r = rng.random()
    if r < 0.35:
        return rng.randint(lo, hi)
    if r < 0.65:
        return rng.choice([lo - 1, lo, lo + 1, hi - 1, hi, hi + 1, -1, 0, 1, size - 2, size - 1, size])
    if r < 0.85:
        return rng.choice([lo - rng.randint(2, 60), hi + rng.randint(2, 60)])
    return rng.choice([-1, 1]) * rng.choice([size + rng.randint(0, 300)] + FAR)


def _to_stmt(st, px, py):
    """Physical absolute target -> coordinates as the statement must give them (VIEW origin / WINDOW)."""
    g = st.g
    ox, oy = st.origin()
    if st.window is None:
        return px - ox, py - oy
    fx0, fy0, fx1, fy1, scr = st.window
    x0, y0, x1, y1 = st.rect
    vw, vh = max(1, x1 - x0), max(1, y1 - y0)
    lx = fx0 + (px - x0) * (fx1 - fx0) / float(vw)
    ty = (py - y0) / float(vh)
    ly = fy0 + ty * (fy1 - fy0) if scr else fy1 - ty * (fy1 - fy0)
    return lx, ly


def _coord(rng, st):
    x0, y0, x1, y1 = st.rect
    px = _pick_phys(rng, x0, x1, st.g.w)
    py = _pick_phys(rng, y0, y1, st.g.h)
    outside = not (x0 <= px <= x1 and y0 <= py <= y1)
    x, y = _to_stmt(st, px, py)
    return x, y, outside


def _pt(x, y, step=False):
    return (b' STEP' if step else b'') + b'(' + _num(x) + b',' + _num(y) + b')'


def _args(head, args):
    """head + ',a,b,,d' with trailing omitted arguments (None / empty) dropped."""
    args = [b'' if a is None else a for a in args]
    while args and not args[-1]:
        args.pop()
    return head + b''.join(b',' + a for a in args)


def _colour(rng, g, allow_none=True):
    r = rng.random()
    if allow_none and r < 0.2:
        return None
    if r < 0.9:
        return rng.randrange(g.nattr)
    if r < 0.98:
        return rng.choice([g.nattr, 15, 16, 127, 255])
    return rng.choice([256, 300, -1])


def _c(c):
    return b'' if c is None else b'%d' % c


def gen_statement(rng, st):
    """-> (kind, statement bytes, touches_outside flag)"""
    g = st.g
    r = rng.random()
    if r < 0.13:
        kind = rng.choice(['PSET', 'PRESET'])
        step = rng.random() < 0.15
        if step:
            x, y, out = rng.randint(-40, 40), rng.randint(-40, 40), True
        else:
            x, y, out = _coord(rng, st)
        c = _colour(rng, g)
        s = _args(kind.encode() + _pt(x, y, step), [_c(c)])
        return kind, s, out
    if r < 0.40:
        shape = rng.choice(['', '', 'B', 'BF'])
        kind = 'LINE' + ('-' + shape if shape else '')
        x0, y0, o0 = _coord(rng, st)
        x1, y1, o1 = _coord(rng, st)
        if rng.random() < 0.12:
            p0 = b''
        else:
            p0 = _pt(x0, y0)
        step1 = rng.random() < 0.1
        if step1:
            x1, y1 = rng.choice([-300, -20, -1, 0, 1, 20, 300, 30000]), rng.choice([-300, -20, -1, 0, 1, 20, 300])
        c = _colour(rng, g)
        style = b'&H%X' % rng.choice([0xF0F0, 0xAAAA, 0x8001, 0x1, rng.randrange(65536)]) if rng.random() < 0.25 else None
        s = _args(b'LINE' + p0 + b'-' + _pt(x1, y1, step1), [_c(c), shape.encode(), style])
        return kind, s, (o0 or o1 or step1 or not p0)
    if r < 0.55:
        x, y, out = _coord(rng, st)
        rr = rng.random()
        if rr < 0.55:
            rad = rng.randint(0, 60)
        elif rr < 0.9:
            rad = rng.randint(30, 500)
        else:
            rad = rng.choice([800, 1500, 2500])
        if st.window is not None:
            fx0, fy0, fx1, fy1, _ = st.window
            x0, y0, x1, y1 = st.rect
            rad = rad * abs(fx1 - fx0) / float(max(1, x1 - x0))
        c = _colour(rng, g)
        a0 = a1 = asp = None
        if rng.random() < 0.45:
            a0 = _num(round(rng.uniform(-6.28, 6.28), 3))
            a1 = _num(round(rng.uniform(-6.28, 6.28), 3)) if rng.random() < 0.9 else None
            if rng.random() < 0.5:
                asp = _num(rng.choice([0.1, 0.3, 0.5, 0.9, 1, 1.2, 2, 5, 40]))
        elif rng.random() < 0.4:
            asp = _num(rng.choice([0.05, 0.3, 0.5, 0.8333, 1, 1.5, 3, 10, 100]))
        s = _args(b'CIRCLE' + _pt(x, y, rng.random() < 0.08), [_num(rad), _c(c), a0, a1, asp])
        return 'CIRCLE', s, True
    if r < 0.66:
        x, y, out = _coord(rng, st)
        if rng.random() < 0.65:
            c = _colour(rng, g)
            b = _colour(rng, g, False) if rng.random() < 0.6 else None
            s = _args(b'PAINT' + _pt(x, y, rng.random() < 0.05), [_c(c), _c(b)])
            return 'PAINT', s, True
        n = rng.choice([1, 2, 3, 4, 4, 8, 8, 16, 33])
        tile = b'+'.join(b'CHR$(%d)' % rng.choice([0, 255, 0x55, 0xAA, rng.randrange(256)]) for _ in range(n))
        s = b'PAINT' + _pt(x, y) + b',' + tile
        if rng.random() < 0.6:
            s += b',' + _c(_colour(rng, g, False))
            if rng.random() < 0.3:
                s += b',CHR$(%d)' % rng.choice([0, 255, 0x55, rng.randrange(256)])
        return 'PAINT-TILE', s, True
    if r < 0.80:
        return 'DRAW', b'DRAW "' + gen_draw(rng, st) + b'"', True
    if r < 0.93:
        return gen_put(rng, st)
    return gen_view(rng, st)


def gen_draw(rng, st):
    g = st.g
    x0, y0, x1, y1 = st.rect
    ox, oy = st.origin()
    out = []
    if rng.random() < 0.7:
        px = _pick_phys(rng, x0, x1, g.w)
        py = _pick_phys(rng, y0, y1, g.h)
        if abs(px - ox) <= 9999 and abs(py - oy) <= 9999:
            out.append(b'BM%d,%d' % (px - ox, py - oy))
    for _ in range(rng.randint(1, 9)):
        r = rng.random()
        pre = rng.choice([b'', b'', b'', b'B', b'N'])
        if r < 0.5:
            n = rng.choice([None, rng.randint(0, 12), rng.randint(10, 400), rng.choice([1000, 5000, 32767, 40000, 99999])]
                           if rng.random() < 0.9 else [rng.randint(-50, -1)])
            out.append(pre + rng.choice(b'UDLREFGH'.decode()).encode() + (b'' if n is None else b'%d' % n))
        elif r < 0.62:
            dx, dy = rng.choice([-1, 1]) * rng.choice([0, 3, 50, 700, 9999]), rng.choice([-1, 1]) * rng.choice([0, 4, 60, 500, 9999])
            out.append(pre + b'M%+d,%d' % (dx, dy))
        elif r < 0.72:
            px = _pick_phys(rng, x0, x1, g.w) - ox
            py = _pick_phys(rng, y0, y1, g.h) - oy
            px = max(-9999, min(9999, px))
            py = max(-9999, min(9999, py))
            out.append(pre + b'M%d,%d' % (px, py))
        elif r < 0.80:
            out.append(b'S%d' % rng.choice([1, 2, 4, 4, 7, 16, 60, 255]))
        elif r < 0.86:
            out.append(b'A%d' % rng.randrange(4))
        elif r < 0.90:
            out.append(b'TA%d' % rng.choice([0, 30, 45, -90, 133, 360, -360]))
        elif r < 0.97:
            out.append(b'C%d' % (rng.randrange(g.nattr) if rng.random() < 0.9 else rng.choice([g.nattr, 16, 200, 255])))
        else:
            out.append(b'P%d,%d' % (rng.randrange(g.nattr), rng.randrange(g.nattr)))
    return rng.choice([b'', b' ', b';']).join(out)


def gen_put(rng, st, verb=None, target=None, size=None):
    """DIM + GET (inside the viewport) + PUT at an interesting place: one line, no sprite format knowledge."""
    g = st.g
    x0, y0, x1, y1 = st.rect
    vw, vh = x1 - x0 + 1, y1 - y0 + 1
    sw, sh = size or (rng.randint(1, 40), rng.randint(1, 24))
    sw, sh = min(sw, vw), min(sh, vh)
    gx = rng.randint(x0, x1 - sw + 1)
    gy = rng.randint(y0, y1 - sh + 1)
    a = _to_stmt(st, gx, gy)
    b = _to_stmt(st, gx + sw - 1, gy + sh - 1)
    if target is None:
        r = rng.random()
        if r < 0.45:
            # fits: including flush against each edge
            tx = rng.choice([x0, x1 - sw + 1, rng.randint(x0, x1 - sw + 1)])
            ty = rng.choice([y0, y1 - sh + 1, rng.randint(y0, y1 - sh + 1)])
        elif r < 0.75:
            # one pixel too far in some direction
            tx = rng.choice([x0 - 1, x1 - sw + 2, rng.randint(x0, x1 - sw + 1)])
            ty = rng.choice([y0 - 1, y1 - sh + 2, rng.randint(y0, y1 - sh + 1)])
        else:
            tx = _pick_phys(rng, x0, x1, g.w)
            ty = _pick_phys(rng, y0, y1, g.h)
    else:
        tx, ty = target
    fits = x0 <= tx and tx + sw - 1 <= x1 and y0 <= ty and ty + sh - 1 <= y1
    t = _to_stmt(st, tx, ty)
    if verb is None:
        verb = rng.choice([b'', b',PSET', b',PRESET', b',AND', b',OR', b',XOR'])
    s = (b'DIM A%(2600):GET' + _pt(*a) + b'-' + _pt(*b) + b',A%:PUT' + _pt(*t) + b',A%' + verb)
    return 'PUT', s, not fits


def gen_view(rng, st, rect=None, absolute=None, fill='r', border='r'):
    g = st.g
    r = rng.random()
    if rect is None:
        if r < 0.08:
            return 'VIEW', b'VIEW', False
        if r < 0.16:
            # invalid: degenerate or off-screen
            rect = rng.choice([(5, 5, 5, 50), (5, 5, 50, 5), (-1, 0, 20, 20), (0, 0, g.w, 20), (0, 0, 20, g.h), (10, 10, 40000, 20)])
        else:
            rect = random_view_rect(rng, g)
    if absolute is None:
        absolute = rng.random() < 0.4
    s = b'VIEW' + (b' SCREEN' if absolute else b'') + b'(%d,%d)-(%d,%d)' % rect
    if fill == 'r':
        fill = _colour(rng, g) if rng.random() < 0.6 else None
    if border == 'r':
        border = _colour(rng, g) if rng.random() < 0.6 else None
    if fill is not None or border is not None:
        s += b',' + _c(fill)
        if border is not None:
            s += b',' + _c(border)
    return 'VIEW', s, True


def random_view_rect(rng, g):
    w, h = g.w, g.h
    r = rng.random()
    if r < 0.25:
        # touching screen edges (border falls off the screen)
        xa = rng.choice([0, 0, 1, rng.randint(0, w - 3)])
        ya = rng.choice([0, 0, 1, rng.randint(0, h - 3)])
        xb = rng.choice([w - 1, w - 1, w - 2, rng.randint(xa + 1, w - 1)])
        yb = rng.choice([h - 1, h - 1, h - 2, rng.randint(ya + 1, h - 1)])
    elif r < 0.4:
        # tiny
        xa, ya = rng.randint(0, w - 4), rng.randint(0, h - 4)
        xb, yb = xa + rng.randint(1, 3), ya + rng.randint(1, 3)
    else:
        xa, xb = sorted(rng.sample(range(w), 2))
        ya, yb = sorted(rng.sample(range(h), 2))
    rect = [xa, ya, xb, yb]
    # VIEW orders its coordinates: give them unordered now and then
    if rng.random() < 0.2:
        rect[0], rect[2] = rect[2], rect[0]
    if rng.random() < 0.2:
        rect[1], rect[3] = rect[3], rect[1]
    return tuple(rect)


def parse_view(stmt):
    """The harness's own reading of the VIEW statement it generated -> (rect ordered, absolute) or None for plain VIEW."""
    body = stmt[4:]
    absolute = body.startswith(b' SCREEN')
    if absolute:
        body = body[7:]
    if not body:
        return None
    coords = body.split(b')')[0:2]
    a = coords[0].lstrip(b'(').split(b',')
    b = coords[1].lstrip(b'-(').split(b',')
    xa, ya, xb, yb = int(a[0]), int(a[1]), int(b[0]), int(b[1])
    return (min(xa, xb), min(ya, yb), max(xa, xb), max(ya, yb)), absolute


WINDOWS = [(-1, -1, 1, 1), (0, 0, 1000, 1000), (-32000, -32000, 32000, 32000), (0, 0, 0.01, 0.01), (-5, 20, 300, 25),
           (100, 100, 163.5, 127.25), (0, 0, 319, 199), (-1e6, -1e6, 1e6, 1e6)]


# ---------------------------------------------------------------------------------------
# the monitor

class Monitor(object):

    def __init__(self, g, res, spec):
        self.g = g
        self.res = res
        self.spec = spec
        self.st = State(g)
        self.n = 0
        self.snapshot = None

    def background(self, rng):
        """Patchwork of all attributes on (up to 4) pages, drawn by plain direct statements (set-up, not under test)."""
        g = self.g
        g.direct(b'VIEW:WINDOW')
        self.st.view = self.st.window = None
        npg = min(g.npages, 4)
        for p in range(npg - 1, -1, -1):
            if g.npages > 1:
                g.enter_mode(p, p)
            stmts = []
            for i in range(26):
                xa, xb = sorted((rng.randrange(g.w), rng.randrange(g.w)))
                ya, yb = sorted((rng.randrange(g.h), rng.randrange(g.h)))
                stmts.append(b'LINE(%d,%d)-(%d,%d),%d,BF' % (xa, ya, xb, yb, (i + p) % g.nattr))
            for i in range(14):
                stmts.append(b'LINE(%d,%d)-(%d,%d),%d,,&H%X' % (
                    rng.randrange(g.w), rng.randrange(g.h), rng.randrange(g.w), rng.randrange(g.h),
                    rng.randrange(g.nattr), rng.randrange(1, 65536)))
            for i in range(0, len(stmts), 6):
                g.direct(b':'.join(stmts[i:i + 6]))
        g.direct(b'VIEW:WINDOW')
        self.st.view = self.st.window = None

    def set_pages(self, rng, same=None):
        g = self.g
        # a page switch is not documented to keep VIEW/WINDOW: reset both to a known state first
        # (switching pages under an active VIEW is probed separately, see probes())
        g.direct(b'VIEW:WINDOW')
        self.st.view = self.st.window = None
        if g.npages > 1:
            ap = rng.randrange(g.npages)
            vp = rng.randrange(g.npages) if not same else ap
            g.enter_mode(ap, vp)
        self.snapshot = None

    def other_screens(self):
        """SCREEN numbers of the same adapter other than this session's mode (0 = text mode), from the mode table."""
        prefix = self.g.mode['label'].split(':')[0]
        nrs = [m['screen'] for m in gfx.GRAPHICS_MODES if m['label'].split(':')[0] == prefix and m['screen'] != self.g.mode['screen']]
        return nrs + [0]

    def mode_round_trip(self, other, ap, vp):
        """
        SCREEN other,,ap,vp (another MODE with the page numbers given) and back with SCREEN m,,ap,vp:
        both statements name the pages explicitly, so the active page afterwards is ap by the
        statement's own words. Pages are NOT switched again afterwards. The mode change erases every
        page; the caller restores the background after its statements.
        """
        g, res = self.g, self.res
        g.direct(b'VIEW:WINDOW')
        self.st.view = self.st.window = None
        self.snapshot = None
        code = g.direct(b'SCREEN %d,,%d,%d' % (other, ap, vp))
        if code:
            # the other mode has fewer pages: the message went to the picture, nothing else happened
            res.count('mode_switch_rejected')
            g.enter_mode(ap, vp)
            return False
        g.enter_mode(ap, vp)
        res.count('mode_switches')
        if ap:
            res.count('mode_switches_nonzero_active_page')
        return True

    def set_window(self, rng, win=None, screen=None):
        g = self.g
        if win is None and rng.random() < 0.15:
            code = g.trap(b'WINDOW')
            self.st.window = None
        else:
            win = win or rng.choice(WINDOWS)
            screen = rng.random() < 0.4 if screen is None else screen
            s = b'WINDOW' + (b' SCREEN' if screen else b'') + b'(' + _num(win[0]) + b',' + _num(win[1]) + b')-(' + _num(win[2]) + b',' + _num(win[3]) + b')'
            code = g.trap(s)
            if code == 0:
                self.st.window = (float(win[0]), float(win[1]), float(win[2]), float(win[3]), screen)
                self.res.count('window_set')
            else:
                g.trap(b'WINDOW')
                self.st.window = None
        self.snapshot = None

    def corrupt(self, e, kind, stmt, case):
        """An observation of the session failed after `stmt`: report it and give the session up."""
        self.res.violation('frame:page-buffer-corrupted:%s' % e.what,
                           '%s: after %s the screen can no longer be observed: %s' % (
                               self.g.mode['label'] if self.g.mode else 'text', stmt.decode('latin-1'), e), case)
        self.res.count('page_buffer_corruptions')
        err = harness.Internal(e, 'corrupt', '')
        err.reported = True
        raise err

    def check(self, kind, stmt, outside, must_reject=False):
        """Run one statement under observation.  must_reject: a PUT whose rectangle is partly outside the
        viewport: error 5 and an unchanged screen are expected (GW-BASIC manual: the image must fit)."""
        g, res, st = self.g, self.res, self.st
        case = {'mode': g.mode['label'], 'apage': g.apage, 'vpage': g.vpage, 'view': st.view, 'window': st.window,
                'stmt': stmt}
        self.last = (kind, stmt, case)
        try:
            before = self.snapshot if self.snapshot is not None else g.snap()
        except gfx.Corrupt as e:
            self.corrupt(e, kind, b'<earlier statement, found before> ' + stmt, case)
        old_rect = st.rect
        try:
            with gfx.cpu_guard(HANG_CPU_SECONDS):
                code = g.trap(stmt)
        except (harness.Internal, gfx.StatementHang) as e:
            if gfx.is_hang(e):
                # a CPU-time limit is not a verdict: a tiled PAINT over a noisy 640x350 page was measured to need 35
                # CPU-seconds and still finish.  The statement is abandoned, counted and not judged (the session is
                # replaced by the caller); an endless PAINT loop is ended by the harness step budget instead
                # (paint_budget_breaks), because the fill calls wait() every few rows.
                res.count('statements_abandoned_after_cpu_limit')
                res.count('statements_abandoned_after_cpu_limit_' + kind)
                err = harness.Internal(e, 'hang', '') if not isinstance(e, harness.Internal) else e
                err.reported = True
                raise err
            res.violation(e.key, '%s in %s: %s' % (stmt.decode('latin-1'), g.mode['label'], e), case)
            res.count('internal_errors')
            e.reported = True
            raise
        self.n += 1
        res.case((st.cfg(), stmt))
        res.count('statements')
        res.count('kind_' + kind)
        if self.n <= 2:
            res.sample(dict(case, error=code))
        if code == -2:
            # ended by the harness budget: "Break" was printed over the screen; discard
            res.count('paint_budget_breaks')
            return 'break'
        if code < 0:
            res.inconclusive('harness: statement could not be run (%d): %r' % (code, stmt))
            return 'break'
        try:
            after = g.snap()
        except gfx.Corrupt as e:
            self.corrupt(e, kind, stmt, case)
        self.snapshot = after
        if code:
            res.count('err_%d' % code)
            res.count('stmts_error')
        # which region may change
        allowed = [old_rect]
        if kind == 'VIEW':
            pv = parse_view(stmt)
            if pv is None:
                new = (0, 0, g.w - 1, g.h - 1)
                grown = new
            else:
                new = pv[0]
                grown = (new[0] - 1, new[1] - 1, new[2] + 1, new[3] + 1)
            if code == 0:
                allowed = [grown]
                st.view = None if pv is None else new + (pv[1],)
                res.count('view_set')
                if pv is not None and (new[0] == 0 or new[1] == 0 or new[2] == g.w - 1 or new[3] == g.h - 1):
                    res.count('view_touching_screen_edge')
            else:
                allowed = [old_rect, grown]
        ap = g.apage
        changed_any = False
        for p in range(len(before)):
            if p >= len(after) or len(before[p]) != len(after[p]):
                res.inconclusive('harness: page layout changed under a graphics statement')
                return 'break'
            if p == ap:
                continue
            res.count('other_pages_compared')
            if before[p] != after[p]:
                pts = gfx.diff_points(before[p], after[p], g.w, g.h, limit=3)
                res.violation('frame:other-page-changed:' + kind,
                              '%s: %s with active page %d changed page %d at %r' % (g.mode['label'], stmt.decode('latin-1'), ap, p, pts),
                              case)
        if before[ap] != after[ap]:
            changed_any = True
            n, first = gfx.changed_outside(before[ap], after[ap], g.w, g.h, allowed[0])
            if n and len(allowed) > 1:
                pts = [q for q in gfx.diff_points(before[ap], after[ap], g.w, g.h)
                       if not any(r[0] <= q[0] <= r[2] and r[1] <= q[1] <= r[3] for r in allowed)]
                n, first = len(pts), (pts[0] if pts else None)
            if n:
                res.violation('frame:pixel-outside-viewport:' + kind,
                              '%s: %s changed %d pixel(s) outside the viewport %r, first at %r (view=%r window=%r)' % (
                                  g.mode['label'], stmt.decode('latin-1'), n, allowed, first, st.view, st.window), case)
        if must_reject and st.window is None:
            res.count('put_partly_outside')
            if code == 0:
                res.violation('frame:put-partly-outside-not-rejected',
                              '%s: %s (sprite partly outside the viewport %r) was executed without an error' % (
                                  g.mode['label'], stmt.decode('latin-1'), old_rect), case)
            elif changed_any:
                res.violation('frame:rejected-put-changed-pixels',
                              '%s: %s raised error 5 but changed the active page' % (g.mode['label'], stmt.decode('latin-1')), case)
        if changed_any:
            res.count('stmts_changed_pixels')
            if kind == 'PUT':
                res.count('put_drew')
            if kind in ('PAINT', 'PAINT-TILE'):
                res.count('paint_filled')
        if outside:
            res.count('stmts_clipped')
            if changed_any:
                res.count('stmts_clipped_changed')
        if g.apage != g.vpage:
            res.count('stmts_active_ne_visible')
        if st.view is not None:
            res.count('stmts_view_active')
            if st.view[4]:
                res.count('stmts_view_screen')
        if st.window is not None:
            res.count('stmts_window_active')
        res.maxc('max_pages_snapshotted', len(after))
        if kind == 'VIEW' and code != 0:
            # the statement does not say what a failed VIEW leaves: put the session in a known state
            g.trap(b'VIEW')
            st.view = None
            self.snapshot = None
        if self.n % 60 == 0:
            try:
                if not g.validate_fast():
                    res.count('snapshot_fallbacks')
            except gfx.Corrupt as e:
                self.corrupt(e, kind, stmt, case)
            self.snapshot = None
        return code


def _fresh(res, spec, label):
    g = gfx.GBox(gfx.MODE_BY_LABEL[label], wait_budget=2500)
    return g


def run_gfx(spec, rng, res):
    for label in spec['modes']:
        res.count('mode_sessions')
        if spec.get('directed'):
            res.count('modes_covered')
            probes(res, label)
        _run_mode(spec, rng, res, label)


def _run_mode(spec, rng, res, label):
    todo = []
    if spec.get('directed'):
        todo.append(('directed', None))
    todo.append(('random', spec['n']))
    g = None
    try:
        for what, n in todo:
            tries = 0
            done = False
            while not done and tries < 4:
                tries += 1
                if g is None:
                    try:
                        g = _fresh(res, spec, label)
                    except gfx.ModeMismatch as e:
                        res.inconclusive('mode table: %s' % e)
                        return
                    res.count('pages_total', g.npages)
                    if g.npages > 1:
                        res.count('multi_page_modes')
                mon = Monitor(g, res, spec)
                try:
                    mon.background(random.Random('%s:C30:bg:%s' % (spec['seed'], label)))
                    if what == 'directed':
                        directed(mon, rng)
                    else:
                        randomised(mon, rng, n)
                    done = True
                except (harness.Internal, gfx.Corrupt) as e:
                    # the session may be inconsistent: start a new one
                    if isinstance(e, gfx.Corrupt):
                        last = getattr(mon, 'last', None)
                        res.violation('frame:page-buffer-corrupted:%s' % e.what,
                                      '%s: the screen can no longer be observed (%s); last statement under test: %s' % (
                                          label, e, last[1].decode('latin-1') if last else 'none'), last[2] if last else {'mode': label})
                        res.count('page_buffer_corruptions')
                    elif not getattr(e, 'reported', False):
                        res.violation(e.key, '%s: host exception in a set-up statement (SCREEN/VIEW/WINDOW/background LINE): %s' % (label, e),
                                      {'mode': label, 'phase': what})
                    g.close()
                    g = None
                    if what == 'directed':
                        mon_skip = getattr(mon, 'directed_pos', 0)
                        spec = dict(spec, directed_skip=mon_skip + 1)
                    else:
                        n = max(0, n - mon.n)
            if not done:
                res.count('phases_abandoned_after_host_exceptions')
        if g is not None and g.fallbacks:
            res.count('snapshot_fallbacks', g.fallbacks)
    finally:
        if g is not None:
            g.close()


def _after_break(mon, rng):
    """A Break message was printed: rebuild the picture."""
    g = mon.g
    g.direct(b'VIEW:WINDOW')
    mon.st.view = mon.st.window = None
    g.enter_mode(g.apage, g.vpage) if g.npages > 1 else g.enter_mode()
    g.direct(b'CLS')
    mon.background(rng)
    mon.snapshot = None


def randomised(mon, rng, n):
    g, st = mon.g, mon.st
    while mon.n < n:
        tripped = False
        if g.npages > 1 and rng.random() < 0.12:
            ap = rng.randrange(1, g.npages)
            vp = ap if rng.random() < 0.5 else rng.randrange(g.npages)
            tripped = mon.mode_round_trip(rng.choice(mon.other_screens()), ap, vp)
        else:
            mon.set_pages(rng, same=rng.random() < 0.3)
        if tripped:
            # all pages are blank now: use visible colours, then restore the patchwork
            for _ in range(rng.randint(8, 16)):
                kind, stmt, out = gen_statement(rng, st)
                if len(stmt) <= 240 and mon.check(kind, stmt, out, must_reject=(kind == 'PUT' and out)) == 'break':
                    break
            mon.background(rng)
            mon.snapshot = None
            continue
        if rng.random() < 0.75:
            kind, stmt, out = gen_view(rng, st)
            if mon.check(kind, stmt, out) == 'break':
                _after_break(mon, rng)
        if rng.random() < 0.35:
            mon.set_window(rng)
        for _ in range(rng.randint(12, 30)):
            r = rng.random()
            if r < 0.03:
                mon.set_window(rng)
                continue
            kind, stmt, out = gen_statement(rng, st)
            if len(stmt) > 240:
                continue
            if mon.check(kind, stmt, out, must_reject=(kind == 'PUT' and out)) == 'break':
                _after_break(mon, rng)
                mon.set_pages(rng)


def directed(mon, rng):
    """Seed-independent table: every primitive at / across / far beyond every edge of a few viewports."""
    g, st, res = mon.g, mon.st, mon.res
    w, h = g.w, g.h
    skip = mon.spec.get('directed_skip', 0)
    views = [
        None,
        ((w // 4, h // 4, 3 * w // 4, 3 * h // 4), False),
        ((w // 3, h // 3, w // 3 + 37, h // 3 + 23), True),
        ((w - 21, h - 17, w - 1, h - 1), False),
        ((0, 0, 1, 1), True),
    ]
    pos = 0
    drng = random.Random('C30:directed')   # fixed: the directed core never depends on the seed
    for vi, v in enumerate(views):
        g.direct(b'VIEW:WINDOW')
        st.view = st.window = None
        if g.npages > 1:
            ap = vi % g.npages
            vp = (vi + 1) % g.npages if vi % 2 else ap
            g.enter_mode(ap, vp)
        mon.snapshot = None
        stmts = []
        if v is not None:
            (xa, ya, xb, yb), ab = v
            stmts.append(('VIEW', b'VIEW%s(%d,%d)-(%d,%d),%d,%d' % (b' SCREEN' if ab else b'', xa, ya, xb, yb, 1 % g.nattr, (g.nattr - 1))))
        else:
            xa, ya, xb, yb = 0, 0, w - 1, h - 1
            ab = True
            # VIEW at the very edge of the screen: the border falls off the screen
            stmts.append(('VIEW', b'VIEW(0,0)-(%d,%d),,%d' % (w - 1, h - 1, g.nattr - 1)))
            stmts.append(('VIEW', b'VIEW'))
        ox, oy = (0, 0) if ab else (xa, ya)
        c = g.nattr - 1

        def P(px, py):
            return b'(%d,%d)' % (px - ox, py - oy)
        corners = [(xa, ya), (xb, ya), (xa, yb), (xb, yb)]
        # PSET on and around every corner
        for (cx, cy) in corners:
            for dx in (-1, 0, 1):
                for dy in (-1, 0, 1):
                    stmts.append(('PSET', b'PSET' + P(cx + dx, cy + dy) + b',%d' % c))
        stmts.append(('PRESET', b'PRESET' + P(xa - 1, ya + 1)))
        stmts.append(('PSET', b'PSET(-32768,-32768),%d' % c))
        stmts.append(('PSET', b'PSET(32767,32767),%d' % c))
        stmts.append(('PSET', b'PSET(40000,0),%d' % c))
        # lines across, along the outside of each edge, far out
        stmts += [
            ('LINE', b'LINE' + P(xa - 30, ya - 20) + b'-' + P(xb + 30, yb + 20) + b',%d' % c),
            ('LINE', b'LINE' + P(xb + 30, ya - 20) + b'-' + P(xa - 30, yb + 20) + b',%d,,&HF0F0' % c),
            ('LINE', b'LINE' + P(xa - 1, ya - 5) + b'-' + P(xa - 1, yb + 5) + b',%d' % c),
            ('LINE', b'LINE' + P(xb + 1, ya - 5) + b'-' + P(xb + 1, yb + 5) + b',%d' % c),
            ('LINE', b'LINE' + P(xa - 5, ya - 1) + b'-' + P(xb + 5, ya - 1) + b',%d' % c),
            ('LINE', b'LINE' + P(xa - 5, yb + 1) + b'-' + P(xb + 5, yb + 1) + b',%d' % c),
            ('LINE', b'LINE(-32768,-32768)-(32767,32767),%d' % c),
            ('LINE', b'LINE(-32768,32767)-(32767,-32768),%d' % (c - 1 if c > 1 else c)),
            ('LINE', b'LINE(-40000,0)-(40000,10),%d' % c),
            ('LINE', b'LINE-(32767,0),%d' % c),
            ('LINE-B', b'LINE' + P(xa - 1, ya - 1) + b'-' + P(xb + 1, yb + 1) + b',%d,B' % c),
            ('LINE-B', b'LINE' + P(xa - 9, ya + 2) + b'-' + P(xb - 2, yb + 9) + b',%d,B,&HAAAA' % c),
            ('LINE-B', b'LINE(-32768,-32768)-(32767,32767),%d,B' % c),
            ('LINE-BF', b'LINE' + P(xa - 7, ya - 7) + b'-' + P(xa + 7, ya + 7) + b',%d,BF' % (1 % g.nattr)),
            ('LINE-BF', b'LINE' + P(xb - 7, yb - 7) + b'-' + P(xb + 7, yb + 7) + b',%d,BF' % c),
            ('LINE-BF', b'LINE' + P(xb + 1, ya) + b'-' + P(xb + 9, yb) + b',%d,BF' % c),
            ('LINE-BF', b'LINE' + P(xa - 9, ya) + b'-' + P(xa - 1, yb) + b',%d,BF' % c),
            ('LINE-BF', b'LINE(-32768,-32768)-(32767,32767),0,BF'),
            ('LINE-BF', b'LINE(-3,-3)-(40000,40000),1,BF'),
        ]
        # circles on the corners, around the viewport, arcs with pie lines, extreme aspects
        for (cx, cy) in corners:
            stmts.append(('CIRCLE', b'CIRCLE' + P(cx, cy) + b',9,%d' % c))
        mx, my = (xa + xb) // 2, (ya + yb) // 2
        big = max(xb - xa, yb - ya)
        stmts += [
            ('CIRCLE', b'CIRCLE' + P(mx, my) + b',%d,%d' % (big, c)),
            ('CIRCLE', b'CIRCLE' + P(mx, my) + b',%d,%d,-0.5,-2.5' % (big // 2 + 3, c)),
            ('CIRCLE', b'CIRCLE' + P(mx, my) + b',%d,%d,-3,-6,0.3' % (big // 2 + 3, c)),
            ('CIRCLE', b'CIRCLE' + P(mx, my) + b',%d,%d,,,7' % (big // 2 + 3, c)),
            ('CIRCLE', b'CIRCLE' + P(xa - 40, my) + b',45,%d' % c),
            ('CIRCLE', b'CIRCLE' + P(mx, yb + 40) + b',45,%d,,,0.5' % c),
            ('CIRCLE', b'CIRCLE(-30000,-30000),1500,%d' % c),
            ('CIRCLE', b'CIRCLE(32767,0),2000,%d' % c),
            ('CIRCLE', b'CIRCLE' + P(mx, my) + b',2500,%d' % c),
        ]
        # PAINT: whole viewport (border attribute absent from the fill), seeds on/over the edges, tiles
        stmts += [
            ('LINE-BF', b'LINE' + P(xa, ya) + b'-' + P(xb, yb) + b',0,BF'),
            ('PAINT', b'PAINT' + P(mx, my) + b',%d,%d' % (c, c)),
            ('PAINT', b'PAINT' + P(xa, ya) + b',%d,%d' % (1 % g.nattr, 0)),
            ('PAINT', b'PAINT' + P(xa - 1, my) + b',%d,%d' % (c, 0)),
            ('PAINT', b'PAINT' + P(mx, yb + 1) + b',%d,%d' % (c, 0)),
            ('PAINT', b'PAINT(-20000,30000),%d' % c),
            ('LINE-BF', b'LINE' + P(xa, ya) + b'-' + P(xb, yb) + b',0,BF'),
            ('PAINT-TILE', b'PAINT' + P(mx, my) + b',CHR$(&H55)+CHR$(&HAA)+CHR$(&HFF)+CHR$(&H0F),%d' % c),
            ('PAINT-TILE', b'PAINT' + P(xb, yb) + b',CHR$(&HF0)+CHR$(0)+CHR$(&H3C),%d,CHR$(&H55)' % c),
        ]
        # DRAW leaving the viewport on every side, with scaling and turning
        stmts += [
            ('DRAW', b'DRAW "BM%d,%d C%d U500 R900 D1000 L1800 U1000"' % (mx - ox, my - oy, c)),
            ('DRAW', b'DRAW "BM%d,%d C%d S40 E60 F60 G60 H60"' % (mx - ox, my - oy, c)),
            ('DRAW', b'DRAW "BM%d,%d C%d S4 A1 R300 A2 R300 A3 R300 A0 TA45 R300 TA0"' % (mx - ox, my - oy, c)),
            ('DRAW', b'DRAW "BM%d,%d NM+9999,9999 NM-9999,-9999 M%d,%d"' % (mx - ox, my - oy, xb - ox + 1, ya - oy - 1)),
            ('DRAW', b'DRAW "BM%d,%d C%d R30000 R30000"' % (xa - ox, ya - oy, c)),
            ('DRAW', b'DRAW "BM%d,%d P%d,%d"' % (xa - ox - 1, ya - oy, c, 0)),
        ]
        # PUT: exactly fitting in every corner, one pixel too far, far out
        sw, sh = min(13, xb - xa + 1), min(7, yb - ya + 1)
        for verb in (b',PSET', b',PRESET', b',AND', b',OR', b',XOR', b''):
            tx, ty = drng.choice([(xa, ya), (xb - sw + 1, ya), (xa, yb - sh + 1), (xb - sw + 1, yb - sh + 1)])
            stmts.append(gen_put(drng, st_for(st, v), verb=verb, target=(tx, ty), size=(sw, sh))[:2])
        for (tx, ty) in [(-1, -1), (w, h), (30000, 30000), (40000, 0)]:
            stmts.append(gen_put(drng, st_for(st, v), verb=b',PSET', target=(tx, ty), size=(sw, sh))[:2])
        # one corner inside, one outside: over every edge and corner of the viewport (= of the screen when no VIEW
        # is set), by one pixel and by most of the sprite, with every verb: must be refused, nothing may change
        mx0, my0 = (xa + xb - sw) // 2, (ya + yb - sh) // 2
        partly = [(xa - 1, my0), (xb - sw + 2, my0), (mx0, ya - 1), (mx0, yb - sh + 2),
                  (xa - sw + 1, ya - sh + 1), (xb, ya - sh + 1), (xa - sw + 1, yb), (xb, yb),
                  (xa - sw + 1, my0), (xb, my0), (mx0, ya - sh + 1), (mx0, yb)]
        must = set()
        for vi2, verb in enumerate((b',PSET', b',PRESET', b',AND', b',OR', b',XOR', b'')):
            for pi, (tx, ty) in enumerate(partly):
                if sw < 2 or sh < 2 or (pi + vi2) % 2 and vi > 1:
                    continue
                k, ps, outside = gen_put(drng, st_for(st, v), verb=verb, target=(tx, ty), size=(sw, sh))
                if outside:
                    must.add(ps)
                    stmts.append((k, ps))
        for kind, s in stmts:
            pos += 1
            mon.directed_pos = pos
            if pos <= skip:
                # re-establish the viewport only
                if kind == 'VIEW':
                    mon.check(kind, s, True)
                continue
            if mon.check(kind, s, True, must_reject=s in must) == 'break':
                _after_break(mon, drng)
                if v is not None:
                    mon.check(*stmts[0], outside=True)
        # the same viewport under a WINDOW, a few statements
        mon.set_window(drng, win=(-1, -1, 1, 1), screen=bool(vi % 2))
        for kind, s in [
            ('LINE', b'LINE(-2,-2)-(2,2),%d' % c), ('LINE-BF', b'LINE(-1.01,-1.01)-(1.01,1.01),%d,BF' % (1 % g.nattr)),
            ('CIRCLE', b'CIRCLE(0,0),1.2,%d' % c), ('CIRCLE', b'CIRCLE(1,1),0.5,%d,,,2' % c), ('PSET', b'PSET(1.004,-1.004),%d' % c),
            ('PAINT', b'PAINT(0,0),%d,%d' % (c, c)), ('LINE-B', b'LINE(-1.004,-1.004)-(1.004,1.004),%d,B' % c),
            ('PSET', b'PSET(30000,30000),%d' % c), ('LINE', b'LINE(-1E6,-1E6)-(1E6,1E6),%d' % c),
        ]:
            pos += 1
            mon.directed_pos = pos
            if pos <= skip:
                continue
            if mon.check(kind, s, True) == 'break':
                _after_break(mon, drng)


def probes(res, label):
    """
    Seed-independent host-exception probes, each in its own short session (an escaping host
    exception may leave the session inconsistent):
      * DRAW with a colour beyond a byte
      * active page switched by SCREEN while a VIEW is in force, then drawing on the new page
    """
    m = gfx.MODE_BY_LABEL[label]
    for name in ('draw-colour-300', 'page-switch-under-view', 'circle-pie-radius-1', 'paint-tile-zero-rows', 'mode-switch-keeps-pages'):
        if name == 'paint-tile-zero-rows' and label not in HANG_PROBE_MODES:
            continue
        try:
            with gfx.GBox(m, wait_budget=2500) as g:
                mon = Monitor(g, res, {})
                c = g.nattr - 1
                if name == 'draw-colour-300':
                    mon.check('DRAW', b'DRAW "C300 R5"', False)
                elif name == 'circle-pie-radius-1':
                    # pie-slice line whose end point the arc loop never reaches
                    for s in (b'CIRCLE(60,60),1,%d,-0.6,,1' % c, b'CIRCLE(60,60),1,%d,,-0.6,1' % c, b'CIRCLE(60,60),7,%d,-0.7,-2.4,1' % c):
                        mon.check('CIRCLE', s, False)
                elif name == 'mode-switch-keeps-pages':
                    # another MODE entered and left with a non-zero active page named in both SCREEN statements:
                    # drawing must then go to that page and to no other
                    if g.npages < 2:
                        continue
                    for other in mon.other_screens():
                        for (ap, vp) in ((1, 1), (1, 0), (g.npages - 1, g.npages - 1)):
                            if not mon.mode_round_trip(other, ap, vp):
                                continue
                            w2, h2 = g.w // 2, g.h // 2
                            for kind, s in [
                                ('PSET', b'PSET(%d,%d),%d' % (w2, h2, c)),
                                ('LINE', b'LINE(3,3)-(%d,%d),%d' % (g.w - 4, g.h - 4, c)),
                                ('LINE-BF', b'LINE(10,10)-(%d,%d),%d,BF' % (w2, h2, 1 % g.nattr or 1)),
                                ('CIRCLE', b'CIRCLE(%d,%d),30,%d' % (w2, h2, c)),
                                ('PAINT', b'PAINT(%d,%d),%d,%d' % (g.w - 6, 6, c, c)),
                                ('DRAW', b'DRAW "BM%d,%d C%d R40 D20 L40 U20"' % (w2 // 2, h2 // 2, c)),
                                gen_put(random.Random(7), mon.st, verb=b',PSET', target=(w2 + 5, 5), size=(16, 9))[:2],
                                ('VIEW', b'VIEW(%d,%d)-(%d,%d),%d,%d' % (w2 + 8, h2 + 8, g.w - 9, g.h - 9, c, c)),
                            ]:
                                mon.check(kind, s, False)
                elif name == 'paint-tile-zero-rows':
                    # tile with three all-zero rows in a box with an obstacle
                    g.direct(b'LINE(50,50)-(70,60),%d,B:PSET(60,54),%d' % (c, c))
                    mon.check('PAINT-TILE', b'PAINT(52,52),CHR$(255)+CHR$(0)+CHR$(0)+CHR$(0),%d' % c, False)
                elif g.npages > 1:
                    mon.check('VIEW', b'VIEW(10,10)-(%d,%d),1,%d' % (g.w // 2, g.h // 2, g.nattr - 1), False)
                    case = {'mode': label, 'stmts': ['VIEW(10,10)-(%d,%d)' % (g.w // 2, g.h // 2), 'SCREEN %d,,1,0' % m['screen']]}
                    try:
                        g.enter_mode(1, 0)
                    except harness.Internal as e:
                        res.violation(e.key, '%s: SCREEN %d,,1,0 while a VIEW is active: %s' % (label, m['screen'], e), case)
                        continue
                    res.count('page_switch_under_view')
                    # the viewport of the statement issued before the switch is still the harness's knowledge
                    for kind, s in [('LINE-BF', b'LINE(-5,-5)-(2000,2000),%d,BF' % (g.nattr - 1)),
                                    ('CIRCLE', b'CIRCLE(0,0),30,1'), ('PSET', b'PSET(-1,-1),1')]:
                        g.direct(b'VIEW(10,10)-(%d,%d)' % (g.w // 2, g.h // 2))
                        mon.snapshot = None
                        mon.check(kind, s, True)
        except gfx.Corrupt as e:
            res.violation('frame:page-buffer-corrupted:%s' % e.what, '%s: probe %s: %s' % (label, name, e), {'mode': label})
        except harness.Internal as e:
            if not getattr(e, 'reported', False):
                res.violation(e.key, '%s: host exception in a set-up statement of probe %s: %s' % (label, name, e), {'mode': label})


def st_for(st, v):
    """State as it will be once the directed VIEW has been executed (for building PUT lines ahead)."""
    s2 = State(st.g)
    s2.view = None if v is None else v[0] + (v[1],)
    return s2


# ---------------------------------------------------------------------------------------
# text modes

TEXT_STMTS = [
    ('PSET', b'PSET(%d,%d)'), ('PSET', b'PSET(%d,%d),1'), ('PRESET', b'PRESET(%d,%d)'), ('PSET', b'PSET STEP(%d,%d),2'),
    ('LINE', b'LINE(0,0)-(%d,%d)'), ('LINE', b'LINE-(%d,%d),1'), ('LINE-B', b'LINE(1,1)-(%d,%d),1,B'),
    ('LINE-BF', b'LINE(1,1)-(%d,%d),1,BF'), ('LINE', b'LINE(2,2)-(%d,%d),,,&HF0F0'),
    ('CIRCLE', b'CIRCLE(%d,%d),5'), ('CIRCLE', b'CIRCLE(%d,%d),20,1,-1,-2,0.5'),
    ('PAINT', b'PAINT(%d,%d)'), ('PAINT', b'PAINT(%d,%d),1,2'), ('PAINT-TILE', b'PAINT(%d,%d),CHR$(85)+CHR$(170)'),
    ('DRAW', b'DRAW "BM%d,%d U5R5D5L5"'), ('DRAW', b'A$="R9":DRAW "XA$;"'), ('DRAW', b'DRAW ""'),
    ('PUT', b'DIM A%%(40):A%%(0)=8:A%%(1)=2:PUT(%d,%d),A%%'), ('PUT', b'DIM A%%(40):A%%(0)=8:A%%(1)=2:PUT(%d,%d),A%%,PSET'),
    ('PUT', b'DIM A%%(40):A%%(0)=8:A%%(1)=2:PUT(%d,%d),A%%,XOR'), ('PUT', b'DIM A%%(40):A%%(0)=8:A%%(1)=2:PUT(%d,%d),A%%,OR'),
    ('PUT', b'DIM A%%(40):A%%(0)=8:A%%(1)=2:PUT(%d,%d),A%%,AND'), ('PUT', b'DIM A%%(40):A%%(0)=8:A%%(1)=2:PUT(%d,%d),A%%,PRESET'),
    ('VIEW', b'VIEW'), ('VIEW', b'VIEW(1,1)-(%d,%d)'), ('VIEW', b'VIEW SCREEN(1,1)-(%d,%d),1,2'), ('VIEW', b'VIEW(2,2)-(%d,%d),,1'),
]


def run_text(spec, rng, res):
    for name, kw in gfx.TEXT_ADAPTERS:
        for width in (40, 80):
            try:
                _text_session(spec, rng, res, name, kw, width)
            except gfx.Corrupt as e:
                res.violation('frame:page-buffer-corrupted:%s' % e.what, '%s width %d (text mode): %s' % (name, width, e),
                              {'adapter': name, 'width': width})


def _text_session(spec, rng, res, name, kw, width):
    if True:
        if True:
            with gfx.GBox(None, kw=kw) as g:
                box = g.box
                code = g.direct(b'SCREEN 0:WIDTH %d' % width)
                if code:
                    res.inconclusive('text mode set-up failed on %s width %d (error %d)' % (name, width, code))
                    return
                npages = len(g.display.pages)
                # put text on every page
                for p in range(npages):
                    g.direct(b'SCREEN 0,,%d,%d' % (p, p))
                    g.direct(b'COLOR %d,%d:LOCATE %d,3:PRINT "page %d of %s";:LOCATE 20,1:PRINT STRING$(30,%d);' % (
                        1 + p % 7, p % 3, 2 + p, p, name.encode(), 65 + p))
                res.count('text_sessions')
                res.maxc('max_text_pages', npages)
                table = list(TEXT_STMTS)
                extra = []
                for _ in range(spec['n']):
                    kind, tmpl = rng.choice(TEXT_STMTS)
                    extra.append((kind, tmpl))
                first = True
                for kind, tmpl in table + extra:
                    if first or rng.random() < 0.3:
                        ap = rng.randrange(npages)
                        vp = rng.randrange(npages)
                        if first:
                            ap = vp = 0
                        g.direct(b'SCREEN 0,,%d,%d' % (ap, vp))
                        g.apage, g.vpage = ap, vp
                    stmt = tmpl
                    if b'%d' in tmpl:
                        xy = (rng.choice([0, 1, 5, 40, 100, 319, 639, -1, 2000, 32767]), rng.choice([0, 1, 5, 24, 100, 199, -1, 2000])) \
                            if not first else (5, 5)
                        stmt = tmpl % xy
                    first = False
                    case = {'adapter': name, 'width': width, 'apage': g.apage, 'vpage': g.vpage, 'stmt': stmt}
                    pix0, ch0 = g.snap(), g.chars()
                    try:
                        code = g.trap(stmt)
                    except harness.Internal as e:
                        res.violation(e.key, '%s (text mode, %s): %s' % (stmt.decode('latin-1'), name, e), case)
                        break
                    res.case(('text', name, width, g.apage, g.vpage, stmt))
                    res.count('text_statements')
                    if code == 5:
                        res.count('text_ifc_seen')
                    else:
                        res.violation('text:no-illegal-function-call:' + kind,
                                      '%s width %d: %s gave error %d instead of 5' % (name, width, stmt.decode('latin-1'), code), case)
                        if code < 0:
                            break
                    pix1, ch1 = g.snap(), g.chars()
                    if pix0 != pix1 or ch0 != ch1:
                        what = 'pixels' if pix0 != pix1 else 'characters'
                        res.violation('text:screen-changed:' + kind,
                                      '%s width %d: %s changed %s' % (name, width, stmt.decode('latin-1'), what), case)
                    if g.apage != g.vpage:
                        res.count('text_active_ne_visible')
                res.sample({'kind': 'text', 'adapter': name, 'width': width, 'pages': npages, 'last_stmt': stmt, 'error': code})


def run_shard(spec, res):
    t0 = time.process_time()
    rng = random.Random('%s:C30:%s:%s' % (spec['seed'], spec['kind'], spec.get('part', 0)))
    if spec['kind'] == 'gfx':
        run_gfx(spec, rng, res)
    elif spec['kind'] == 'text':
        run_text(spec, rng, res)
    else:
        raise ValueError(spec['kind'])
    res.count('cpu_seconds', int(round(time.process_time() - t0)))
