"""
C38 Event traps fire only when enabled and never re-enter.

Oracle: the R-TRAP automaton (vf.models.c38_rtrap) is run on the same program and the same
schedule as the real interpreter; the printed handler entry/exit trace of the interpreter must
be one of the traces the automaton accepts. A schedule = for every event occurrence, the
statement boundary (EventQueues.check_events call) before which it is delivered (M-STEP).
Bounded-exhaustive over schedules for a fixed family of program shapes, plus seeded random
programs of the same family.
"""
import itertools
import random

from ..models import c38_rtrap as rt

POSITIONS = 14          # occurrences are placed before statement boundaries 1..14 or after the END
POST = rt.POST

META = {
    'property_id': 'C38',
    'technique': 'reference-automaton monitor (R-TRAP) over bounded-exhaustive delivery schedules replayed against the interpreter',
    'level': 'exploration',
    'level_text': (
        'Runtime oracle: for each program shape (main of tagged PRINTs with KEY(n)/TIMER/PEN/STRIG ON|OFF|STOP at chosen '
        'points, handlers printing enter/leave tags and optionally turning their event ON/OFF, raising a trapped '
        'error (resumed by RESUME NEXT, or by RESUME <line> outside the handler), ending in RETURN or RETURN <line>, calling a plain GOSUB level, re-executing their ON <event> GOSUB or ENDing; ON <event> GOSUB re-executed in the main part after ON / after STOP; optional ON ERROR handler with RESUME NEXT) and each schedule, the trace printed by the real '
        'interpreter must equal a trace accepted by the automaton written from the statement. All schedules up to the '
        'stated bound are enumerated; seeded random programs/schedules of the same family are added on top.'),
    'level_note': (
        'Session histories: 6 of every 7 runs under test (thorough: 6 of every 21) are preceded, in the same session, by a run of a prelude that ends '
        'inside the ON ERROR handler (END / second error / Ctrl+Break there), inside an event handler (END / Ctrl+Break with '
        'an occurrence remembered), or by STOP with the trap stopped and an occurrence remembered; the run under test is then '
        'started by RUN, CLEAR + RUN, or NEW + entering the program + RUN and must behave as in a fresh session. '
        'Trusted: the harness stepper (delivery before the n-th statement boundary, calibrated at run time), the '
        'virtual clock (a TIMER occurrence = the clock passing one full period at a boundary). Choice points where '
        'the statement pins nothing - every resolution accepted: order of handlers that fire at the same boundary; '
        'whether OFF '
        'discards an occurrence remembered during STOP; what a STOP issued while the trap is OFF remembers. Not '
        'generated: STOP on a trap that was never ON, STOP of a trap inside its own handler, two occurrences of the '
        'same event at the same boundary (indistinguishable from one under a remembered-flag reading), errors inside '
        'the error handler, CLEAR / RUN / STOP+CONT inside a handler (what they do to trap state is not in the statement), an ON in '
        'the main part after a handler was abandoned by RESUME <line>. An occurrence while the ON ERROR handler is active (trap ON or STOPped) is remembered and must be handled exactly once after RESUME, never inside the error handler. An occurrence while ON is expected to be handled at the boundary where it is delivered '
        '(pcbasic polls once per statement). COM traps need a serial device and PLAY traps a draining music queue: '
        'not exercised.'),
    'rule': ('case = (program shape, event kinds, schedule); distinct by that triple; non-trivial = at least one occurrence '
             'is delivered (the empty schedule is the sanity case)'),
    'design_ref': 'DESIGN.md section 4 C38',
    'assumptions': ['events reach the engine only at EventQueues.check_events (one per statement)',
                    'one program statement per line, so boundary k+1 of RUN precedes the k-th executed statement'],
    'exhaustive': {
        'quick': ('for each of the 38 quick program shapes of shape_list() (35 single-trap (main, handler) combinations over KEY/TIMER/PEN/STRIG, '
                  '3 two-trap shapes; 33738 schedules): ALL placements of at most 3 '
                  'occurrences over (trap, position) slots, position = before statement boundary 1..14 or after END, no two '
                  'occurrences of one trap at one position'),
        'thorough': ('for every (main, handler) combination of the single-trap family (12 mains x 13 handlers, less 7 excluded errout pairs) with 2 event kinds each, the 6 two-trap shapes '
                     'and the 2 three-trap shapes (306 shapes, 1098446 schedules): ALL placements of at most 4 occurrences over (trap, position) slots, position = '
                     'before statement boundary 1..14 or after END, no two occurrences of one trap at one position'),
    },
    'require_counters': {'any': ['handler_entries_observed', 'occurrences_lost_while_off', 'occurrences_remembered_during_stop',
                                 'entries_after_stop_then_on', 'occurrences_remembered_while_handler_runs',
                                 'occurrences_during_error_handler', 'reentries_after_on_inside_handler',
                                 'occurrences_after_program_end', 'simultaneous_firings',
                                 'on_event_gosub_reexecuted_while_stopped_pending_or_in_handler',
                                 'entries_after_handler_left_by_return_line', 'plain_gosub_levels_inside_handler',
                                 'runs_preceded_by_errh_end', 'runs_preceded_by_errh_error', 'runs_preceded_by_errh_break',
                                 'runs_preceded_by_handler_end', 'runs_preceded_by_handler_break', 'runs_preceded_by_stop_pending',
                                 'runs_after_clear', 'entries_after_resume_for_occurrence_during_error_handler',
                                 'handlers_abandoned_by_resume_line']},
    'timeout': {'quick': 900, 'thorough': 10800},
}

# ---------------------------------------------------------------------------------------
# program family

def T(x):
    return ['tag', x]


def main_tags(body):
    """Replace 't' placeholders by distinct two-character tags a. b. c. ..."""
    out = []
    i = 0
    for st in body:
        if st == 't':
            out.append(T(chr(97 + i) + '.'))
            i += 1
        else:
            out.append(st)
    return out


def ctl(n, c):
    return ['ctl', n, c]


ERR = ['err']

MAINS = {
    # name: (lambda trap-name -> body, needs error handler)
    'plain': (lambda x: [ctl(x, 'ON'), 't', 't', 't', 't', 't', 't'], False),
    'offon': (lambda x: ['t', ctl(x, 'ON'), 't', ctl(x, 'OFF'), 't', 't', ctl(x, 'ON'), 't'], False),
    'stopon': (lambda x: [ctl(x, 'ON'), 't', ctl(x, 'STOP'), 't', 't', ctl(x, 'ON'), 't', 't'], False),
    'stopoffon': (lambda x: [ctl(x, 'ON'), ctl(x, 'STOP'), 't', ctl(x, 'OFF'), 't', ctl(x, 'ON'), 't', 't'], False),
    'err': (lambda x: [ctl(x, 'ON'), 't', ERR, 't', 't'], True),
    'stoperr': (lambda x: [ctl(x, 'ON'), ctl(x, 'STOP'), 't', ERR, ctl(x, 'ON'), 't', 't'], True),
    'early': (lambda x: ['t', ctl(x, 'ON'), 't', 't'], False),
    'onoff': (lambda x: [ctl(x, 'ON'), 't', 't', ctl(x, 'OFF'), 't', 't', 't'], False),
    'flip': (lambda x: [ctl(x, 'ON'), ctl(x, 'STOP'), 't', ctl(x, 'ON'), ctl(x, 'STOP'), 't', ctl(x, 'ON'), 't'], False),
    'never': (lambda x: ['t', 't', 't', 't'], False),
    # ON <event> GOSUB executed again (same line): after ON, and after STOP
    'redef_on': (lambda x: [ctl(x, 'ON'), 't', ['redef', x], 't', 't', 't'], False),
    'redef_stop': (lambda x: [ctl(x, 'ON'), 't', ctl(x, 'STOP'), ['redef', x], 't', 't', ctl(x, 'ON'), 't'], False),
}

HANDLERS = {
    'h0': (lambda x: [T(x + '<'), T(x + '>'), ['ret']], False),
    'on': (lambda x: [T(x + '<'), ctl(x, 'ON'), T(x + '>'), ['ret']], False),
    'off': (lambda x: [T(x + '<'), ctl(x, 'OFF'), T(x + '>'), ['ret']], False),
    'err': (lambda x: [T(x + '<'), ERR, T(x + '>'), ['ret']], True),
    'min': (lambda x: [T(x + '<'), ['ret']], False),
    'offon': (lambda x: [T(x + '<'), ctl(x, 'OFF'), ctl(x, 'ON'), T(x + '>'), ['ret']], False),
    'end': (lambda x: [T(x + '<'), ['end']], False),
    'long': (lambda x: [T(x + '<'), T(x.lower() + '1'), T(x.lower() + '2'), T(x + '>'), ['ret']], False),
    # the handler re-executes its own ON <event> GOSUB: that is not turning the event back ON
    'redef': (lambda x: [T(x + '<'), ['redef', x], T(x.lower() + '1'), T(x + '>'), ['ret']], False),
    # other ways a handler ends or is left
    'retline': (lambda x: [T(x + '<'), T(x + '>'), ['retto', 'TAG3']], False),           # RETURN <line>
    'retline_min': (lambda x: [T(x + '<'), ['retto', 'TAG2']], False),
    'gosub': (lambda x: [T(x + '<'), ['gosub'], T(x + '>'), ['ret']], False),              # a plain GOSUB level inside
    'errout': (lambda x: [T(x + '<'), ERR, T(x + '>'), ['ret']], 'out'),                  # error, RESUME <line> outside
}

ERRH = [T('E<'), T('E>'), ['resume']]
# error handler that leaves through RESUME <line> (a main line): an event handler in which the error happened is
# thereby left without RETURN
ERRH_OUT = [T('E<'), ['resumeto', 'TAG3']]
SUB = [T('s1'), ['ret']]

# event kinds: name letter, kind, argument
KINDS = {
    'K': {'name': 'K', 'kind': 'key', 'arg': 1},
    'L': {'name': 'L', 'kind': 'key', 'arg': 2},
    'U': {'name': 'U', 'kind': 'key', 'arg': 11},
    'T': {'name': 'T', 'kind': 'timer', 'arg': 1},
    'P': {'name': 'P', 'kind': 'pen', 'arg': 0},
    'S': {'name': 'S', 'kind': 'strig', 'arg': 0},
    'R': {'name': 'R', 'kind': 'strig', 'arg': 6},
}
KIND_CYCLE = ['K', 'T', 'P', 'S', 'U', 'R', 'L']


def single_shape(mname, hname, kind):
    mf, me = MAINS[mname]
    hf, he = HANDLERS[hname]
    return {'id': '1:%s/%s/%s' % (mname, hname, kind),
            'traps': [KINDS[kind]],
            'main': main_tags(mf(kind)),
            'handlers': {kind: hf(kind)},
            'sub': SUB if hname == 'gosub' else None,
            'errh': ERRH_OUT if he == 'out' else (ERRH if (me or he) else None)}


def multi_shapes():
    """Two- and three-trap shapes. Returns {name: function(kinds) -> prog}."""
    def two_a(a, b):
        return {'main': main_tags([ctl(a, 'ON'), ctl(b, 'ON'), 't', 't', 't', 't', 't']),
                'handlers': {a: HANDLERS['h0'][0](a), b: HANDLERS['h0'][0](b)}, 'errh': None}

    def two_b(a, b):
        return {'main': main_tags([ctl(a, 'ON'), 't', ctl(b, 'ON'), ctl(a, 'STOP'), 't', ctl(a, 'ON'), 't', ctl(b, 'OFF'), 't']),
                'handlers': {a: HANDLERS['h0'][0](a), b: HANDLERS['on'][0](b)}, 'errh': None}

    def two_c(a, b):
        return {'main': main_tags([ctl(a, 'ON'), ctl(b, 'ON'), 't', ERR, 't', ctl(b, 'STOP'), 't', ctl(b, 'ON'), 't']),
                'handlers': {a: HANDLERS['err'][0](a), b: HANDLERS['min'][0](b)}, 'errh': ERRH}

    def two_d(a, b):
        return {'main': main_tags([ctl(a, 'ON'), ctl(b, 'ON'), ctl(a, 'STOP'), ctl(b, 'STOP'), 't', ctl(a, 'ON'), ctl(b, 'ON'), 't', 't']),
                'handlers': {a: HANDLERS['long'][0](a), b: HANDLERS['off'][0](b)}, 'errh': None}

    def two_e(a, b):
        return {'main': main_tags([ctl(a, 'ON'), 't', ctl(b, 'ON'), 't', ctl(a, 'OFF'), 't', ctl(a, 'ON'), 't']),
                'handlers': {a: HANDLERS['offon'][0](a), b: HANDLERS['end'][0](b)}, 'errh': None}

    def two_f(a, b):
        return {'main': main_tags([ctl(a, 'ON'), ctl(b, 'ON'), 't', 't', ERR, 't', 't']),
                'handlers': {a: HANDLERS['on'][0](a), b: HANDLERS['h0'][0](b)}, 'errh': ERRH}

    def three_a(a, b, c):
        return {'main': main_tags([ctl(a, 'ON'), ctl(b, 'ON'), ctl(c, 'ON'), 't', 't', 't', 't']),
                'handlers': {a: HANDLERS['h0'][0](a), b: HANDLERS['min'][0](b), c: HANDLERS['h0'][0](c)}, 'errh': None}

    def three_b(a, b, c):
        return {'main': main_tags([ctl(a, 'ON'), ctl(b, 'ON'), 't', ctl(a, 'STOP'), ctl(c, 'ON'), ERR, ctl(a, 'ON'), 't', ctl(b, 'OFF'), 't']),
                'handlers': {a: HANDLERS['h0'][0](a), b: HANDLERS['on'][0](b), c: HANDLERS['min'][0](c)}, 'errh': ERRH}

    return {'2a': two_a, '2b': two_b, '2c': two_c, '2d': two_d, '2e': two_e, '2f': two_f, '3a': three_a, '3b': three_b}


def multi_shape(name, kinds):
    p = multi_shapes()[name](*kinds)
    p['id'] = '%s/%s' % (name, ''.join(kinds))
    p['traps'] = [KINDS[k] for k in kinds]
    return p


def shape_list(tier):
    """The fixed (seed-independent) list of (shape, max occurrences)."""
    shapes = []
    if tier == 'quick':
        combos = [('plain', 'h0'), ('plain', 'on'), ('plain', 'off'), ('plain', 'long'), ('offon', 'h0'), ('offon', 'min'),
                  ('stopon', 'h0'), ('stopon', 'on'), ('stopoffon', 'h0'), ('err', 'h0'), ('err', 'err'), ('stoperr', 'h0'),
                  ('early', 'h0'), ('early', 'end'), ('onoff', 'offon'), ('flip', 'h0'), ('flip', 'min'), ('never', 'h0'),
                  ('plain', 'err'), ('stopon', 'off'), ('onoff', 'h0'), ('plain', 'end'), ('stoperr', 'on'), ('offon', 'long'),
                  ('redef_on', 'h0'), ('redef_stop', 'h0'), ('plain', 'redef'), ('stopon', 'redef'), ('redef_stop', 'redef'),
                  ('plain', 'retline'), ('stopon', 'retline'), ('offon', 'retline_min'), ('plain', 'gosub'), ('plain', 'errout'),
                  ('flip', 'retline')]
        for i, (m, h) in enumerate(combos):
            shapes.append((single_shape(m, h, KIND_CYCLE[i % 4]), 3))
        shapes.append((multi_shape('2a', ['K', 'T']), 3))
        shapes.append((multi_shape('2b', ['P', 'S']), 3))
        shapes.append((multi_shape('2c', ['K', 'P']), 3))
    else:
        i = 0
        for m in sorted(MAINS):
            for h in sorted(HANDLERS):
                if h == 'errout' and m not in ('plain', 'early', 'onoff', 'never', 'redef_on'):
                    # no ON in the main part after a handler may have been abandoned by RESUME <line> (not pinned); and no
                    # ERROR in the main part: RESUME <line> goes back to a line before it, the program would never end
                    i += 1
                    continue
                for j in range(2):
                    shapes.append((single_shape(m, h, KIND_CYCLE[(i + 3 * j) % len(KIND_CYCLE)]), 4))
                i += 1
        two = [('2a', ['K', 'T']), ('2b', ['P', 'S']), ('2c', ['K', 'P']), ('2d', ['T', 'S']), ('2e', ['U', 'R']), ('2f', ['K', 'L'])]
        for n, k in two:
            shapes.append((multi_shape(n, k), 4))
        shapes.append((multi_shape('3a', ['K', 'T', 'P']), 4))
        shapes.append((multi_shape('3b', ['S', 'K', 'T']), 4))
    # by construction every shape ends without events (a shape that loops in the reference semantics is not a test)
    return [(p, k) for p, k in shapes if terminates(p)]


def terminates(prog):
    try:
        rt.simulate(prog, {}, rt.Chooser())
        return True
    except RuntimeError:
        return False


def slots_of(prog):
    pos = list(range(1, POSITIONS + 1)) + [POST]
    return [(t['name'], p) for t in prog['traps'] for p in pos]


def n_schedules(prog, kmax):
    n = len(slots_of(prog))
    tot, c = 0, 1
    for k in range(kmax + 1):
        tot += c
        c = c * (n - k) // (k + 1)
    return tot


def schedules(prog, kmax, start, stop):
    """Schedules number start..stop-1 of the enumeration (combinations of slots, size 0..kmax)."""
    sl = slots_of(prog)
    it = itertools.chain.from_iterable(itertools.combinations(sl, k) for k in range(kmax + 1))
    return itertools.islice(it, start, stop)


def to_sched(combo):
    s = {}
    for n, p in combo:
        s.setdefault(p, []).append(n)
    return s


# ---------------------------------------------------------------------------------------
# BASIC text of a program

KEY_SIGNAL = {1: (u'\0;', 'F1'), 2: (u'\0<', 'F2'), 11: (u'\0H', 'UP')}


def to_basic(prog):
    stmts, starts, estart, _ = rt.flatten(prog)
    trap = dict((t['name'], t) for t in prog['traps'])

    def line_of(i):
        return 10 * (i + 1)

    def ev(t):
        if t['kind'] == 'key':
            return b'KEY(%d)' % t['arg']
        if t['kind'] == 'timer':
            return b'TIMER'
        if t['kind'] == 'pen':
            return b'PEN'
        return b'STRIG(%d)' % t['arg']

    out = []
    for i, st in enumerate(stmts):
        op = st[0]
        if op in ('def', 'redef'):
            if st[1] == 'E':
                text = b'ON ERROR GOTO %d' % line_of(estart)
            else:
                t = trap[st[1]]
                if t['kind'] == 'timer':
                    text = b'ON TIMER(%d) GOSUB %d' % (t['arg'], line_of(starts[st[1]]))
                else:
                    text = b'ON %s GOSUB %d' % (ev(t), line_of(starts[st[1]]))
        elif op == 'tag':
            text = b'PRINT "%s";' % st[1].encode('ascii')
        elif op == 'ctl':
            text = b'%s %s' % (ev(trap[st[1]]), st[2].encode('ascii'))
        elif op == 'err':
            text = b'ERROR 77'
        elif op == 'ret':
            text = b'RETURN'
        elif op == 'retto':
            text = b'RETURN %d' % line_of(st[2])
        elif op == 'gosub':
            text = b'GOSUB %d' % line_of(st[1])
        elif op == 'resumeto':
            text = b'RESUME %d' % line_of(st[2])
        elif op == 'resume':
            text = b'RESUME NEXT'
        elif op == 'end':
            text = b'END'
        else:
            raise ValueError(st)
        out.append(b'%d %s' % (line_of(i), text))
    return out


# ---------------------------------------------------------------------------------------
# preludes: a run that ends in an unusual state, executed in the same session BEFORE the run under test. The run
# under test starts with RUN (optionally after CLEAR, or NEW + entering the program again), so its trap behaviour
# must be that of a fresh session.

PRELUDE_BASE = 50000
PRELUDES = ['none', 'errh-end', 'errh-error', 'errh-break', 'handler-end', 'handler-break', 'stop-pending']


def _ev_text(t):
    if t['kind'] == 'key':
        return b'KEY(%d)' % t['arg']
    if t['kind'] == 'timer':
        return b'TIMER'
    if t['kind'] == 'pen':
        return b'PEN'
    return b'STRIG(%d)' % t['arg']


def _on_gosub(t, line):
    if t['kind'] == 'timer':
        return b'ON TIMER(%d) GOSUB %d' % (t['arg'], line)
    return b'ON %s GOSUB %d' % (_ev_text(t), line)


def prelude_lines(prog):
    """Program text of the six preludes (lines 51000..56999), written for the first trap of the program."""
    t = prog['traps'][0]
    ev = _ev_text(t)
    out = []
    for k in range(1, 7):
        L = PRELUDE_BASE + 1000 * k
        if k in (1, 2, 3):
            body = [b'ON ERROR GOTO %d' % (L + 100), _on_gosub(t, L + 200), ev + b' ON', b'PRINT "p";', b'ERROR 77', b'END']
            errh = [b'PRINT "e";'] + {1: [b'END'], 2: [b'ERROR 78'], 3: [b'PRINT "w";', b'END']}[k]
            hand = [b'RETURN']
        elif k in (4, 5):
            body = [_on_gosub(t, L + 200), ev + b' ON', b'PRINT "p";', b'PRINT "q";', b'END']
            errh = []
            hand = [b'PRINT "h";', b'END'] if k == 4 else [b'PRINT "h";', b'PRINT "i";', b'RETURN']
        else:
            body = [_on_gosub(t, L + 200), ev + b' ON', ev + b' STOP', b'PRINT "p";', b'STOP', b'END']
            errh = []
            hand = [b'RETURN']
        for i, tx in enumerate(body):
            out.append(b'%d %s' % (L + 10 * i, tx))
        for i, tx in enumerate(errh):
            out.append(b'%d %s' % (L + 100 + 10 * i, tx))
        for i, tx in enumerate(hand):
            out.append(b'%d %s' % (L + 200 + 10 * i, tx))
    return out


# what arrives before which boundary of the prelude run (boundary 1 = the RUN <line> statement): 'occ' = an occurrence
# of the first trap's event, 'break' = Ctrl+Break
PRELUDE_EVENTS = {1: {7: ['occ']}, 2: {7: ['occ']}, 3: {7: ['occ'], 8: ['break']}, 4: {5: ['occ']},
                  5: {5: ['occ'], 6: ['occ', 'break']}, 6: {5: ['occ']}}


# ---------------------------------------------------------------------------------------
# running against the interpreter

class Rig(object):

    def __init__(self, res):
        from .. import harness
        self.h = harness
        self.res = res
        self.box = None
        self.prog = None

    def close(self):
        if self.box is not None:
            self.box.close()
            self.box = None

    def load(self, prog):
        self.close()
        self.box = self.h.Box(budget=400)
        self.prog = prog
        self.trap = dict((t['name'], t) for t in prog['traps'])
        self.lines = to_basic(prog)
        self.all_lines = self.lines + prelude_lines(prog)
        out = self.box.enter(self.all_lines)
        if out.strip():
            raise RuntimeError('program not accepted: %r' % out)

    def prelude(self, k, between):
        """Run prelude k (1..6) in this session, then prepare the next RUN: 'run' nothing, 'clear' CLEAR, 'new' NEW + re-enter."""
        h, box = self.h, self.box
        st = box.stepper
        first = self.prog['traps'][0]['name']
        st.schedule = {}
        ticks = {}
        for b, what in PRELUDE_EVENTS[k].items():
            for w in what:
                if w == 'break':
                    st.schedule.setdefault(b, []).append(h.key_event(u'', h.scancode.BREAK, [h.scancode.CTRL]))
                else:
                    sg = self.signal(first)
                    if sg is None:
                        ticks[b] = self.trap[first]['arg']
                    else:
                        # the occurrence goes in front of a Break scheduled at the same boundary
                        st.schedule.setdefault(b, []).insert(0, sg)
        clock = box.clock
        st.on_boundary_cb = (lambda n, q: clock.advance(ticks[n]) if n in ticks else None) if ticks else None
        out = box.ex(b'RUN %d' % (PRELUDE_BASE + 1000 * k))
        st.on_boundary_cb = None
        st.schedule = {}
        if between == 'clear':
            box.ex(b'CLEAR')
        elif between == 'new':
            box.ex(b'NEW')
            o2 = box.enter(self.all_lines)
            if o2.strip():
                raise RuntimeError('program not accepted: %r' % o2)
        return out

    def signal(self, name):
        h = self.h
        t = self.trap[name]
        if t['kind'] == 'key':
            c, scn = KEY_SIGNAL[t['arg']]
            return h.key_event(c, getattr(h.scancode, scn))
        if t['kind'] == 'pen':
            return h.signals.Event(h.signals.PEN_DOWN, (10, 10))
        if t['kind'] == 'strig':
            return h.signals.Event(h.signals.STICK_DOWN, (t['arg'] // 4, (t['arg'] // 2) % 2))
        return None     # timer: the clock

    def run(self, sched):
        """Returns (tokens, raw output)."""
        h, box = self.h, self.box
        st = box.stepper
        st.schedule = {}
        ticks = {}
        for b, names in sched.items():
            if b == POST:
                continue
            for n in names:
                sg = self.signal(n)
                if sg is None:
                    ticks[b + 1] = self.trap[n]['arg']
                else:
                    st.schedule.setdefault(b + 1, []).append(sg)     # boundary 1 is the RUN statement itself
        if ticks:
            clock = box.clock
            st.on_boundary_cb = lambda n, q: clock.advance(ticks[n]) if n in ticks else None
        else:
            st.on_boundary_cb = None
        out = box.ex(b'RUN')
        if st.break_hit:
            out += b'!!'        # step budget exhausted: shows up as a foreign token
        st.on_boundary_cb = None
        st.schedule = {}
        # after the END: occurrences in direct mode, then a direct statement
        q = box.impl.queues.inputs
        for n in sched.get(POST, ()):
            sg = self.signal(n)
            if sg is None:
                box.clock.advance(self.trap[n]['arg'])
            else:
                q.put(sg)
        out2 = box.ex(b'PRINT "zz";')
        return self.tokens(out) + self.tokens(out2), out + b'|' + out2

    def tokens(self, out):
        code, line = self.h.err_of(out)
        text = out.replace(b'\r\n', b'')
        if code:
            body = out.split(b'\r\n')
            # everything before the error line
            text = b''.join(l for l in body if not l.endswith(b'\xff'))
        toks = [text[i:i + 2].decode('latin-1') for i in range(0, len(text), 2)]
        if code:
            toks.append('!%d' % code)
        return toks


def _calibrate(rig, res):
    """An F1 delivered before boundary b (model numbering) must be seen by the b-th executed statement."""
    prog = single_shape('plain', 'h0', 'K')
    rig.load(prog)
    toks, raw = rig.run({3: ['K']})
    # statements: def, ON, a. ... -> the occurrence before statement 3 (PRINT "a.") enters the handler first
    if toks[:4] != ['K<', 'K>', 'a.', 'b.']:
        res.inconclusive('statement-boundary calibration failed: %r' % (raw,))
        return False
    toks, raw = rig.run({})
    if toks != ['a.', 'b.', 'c.', 'd.', 'e.', 'f.', 'zz']:
        res.inconclusive('event-free calibration run failed: %r' % (raw,))
        return False
    return True


STAT_COUNTERS = [
    ('lost_off', 'occurrences_lost_while_off'),
    ('remembered_stop', 'occurrences_remembered_during_stop'),
    ('entries_after_stop_on', 'entries_after_stop_then_on'),
    ('remembered_in_handler', 'occurrences_remembered_while_handler_runs'),
    ('during_error', 'occurrences_during_error_handler'),
    ('reentry_after_on', 'reentries_after_on_inside_handler'),
    ('simultaneous', 'simultaneous_firings'),
    ('after_end', 'occurrences_after_program_end'),
    ('pending_at_off', 'remembered_occurrence_at_off_unpinned'),
    ('unpinned_stop_while_off', 'occurrences_during_stop_while_off_unpinned'),
    ('coalesced', 'occurrences_coalesced_into_one_remembered'),
    ('handlers_left_by_return_line', 'handlers_left_by_return_line'),
    ('entries_after_return_line', 'entries_after_handler_left_by_return_line'),
    ('plain_gosub_levels_inside_handler', 'plain_gosub_levels_inside_handler'),
    ('handlers_abandoned_by_resume_line', 'handlers_abandoned_by_resume_line'),
    ('entries_after_resume', 'entries_after_resume_for_occurrence_during_error_handler'),
    ('redefinitions', 'on_event_gosub_reexecuted'),
    ('redefinitions_in_nontrivial_state', 'on_event_gosub_reexecuted_while_stopped_pending_or_in_handler'),
]


def check_one(rig, res, prog, sched, origin, prelude=0, between='run'):
    """One schedule. Returns True if the interpreter's trace is accepted."""
    h = rig.h
    case = {'shape': prog['id'], 'program': [l.decode('latin-1') for l in rig.lines],
            'schedule': sorted([b, n] for b, n in sched.items()), 'origin': origin,
            'preceded_by': PRELUDES[prelude], 'then': between}
    try:
        results = rt.all_traces(prog, sched)
    except RuntimeError as e:
        # the reference program does not end under this schedule (step bound of the model): nothing to compare
        res.count('schedules_skipped_model_step_bound')
        res.inconclusive('model step bound reached: shape %s schedule %r (%s)' % (prog['id'], case['schedule'], e))
        return None
    try:
        if prelude:
            pout = rig.prelude(prelude, between)
            case['prelude_output'] = pout
            res.count('runs_preceded_by_' + PRELUDES[prelude].replace('-', '_'))
            if between != 'run':
                res.count('runs_after_' + between)
        toks, raw = rig.run(sched)
    except h.Internal as e:
        res.violation(e.key, str(e), case)
        rig.load(prog)
        return False
    nocc = sum(len(v) for v in sched.values())
    res.case((prog['id'], tuple(sorted((b, tuple(n)) for b, n in sched.items()))), nontrivial=nocc > 0)
    names = [t['name'] for t in prog['traps']]
    entries = sum(1 for t in toks if len(t) == 2 and t[1] == '<' and t[0] in names)
    if entries:
        res.count('handler_entries_observed', entries)
    res.count('occurrences_delivered', nocc)
    if len(results) > 1:
        res.count('schedules_with_unpinned_choice')
    match = None
    for r in results:
        if r['trace'] == toks:
            match = r
            break
    if match is not None:
        for a, b in STAT_COUNTERS:
            if match['stats'][a]:
                res.count(b, match['stats'][a])
        res.maxc('max_nested_handler_depth', match['stats']['nested_depth'])
        return True
    suffix, text = rt.diagnose(prog, results, toks)
    kinds = '+'.join(sorted(set(t['kind'] for t in prog['traps'])))
    if prelude:
        # is it the history? the same schedule right after loading the program into a fresh session
        rig.load(prog)
        toks2, _ = rig.run(sched)
        if any(r['trace'] == toks2 for r in results):
            suffix = 'state-survives-run:after-' + PRELUDES[prelude] + ':' + suffix
            text = ('in a fresh session the trace is accepted, but not when a run that ended by %s came before (then: %s): %s'
                    % (PRELUDES[prelude], between, text))
    res.violation('trap:' + suffix,
                  '%s. shape %s (%s), schedule %r: interpreter printed %s; accepted: %s' % (
                      text, prog['id'], kinds, case['schedule'], ' '.join(toks),
                      ' | '.join(' '.join(r['trace']) for r in results[:4])),
                  case)
    return False


# ---------------------------------------------------------------------------------------
# seeded random programs of the same family

def gen_program(rng, idx):
    ntr = rng.choice([1, 1, 2, 2, 3])
    pool = ['K', 'L', 'U', 'T', 'P', 'S', 'R']
    kinds = []
    while len(kinds) < ntr:
        k = rng.choice(pool)
        if k not in kinds:
            kinds.append(k)
    use_err = rng.random() < 0.45
    body = []
    mode = dict((k, 'off') for k in kinds)
    nstat = rng.randint(6, 11)
    nerr = 0
    for _ in range(nstat):
        r = rng.random()
        if r < 0.45:
            body.append('t')
        elif r < 0.52 and use_err and nerr < 2:
            body.append(ERR)
            nerr += 1
        elif r < 0.58:
            body.append(['redef', rng.choice(kinds)])
        else:
            k = rng.choice(kinds)
            # STOP only while statically ON (a handler may still have turned the event OFF: the model copes)
            opts = ['ON', 'ON', 'OFF'] + (['STOP', 'STOP'] if mode[k] == 'on' else [])
            c = rng.choice(opts)
            mode[k] = {'ON': 'on', 'OFF': 'off', 'STOP': 'stopped'}[c]
            body.append(ctl(k, c))
    if not any(isinstance(s, list) and s[0] == 'ctl' and s[2] == 'ON' for s in body):
        body.insert(0, ctl(kinds[0], 'ON'))
    handlers = {}
    hnames = []
    for k in kinds:
        opts = ['h0', 'h0', 'on', 'off', 'min', 'offon', 'long', 'redef', 'retline', 'retline_min', 'gosub', 'end'] + (['err'] if use_err else [])
        hn = rng.choice(opts)
        if hn == 'end' and rng.random() < 0.7:
            hn = 'h0'
        hnames.append(hn)
        handlers[k] = HANDLERS[hn][0](k)
    return {'id': 'r%d:%s/%s' % (idx, ''.join(kinds), ','.join(hnames)), 'traps': [KINDS[k] for k in kinds],
            'main': main_tags(body), 'handlers': handlers, 'sub': SUB if 'gosub' in hnames else None,
            'errh': ERRH if use_err else None}


def gen_schedule(rng, prog, nb):
    names = [t['name'] for t in prog['traps']]
    sched = {}
    for _ in range(rng.randint(1, 6)):
        n = rng.choice(names)
        p = POST if rng.random() < 0.07 else rng.randint(1, nb + 4)
        if n not in sched.setdefault(p, []):
            sched[p].append(n)
    return sched


# ---------------------------------------------------------------------------------------

CHUNK = {'quick': 600, 'thorough': 4000}
NSHARDS = {'quick': 12, 'thorough': 48}


def jobs(tier):
    """Seed-independent list of (shape index, start, stop) chunks of the exhaustive space."""
    out = []
    for si, (prog, kmax) in enumerate(shape_list(tier)):
        n = n_schedules(prog, kmax)
        for a in range(0, n, CHUNK[tier]):
            out.append((si, a, min(n, a + CHUNK[tier])))
    return out


def plan(tier, seed):
    n = NSHARDS[tier]
    shards = [{'kind': 'exh', 'part': i, 'parts': n, 'nrand': 60 if tier == 'quick' else 1500} for i in range(n)]
    return shards


def directed(rig, res):
    """Seed-independent named scenarios, one per clause of the statement (run by every shard 0)."""
    D = []
    P = single_shape
    D.append(('on-fires', P('plain', 'h0', 'K'), {4: ['K']}))
    D.append(('off-lost', P('offon', 'h0', 'K'), {2: ['K'], 6: ['K']}))
    D.append(('stop-remembered-once', P('stopon', 'h0', 'K'), {5: ['K'], 6: ['K']}))
    D.append(('no-reentry', P('plain', 'long', 'K'), {3: ['K'], 4: ['K'], 5: ['K']}))
    D.append(('reentry-after-on-inside', P('plain', 'on', 'K'), {3: ['K'], 5: ['K']}))
    D.append(('not-in-error-handler', P('err', 'h0', 'K'), {6: ['K']}))
    for kd in ('K', 'P', 'S', 'T', 'U'):
        # an occurrence before every statement of the error handler (E< / E> / RESUME NEXT): handled once after RESUME
        for bnd in (6, 7, 8):
            D.append(('in-error-handler-%s@%d' % (kd, bnd), P('err', 'h0', kd), {bnd: [kd]}))
        D.append(('in-error-handler-%s-twice' % kd, P('err', 'h0', kd), {6: [kd], 8: [kd]}))
        D.append(('in-error-handler-while-stopped-%s' % kd, P('stoperr', 'h0', kd), {7: [kd]}))
    D.append(('not-after-end', P('early', 'h0', 'K'), {POST: ['K']}))
    D.append(('timer', P('plain', 'h0', 'T'), {4: ['T'], 5: ['T']}))
    D.append(('timer-off-lost', P('offon', 'h0', 'T'), {6: ['T']}))
    D.append(('pen', P('stopon', 'h0', 'P'), {5: ['P']}))
    D.append(('strig', P('plain', 'off', 'S'), {3: ['S'], 7: ['S']}))
    D.append(('redef-in-handler-no-reentry', P('plain', 'redef', 'K'), {3: ['K'], 5: ['K']}))
    D.append(('redef-after-stop-stays-stopped', P('redef_stop', 'h0', 'K'), {7: ['K']}))
    D.append(('redef-keeps-remembered-occurrence', P('redef_stop', 'h0', 'S'), {5: ['S']}))
    D.append(('return-line-reenables', P('plain', 'retline', 'K'), {3: ['K'], 7: ['K']}))
    D.append(('return-line-reenables-pen', P('plain', 'retline_min', 'P'), {4: ['P'], 5: ['P'], 8: ['P']}))
    D.append(('gosub-level-does-not-reenable', P('plain', 'gosub', 'S'), {3: ['S'], 5: ['S'], 9: ['S']}))
    D.append(('resume-line-leaves-handler-blocked', P('plain', 'errout', 'K'), {3: ['K'], 8: ['K']}))
    D.append(('two-simultaneous', multi_shape('2a', ['K', 'T']), {5: ['K', 'T']}))
    for tag, prog, sched in D:
        rig.load(prog)
        ok = check_one(rig, res, prog, sched, 'directed:' + tag)
        res.count('directed_scenarios')
        if not ok:
            res.count('directed_scenarios_refuted')


def run_shard(spec, res):
    rig = Rig(res)
    try:
        if not _calibrate(rig, res):
            return
        tier = spec['tier']
        if spec['part'] == 0:
            directed(rig, res)
        shapes = shape_list(tier)
        mine = jobs(tier)[spec['part']::spec['parts']]
        cur = None
        for si, a, b in mine:
            prog, kmax = shapes[si]
            if cur != si:
                rig.load(prog)
                cur = si
                res.sample({'shape': prog['id'], 'program': [l.decode('latin-1') for l in rig.lines], 'schedules': [a, b]})
            for j, combo in enumerate(schedules(prog, kmax, a, b)):
                # the run under test follows, in the same session, a run that ended in one of the PRELUDES states
                # (quick: 6 of every 7 runs; thorough: 6 of every 21, to stay inside the CPU budget)
                pk = (a + j) % (len(PRELUDES) * (1 if tier == 'quick' else 3))
                check_one(rig, res, prog, to_sched(combo), 'exhaustive', prelude=pk if pk < len(PRELUDES) else 0,
                          between='clear' if (a + j) % 5 == 4 else 'run')
            res.count('exhaustive_schedules', b - a)
        res.count('exhaustive_chunks', len(mine))
        # seeded random programs and schedules of the same family
        rng = random.Random('%s:C38:%s:%s' % (spec['seed'], 'rand', spec['part']))
        nprog = max(1, spec['nrand'] // 20)
        for i in range(nprog):
            prog = gen_program(rng, i)
            while not terminates(prog):
                prog = gen_program(rng, i)
            rig.load(prog)
            nb = rt.simulate(prog, {}, rt.Chooser())['boundaries']
            for _ in range(20):
                check_one(rig, res, prog, gen_schedule(rng, prog, nb), 'random', prelude=rng.randrange(len(PRELUDES)),
                          between=rng.choice(['run', 'run', 'clear', 'new']))
                res.count('random_schedules')
            res.count('random_programs')
    finally:
        rig.close()
