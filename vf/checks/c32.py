"""
C32 PAINT fills exactly the enclosed region.

A bitmap of border / background / distractor pixels is planted with ordinary LINE / PSET / CIRCLE /
PUT statements (set-up), optionally a VIEW is put around (part of) it, then a solid
PAINT (x,y),fill,border is executed alone under ON ERROR GOTO.  Reference: breadth-first
4-connected fill (vf.models.gfx.flood_region) on the snapshot taken BEFORE the statement:

   region R = 4-connected set of pixels != border containing the seed, inside the viewport
              (empty if the seed is outside the viewport or on a border pixel)
   refuted when  a pixel outside R changed          paint:changed-outside-viewport / paint:border-pixel-changed /
                                                    paint:changed-outside-region
                 a changed pixel is not the fill    paint:wrong-attribute
                 R holds no fill-coloured pixel and a pixel of R is not the fill afterwards
                                                    paint:region-not-completely-filled
"""
import random
import time

from .. import harness
from ..models import gfx

META = {
    'property_id': 'C32',
    'technique': 'differential against a breadth-first 4-connected reference fill computed on the pixel snapshot before the statement',
    'level': 'exploration',
    'level_text': (
        'Runtime oracle on the real interpreter: for each planted bitmap (mazes, spirals, one-pixel diagonal and arbitrary-slope walls, '
        'combs/serpentines with one-pixel corridors, circle/box blobs, pixel noise, islands; regions cut by the viewport on every side; '
        'VIEW, VIEW SCREEN and no VIEW) several solid PAINTs with seeds inside, on border pixels, on and beyond the viewport edges are run and '
        'every changed pixel is compared with the reference region; complete filling is demanded exactly when the region held no '
        'fill-coloured pixel. 12 adapter/mode pairs (1, 2 and 4 bits per pixel); a seed-independent set of trap shapes runs in every shard.'),
    'level_note': (
        'Solid fills are reached through the PAINT statement (absolute, STEP relative to the observed POINT(0)/POINT(1), logical coordinates under WINDOW / WINDOW SCREEN) and through DRAW "BMx,y Pf,b", under VIEW / VIEW SCREEN / no VIEW; under WINDOW the physical start point of the reference is what PMAP returns for the logical coordinates given. Every legal form of the argument list is used (,f,b / ,f / ,,b / none, each with and without the background-tile argument, and in packed-pixel modes a tile string whose pixels all are the fill attribute): a legal form must not raise (paint:legal-form-raised-error) and must fill like the reference. Tiles with mixed pixels are not pinned. Colour NUMBERS beyond the highest attribute are used for fill and '
        'border, with the walls drawn with the same number; which attribute a number denotes is OBSERVED (PSET with that number on a scratch '
        'pixel, read from the page buffer), never modelled. Omitted border = the paint attribute, and omitted paint = the attribute PSET '
        'without colour stores, are taken from the GW-BASIC manual. Negative numbers denote no attribute: executed and counted, nothing '
        'demanded. When the region already contains fill-coloured pixels the '
        'statement allows an incomplete fill: only the "changes only region pixels, to the fill attribute" clauses are checked then. '
        'PAINTs ended by the harness step budget are discarded. Trusted: the page-buffer read (validated against Session.get_pixels).'),
    'rule': ('case = (mode, viewport, planted bitmap statements, seed, fill, border); distinct by the hash of the before-snapshot of the '
             'viewport area + seed + attributes; non-trivial = the reference region is non-empty or the seed was deliberately put on a '
             'border pixel / outside the viewport'),
    'design_ref': 'DESIGN.md section 4 C32',
    'assumptions': ['planting statements (LINE, PSET, CIRCLE, PUT) only prepare the picture; the snapshot before PAINT is the ground truth'],
    'require_counters': {'any': ['paints_fill_omitted_border_given', 'paints_with_background_argument', 'paints_uniform_tile', 'paints_through_draw', 'paints_through_draw_under_window', 'paints_logical_seed', 'paints_step_seed', 'window_on', 'window_screen', 'paints_out_of_range_border', 'paints_out_of_range_fill', 'paints_border_omitted', 'paints_fill_and_border_omitted', 'paints', 'paints_changed_pixels', 'complete_fill_demanded', 'region_touches_viewport_edge',
                                 'seed_on_border', 'seed_outside_viewport', 'view_on', 'view_off', 'region_had_fill_pixels',
                                 'shape_maze', 'shape_spiral', 'shape_diagonals', 'shape_serpentine']},
    'timeout': {'quick': 900, 'thorough': 3600},
}

MODES = ['cga:1', 'cga:2', 'ega:7', 'ega:9', 'egamono:10', 'vga:8', 'hercules:3', 'olivetti:3', 'tandy:3', 'tandy:6', 'pcjr:5', 'ega64k:9']


def plan(tier, seed):
    shards = []
    if tier == 'quick':
        for l in MODES:
            shards.append({'kind': 'paint', 'mode': l, 'n': 110, 'part': l, 'directed': True})
    else:
        for l in MODES:
            for p in range(5):
                shards.append({'kind': 'paint', 'mode': l, 'n': 250, 'part': '%s.%d' % (l, p), 'directed': p == 0})
    return shards


# ---------------------------------------------------------------------------------------
# planting

class Plant(object):
    """Collects set-up statements (absolute coordinates, VIEW off) and flushes them in long direct lines."""

    def __init__(self, g):
        self.g = g
        self.stmts = []
        self.dimmed = False
        self.gap = 0            # an attribute different from the border, for openings in walls

    def line(self, x0, y0, x1, y1, c, shape=b''):
        self.stmts.append(b'LINE(%d,%d)-(%d,%d),%d' % (x0, y0, x1, y1, c) + (b',' + shape if shape else b''))

    def pset(self, x, y, c):
        self.stmts.append(b'PSET(%d,%d),%d' % (x, y, c))

    def circle(self, x, y, r, c):
        self.stmts.append(b'CIRCLE(%d,%d),%d,%d' % (x, y, r, c))

    def raw(self, s):
        self.stmts.append(s)

    def flush(self):
        line = b''
        for s in self.stmts:
            if len(line) + len(s) + 1 > 240:
                self._ex(line)
                line = b''
            line = line + b':' + s if line else s
        if line:
            self._ex(line)
        n = len(self.stmts)
        self.stmts = []
        return n

    def _ex(self, line):
        code = self.g.direct(line)
        if code:
            raise PlantError('set-up line failed with error %d: %r' % (code, line))


class PlantError(Exception):
    pass


def clampbox(g, x0, y0, x1, y1):
    return max(0, x0), max(0, y0), min(g.w - 1, x1), min(g.h - 1, y1)


def shape_maze(pl, rng, box, b):
    x0, y0, x1, y1 = box
    cell = rng.choice([2, 3, 3, 4, 5, 6])
    nx, ny = max(1, (x1 - x0) // cell), max(1, (y1 - y0) // cell)
    # randomised depth-first carving
    seen = [[False] * ny for _ in range(nx)]
    open_r = set()   # (i, j): wall between (i,j) and (i+1,j) removed
    open_d = set()   # (i, j): wall between (i,j) and (i,j+1) removed
    stack = [(rng.randrange(nx), rng.randrange(ny))]
    seen[stack[0][0]][stack[0][1]] = True
    while stack:
        i, j = stack[-1]
        nb = [(i + di, j + dj) for di, dj in ((1, 0), (-1, 0), (0, 1), (0, -1))
              if 0 <= i + di < nx and 0 <= j + dj < ny and not seen[i + di][j + dj]]
        if not nb:
            stack.pop()
            continue
        a, c = rng.choice(nb)
        seen[a][c] = True
        if a != i:
            open_r.add((min(a, i), j))
        else:
            open_d.add((i, min(c, j)))
        stack.append((a, c))
    # a few extra openings (loops) and closed cells
    for _ in range(rng.randint(0, 4)):
        open_r.add((rng.randrange(nx), rng.randrange(ny)))
    # vertical walls: merge runs
    for i in range(0, nx + 1):
        j = 0
        while j < ny:
            if i in (0, nx) or (i - 1, j) not in open_r:
                k = j
                while k + 1 < ny and (i in (0, nx) or (i - 1, k + 1) not in open_r):
                    k += 1
                pl.line(x0 + i * cell, y0 + j * cell, x0 + i * cell, y0 + (k + 1) * cell, b)
                j = k + 1
            else:
                j += 1
    for j in range(0, ny + 1):
        i = 0
        while i < nx:
            if j in (0, ny) or (i, j - 1) not in open_d:
                k = i
                while k + 1 < nx and (j in (0, ny) or (k + 1, j - 1) not in open_d):
                    k += 1
                pl.line(x0 + i * cell, y0 + j * cell, x0 + (k + 1) * cell, y0 + j * cell, b)
                i = k + 1
            else:
                i += 1
    # entrances through the outer wall
    for _ in range(rng.randint(0, 3)):
        if rng.random() < 0.5:
            xx = x0 + rng.randrange(nx) * cell + 1
            yy = rng.choice([y0, y0 + ny * cell])
            pl.line(xx, yy, min(xx + cell - 2, xx + 3), yy, pl.gap)
        else:
            yy = y0 + rng.randrange(ny) * cell + 1
            xx = rng.choice([x0, x0 + nx * cell])
            pl.line(xx, yy, xx, min(yy + cell - 2, yy + 3), pl.gap)


def shape_spiral(pl, rng, box, b, gap=None):
    x0, y0, x1, y1 = box
    gap = gap or rng.choice([2, 2, 3, 4, 5])
    l, t, r, bt = x0, y0, x1, y1
    first = True
    while r - l > gap and bt - t > gap:
        pl.line(l, t, r, t, b)
        pl.line(r, t, r, bt, b)
        pl.line(r, bt, l + gap, bt, b)
        pl.line(l + gap, bt, l + gap, t + gap, b)
        l += gap
        t += gap
        r -= gap
        bt -= gap
        # continue the spiral: the next turn starts where this one ended
        if not first and rng.random() < 0.1:
            break
        first = False


def shape_diagonals(pl, rng, box, b):
    x0, y0, x1, y1 = box
    for _ in range(rng.randint(1, 5)):
        r = rng.random()
        if r < 0.5:
            # exact diagonal, one pixel thick
            n = rng.randint(5, max(6, min(x1 - x0, y1 - y0) + 10))
            sx = rng.randint(x0 - 5, x1)
            sy = rng.randint(y0 - 5, y1)
            d = rng.choice([1, -1])
            pl.line(sx, sy, sx + n, sy + d * n, b)
        else:
            # arbitrary slope right across the box
            if rng.random() < 0.5:
                pl.line(x0 - 2, rng.randint(y0, y1), x1 + 2, rng.randint(y0, y1), b)
            else:
                pl.line(rng.randint(x0, x1), y0 - 2, rng.randint(x0, x1), y1 + 2, b)


def shape_serpentine(pl, rng, box, b):
    """Comb / serpentine with narrow corridors: the scanline-fill trap (must turn back around wall ends)."""
    x0, y0, x1, y1 = box
    pitch = rng.choice([2, 3, 4, 6])
    hole = rng.choice([1, 1, 2, 3])
    vertical = rng.random() < 0.5
    k = 0
    if vertical:
        x = x0 + pitch
        while x < x1:
            if k % 2:
                pl.line(x, y0, x, y1 - hole, b)
            else:
                pl.line(x, y0 + hole, x, y1, b)
            x += pitch
            k += 1
    else:
        y = y0 + pitch
        while y < y1:
            mode = rng.choice([0, 1, 2]) if rng.random() < 0.3 else k % 2
            if mode == 1:
                pl.line(x0, y, x1 - hole, y, b)
            elif mode == 0:
                pl.line(x0 + hole, y, x1, y, b)
            else:
                # hole in the middle
                m = rng.randint(x0 + 1, max(x0 + 1, x1 - hole - 1))
                pl.line(x0, y, m - 1, y, b)
                pl.line(m + hole, y, x1, y, b)
            y += pitch
            k += 1


def shape_blobs(pl, rng, box, b):
    x0, y0, x1, y1 = box
    for _ in range(rng.randint(2, 7)):
        cx, cy = rng.randint(x0, x1), rng.randint(y0, y1)
        if rng.random() < 0.6:
            pl.circle(cx, cy, rng.randint(2, max(3, (x1 - x0) // 3)), b)
        else:
            pl.line(cx, cy, cx + rng.randint(-30, 30), cy + rng.randint(-20, 20), b, b'B')


def shape_noise(pl, rng, box, b, colours):
    x0, y0, x1, y1 = box
    area = (x1 - x0 + 1) * (y1 - y0 + 1)
    n = min(400, int(area * rng.choice([0.02, 0.05, 0.1, 0.2])))
    for _ in range(n):
        pl.pset(rng.randint(x0, x1), rng.randint(y0, y1), b if rng.random() < 0.7 else rng.choice(colours))


def shape_stamps(pl, rng, box, b, g):
    """PUT copies of a small noise stamp (planted first) with several verbs: dense random texture."""
    x0, y0, x1, y1 = box
    sw, sh = min(12, x1 - x0 + 1), min(8, y1 - y0 + 1)
    # Tandy SCREEN 6 reads and writes sprites twice as wide as asked: keep source and targets
    # clear of the right edge by that much in every mode (set-up statements must not fail)
    xmax = min(x1 - sw + 1, g.w - 2 * sw)
    if xmax < x0:
        return
    for _ in range(24):
        pl.pset(rng.randint(x0, x0 + sw - 1), rng.randint(y0, y0 + sh - 1), b if rng.random() < 0.6 else rng.randrange(g.nattr))
    if not pl.dimmed:
        pl.raw(b'DIM A%(600)')
        pl.dimmed = True
    pl.raw(b'GET(%d,%d)-(%d,%d),A%%' % (x0, y0, x0 + sw - 1, y0 + sh - 1))
    for _ in range(rng.randint(6, 30)):
        xx = rng.randint(x0, xmax)
        yy = rng.randint(y0, y1 - sh + 1)
        pl.raw(b'PUT(%d,%d),A%%,%s' % (xx, yy, rng.choice([b'PSET', b'OR', b'XOR', b'XOR', b'AND'])))


SHAPES = ['maze', 'spiral', 'diagonals', 'serpentine', 'blobs', 'noise', 'stamps']


# ---------------------------------------------------------------------------------------
# one bitmap and its PAINTs

class Painter(object):

    def __init__(self, g, res, spec):
        self.g = g
        self.res = res
        self.spec = spec
        self.nb = 0
        self._attr_of = {}

    # -- colour NUMBERS vs attributes ---------------------------------------------------
    # Which attribute a colour number denotes in this mode is OBSERVED, not modelled: the number is
    # given to PSET on a scratch pixel and the stored attribute is read from the page buffer (None if
    # PSET refuses the number).  PAINT is then judged with the attributes its numbers denote, and the
    # walls are drawn with the very same number PAINT gets as border.
    ALIASES = [2, 3, 4, 5, 9, 15, 16, 17, 31, 100, 200, 255]

    def attr_of(self, number):
        if number in self._attr_of:
            return self._attr_of[number]
        g = self.g
        g.direct(b'VIEW')
        val = None
        seen = set()
        ok = True
        for base in (0, 1):
            g.direct(b'PSET(0,0),%d' % base)
            stmt = b'PSET(0,0)' if number is None else b'PSET(0,0),%d' % number
            if g.trap(stmt) != 0:
                ok = False
                break
            seen.add(g.active()[0])
        if ok and len(seen) == 1:
            val = seen.pop()
            if val >= g.nattr:
                val = None
        self._attr_of[number] = val
        return val

    def tile_byte(self, attr):
        """Tile byte whose pixels all have attribute `attr`, for packed-pixel modes (GW-BASIC manual: the bits of a
        tile byte are consecutive pixels); None for the plane-interleaved EGA modes (several bytes per row)."""
        lab = self.g.mode['label'].split(':')[0]
        if lab in ('ega', 'vga', 'ega64k', 'egamono') and self.g.mode['screen'] >= 7:
            return None
        return attr * {1: 255, 2: 0x55, 4: 0x11}[self.g.mode['bpp']]

    def spell(self, rng, attr, high=False):
        """A colour number denoting `attr`: the attribute itself or an out-of-range alias of it."""
        al = [n for n in self.ALIASES if n >= self.g.nattr and self.attr_of(n) == attr]
        if al and (high or rng.random() < 0.45):
            return rng.choice(al) if not high else al[-1]
        return attr

    def colours(self, rng):
        n = self.g.nattr
        b = rng.randrange(n) if rng.random() < 0.65 else n - 1
        others = [c for c in range(n) if c != b]
        bg = rng.choice(others)
        return b, bg, others

    def pick_fill(self, rng, b, bg):
        n = self.g.nattr
        if n == 2:
            return b if rng.random() < 0.8 else 1 - b
        r = rng.random()
        if r < 0.1:
            return b
        if r < 0.2:
            return bg
        return rng.choice([c for c in range(n) if c not in (b, bg)] or [b])

    WINDOWS = [(-1, -1, 1, 1), (0, 0, 100, 100), (-160, -100, 160, 100), (10, 20, 500, 300), (0, 0, 319, 199), (-3.5, 2.25, 40, 9)]

    def logical_seed(self, win, wscreen, rect_local, px, py):
        """
        WINDOW maps its rectangle linearly onto the viewport (y upward unless WINDOW SCREEN): logical coordinates
        aimed at the physical viewport-relative point (px, py).  What physical point they really denote is then
        read back with PMAP (the documented mapping function) and THAT is the start point of the reference fill.
        """
        fx0, fy0, fx1, fy1 = win
        vw, vh = rect_local
        lx = fx0 + px * (fx1 - fx0) / float(max(1, vw - 1))
        t = py / float(max(1, vh - 1))
        ly = fy0 + t * (fy1 - fy0) if wscreen else fy1 - t * (fy1 - fy0)
        tx, ty = ('%.6g' % lx).encode(), ('%.6g' % ly).encode()
        try:
            qx, qy = self.g.box.ev(b'PMAP(' + tx + b',0)'), self.g.box.ev(b'PMAP(' + ty + b',1)')
        except harness.Internal as e:
            self.res.violation(e.key, 'PMAP: %s' % e, {'mode': self.g.mode['label']})
            raise
        if qx is None or qy is None:
            return None
        return tx, ty, int(qx), int(qy)

    def bitmap(self, rng, shapes=None, geometry=None, paints=3, seeds=None, fills=None, colours=None, high=False,
               window='random', entries=None, forms=None):
        g, res = self.g, self.res
        w, h = g.w, g.h
        g.direct(b'VIEW:WINDOW:CLEAR')   # no viewport, no window, no variables (the sprite array is dimensioned when needed)
        if not self._attr_of:
            for nr in [None] + list(range(g.nattr)) + self.ALIASES:
                self.attr_of(nr)         # observe every colour number once, before any VIEW / WINDOW is set
        b, bg, others = colours or self.colours(rng)
        # how the PAINT statements of this bitmap spell their arguments
        form = 'explicit'
        if colours is None:
            r = rng.random()
            if r < 0.08:
                form = 'border-omitted'        # GW-BASIC manual: the border defaults to the paint attribute
            elif r < 0.12:
                form = 'both-omitted'          # paint attribute defaults to the foreground, as in PSET without colour
            elif r < 0.20:
                form = 'fill-omitted'          # PAINT (x,y),,b : paint attribute = foreground, border given
        elif forms is not None:
            form = forms
        if form == 'fill-omitted' and self.attr_of(None) is None:
            form = 'explicit'
        if form == 'both-omitted':
            d = self.attr_of(None)
            if d is None:
                form = 'explicit'
            else:
                b = d
                others = [c for c in range(g.nattr) if c != b]
                bg = rng.choice(others)
        bnum = self.spell(rng, b, high)
        # geometry: viewport rectangle V (<= 120x80) and how it is established
        if geometry is None:
            bw, bh = rng.randint(4, min(120, w - 8)), rng.randint(4, min(80, h - 8))
            if rng.random() < 0.15:
                bw, bh = rng.randint(2, 12), rng.randint(2, 12)
            r = rng.random()
            if r < 0.3:
                # flush with screen edges
                vx0 = rng.choice([0, w - bw])
                vy0 = rng.choice([0, h - bh, rng.randint(0, h - bh)])
            else:
                vx0, vy0 = rng.randint(0, w - bw), rng.randint(0, h - bh)
            view = rng.choice(['rel', 'rel', 'abs', 'off', 'off'])
            if view == 'off' and rng.random() < 0.25 and w * h <= 64000:
                view = 'open'
        else:
            vx0, vy0, bw, bh, view = geometry
        V = (vx0, vy0, vx0 + bw - 1, vy0 + bh - 1)
        margin = rng.choice([0, 2, 5])
        P = clampbox(g, V[0] - margin, V[1] - margin, V[2] + margin, V[3] + margin)
        pl = Plant(g)
        pl.gap = bg
        # wipe a generous area around the bitmap with the background, then plant
        W = clampbox(g, V[0] - 8, V[1] - 8, V[2] + 8, V[3] + 8)
        if view == 'open':
            pl.raw(b'CLS')
            pl.line(0, 0, w - 1, h - 1, bg, b'BF')
        else:
            pl.line(W[0], W[1], W[2], W[3], bg, b'BF')
        if shapes is None:
            shapes = [rng.choice(SHAPES)]
            if rng.random() < 0.35:
                shapes.append(rng.choice(SHAPES))
        for sh in shapes:
            if isinstance(sh, str):
                res.count('shape_' + sh)
            if sh == 'maze':
                shape_maze(pl, rng, P, bnum)
            elif sh == 'spiral':
                shape_spiral(pl, rng, P, bnum)
            elif sh == 'diagonals':
                shape_diagonals(pl, rng, P, bnum)
            elif sh == 'serpentine':
                shape_serpentine(pl, rng, P, bnum)
            elif sh == 'blobs':
                shape_blobs(pl, rng, P, bnum)
            elif sh == 'noise':
                shape_noise(pl, rng, P, bnum, others)
            elif sh == 'stamps':
                shape_stamps(pl, rng, P, bnum, g)
            elif callable(sh):
                sh(pl, P, bnum, bg)
        # distractors: pixels / short lines in attributes that are neither border nor (necessarily) fill
        for _ in range(rng.randint(0, 6)):
            c = rng.choice(others)
            xx, yy = rng.randint(P[0], P[2]), rng.randint(P[1], P[3])
            if rng.random() < 0.5:
                pl.pset(xx, yy, c)
            else:
                pl.line(xx, yy, min(P[2], xx + rng.randint(0, 9)), yy, c)
        if view in ('off',):
            # close the area: a frame in the border attribute just outside V (where the screen allows)
            pl.line(V[0] - 1, V[1] - 1, V[2] + 1, V[3] + 1, bnum, b'B')
            # the frame must be intact: redraw nothing over it afterwards
        try:
            nst = pl.flush()
        except PlantError as e:
            res.inconclusive('harness: %s' % e)
            return
        except harness.Internal as e:
            res.violation(e.key, 'while planting a bitmap: %s' % e, {'mode': g.mode['label']})
            raise
        res.count('planting_statements', nst)
        # viewport
        if view == 'rel':
            g.direct(b'VIEW(%d,%d)-(%d,%d)' % V)
            ox, oy = V[0], V[1]
            rect = V
            res.count('view_on')
        elif view == 'abs':
            g.direct(b'VIEW SCREEN(%d,%d)-(%d,%d)' % V)
            ox, oy = 0, 0
            rect = V
            res.count('view_on')
            res.count('view_screen')
        else:
            ox, oy = 0, 0
            rect = (0, 0, w - 1, h - 1)
            res.count('view_off')
        # logical coordinates
        if window == 'random':
            window = None
            if rng.random() < 0.4:
                window = (rng.choice(self.WINDOWS), rng.random() < 0.4)
        if window is not None:
            win, wscreen = window
            code = g.direct(b'WINDOW' + (b' SCREEN' if wscreen else b'') + b'(%g,%g)-(%g,%g)' % win)
            if code:
                window = None
                g.direct(b'WINDOW')
            else:
                res.count('window_on')
                if wscreen:
                    res.count('window_screen')
        vw_local = (rect[2] - rect[0] + 1, rect[3] - rect[1] + 1)
        self.nb += 1
        res.count('bitmaps')
        for k in range(paints):
            before = g.active()
            # seed
            if seeds is not None:
                kind, (sx, sy) = seeds[k % len(seeds)]
            else:
                kind, (sx, sy) = self.pick_seed(rng, before, V, rect, b, view)
            f = fills[k % len(fills)] if fills else self.pick_fill(rng, b, bg)
            judgeable = True
            # entry point and spelling of the start point
            if entries is not None:
                entry = entries[k % len(entries)]
            elif form != 'explicit':
                entry = 'paint' if rng.random() < 0.7 else 'step'
            else:
                r = rng.random()
                entry = 'paint' if r < 0.55 else 'draw' if r < 0.85 else 'step'
            if entry == 'step' and window is not None:
                entry = 'paint'
            if entry == 'draw' and (sx - ox < 0 or abs(sx - ox) > 9999 or abs(sy - oy) > 9999):
                entry = 'paint'       # an absolute M cannot start with a sign
            ptxt = b'(%d,%d)' % (sx - ox, sy - oy)
            if entry == 'paint' and window is not None:
                ls = self.logical_seed(win, wscreen, vw_local, sx - rect[0], sy - rect[1])
                if ls is None:
                    continue
                ptxt = b'(' + ls[0] + b',' + ls[1] + b')'
                q = (ls[2] + ox, ls[3] + oy)
                if q != (sx, sy):
                    res.count('window_seed_moved_by_rounding')
                sx, sy = q
                res.count('paints_logical_seed')
            elif entry == 'step':
                try:
                    lp = (g.box.ev(b'POINT(0)'), g.box.ev(b'POINT(1)'))
                except harness.Internal as e:
                    res.violation(e.key, 'POINT(0)/POINT(1): %s' % e, {'mode': g.mode['label']})
                    raise
                ptxt = b' STEP(%d,%d)' % (sx - ox - int(lp[0]), sy - oy - int(lp[1]))
                res.count('paints_step_seed')
            if entry == 'draw':
                fnum = self.spell(rng, f, high)
                stmt = b'DRAW "BM%d,%d P%d,%d"' % (sx - ox, sy - oy, fnum, bnum)
                res.count('paints_through_draw')
                if window is not None:
                    res.count('paints_through_draw_under_window')
            else:
                head = b'PAINT' + ptxt
                # optional background-tile argument after a solid fill: legal, and without effect on a solid fill
                bgarg = b',CHR$(%d)' % rng.choice([0, 85, 170, 255, rng.randrange(256)]) if rng.random() < 0.15 else b''
                if form == 'explicit':
                    fnum = self.spell(rng, f, high)
                    tb = self.tile_byte(f)
                    if colours is None and rng.random() < 0.02:
                        # a negative number: no attribute is denoted, nothing is demanded (counted only)
                        judgeable = False
                        res.count('paints_negative_number')
                        stmt = head + (b',-1,%d' % bnum if rng.random() < 0.5 else b',%d,-1' % fnum)
                    elif tb is not None and colours is None and rng.random() < 0.12:
                        # a tile string whose every pixel is the fill attribute: the picture a solid fill gives
                        rows = rng.choice([1, 1, 2, 3, 8])
                        tile = b'+'.join([b'CHR$(%d)' % tb] * rows)
                        bgt = b''
                        if rng.random() < 0.3:
                            bgt = b',CHR$(%d)' % rng.choice([v for v in (0, 85, 170, 255, 51) if v != tb])
                        stmt = head + b',' + tile + b',%d' % bnum + bgt
                        res.count('paints_uniform_tile')
                    else:
                        stmt = head + b',%d,%d' % (fnum, bnum) + bgarg
                        if bgarg:
                            res.count('paints_with_background_argument')
                        if bnum >= g.nattr:
                            res.count('paints_out_of_range_border')
                        if fnum >= g.nattr:
                            res.count('paints_out_of_range_fill')
                elif form == 'border-omitted':
                    f = b
                    stmt = head + b',%d' % bnum + (b',' + bgarg if bgarg else b'')      # ,f  or  ,f,,bg
                    res.count('paints_border_omitted')
                    if bgarg:
                        res.count('paints_with_background_argument')
                elif form == 'fill-omitted':
                    f = self.attr_of(None)
                    stmt = head + b',,%d' % bnum + bgarg                                 # ,,b  or  ,,b,bg
                    res.count('paints_fill_omitted_border_given')
                    if bgarg:
                        res.count('paints_with_background_argument')
                else:
                    f = b
                    stmt = head
                    res.count('paints_fill_and_border_omitted')
            case = {'mode': g.mode['label'], 'view': view, 'viewport': list(V), 'shapes': [s if isinstance(s, str) else 'directed' for s in shapes],
                    'seed_abs': [sx, sy], 'stmt': stmt, 'bitmap_no': self.nb, 'border': b, 'fill': f, 'entry': entry,
                    'window': list(window[0]) + [window[1]] if window is not None else None}
            try:
                if entry == 'step':
                    # storing a program line resets the last referenced point, so the STEP form runs in direct
                    # mode; should it raise an error its message spoils the picture and the bitmap is given up
                    code = g.direct(stmt)
                    if code:
                        res.count('step_paint_error_discarded')
                        if not judgeable:
                            return
                        res.violation('paint:legal-form-raised-error', '%s: %s raised error %d (view %s %r)' % (
                            g.mode['label'], stmt.decode(), code, view, V), case)
                        return
                else:
                    code = g.trap(stmt)
            except harness.Internal as e:
                res.violation(e.key, '%s: %s: %s' % (g.mode['label'], stmt.decode(), e), case)
                raise
            if code == -2:
                res.count('paint_budget_breaks')
                g.direct(b'VIEW:WINDOW')
                g.enter_mode()
                return
            if code < 0:
                res.inconclusive('harness: PAINT could not be run (%d)' % code)
                return
            after = g.active()
            if code and judgeable:
                res.violation('paint:legal-form-raised-error', '%s: %s raised error %d (view %s %r, window %r)' % (
                    g.mode['label'], stmt.decode(), code, view, V, window), case)
            if not judgeable:
                res.case((g.mode['label'], 'negative', stmt, self.nb), nontrivial=False)
                continue
            self.judge(before, after, rect, V, (sx, sy), f, b, kind, code, case, view)

    def pick_seed(self, rng, snap, V, rect, b, view):
        g = self.g
        r = rng.random()
        x0, y0, x1, y1 = V
        if r < 0.55:
            return 'inside', (rng.randint(x0, x1), rng.randint(y0, y1))
        if r < 0.68:
            # a border-coloured pixel inside V if there is one
            for _ in range(40):
                x, y = rng.randint(x0, x1), rng.randint(y0, y1)
                if snap[y * g.w + x] == b:
                    return 'border', (x, y)
            return 'inside', (rng.randint(x0, x1), rng.randint(y0, y1))
        if r < 0.85:
            return 'edge', (rng.choice([x0, x1, rng.randint(x0, x1)]), rng.choice([y0, y1, rng.randint(y0, y1)]))
        # outside the viewport: one pixel beyond an edge, or far away
        rx0, ry0, rx1, ry1 = rect
        c = rng.choice([(rx0 - 1, rng.randint(ry0, ry1)), (rx1 + 1, rng.randint(ry0, ry1)), (rng.randint(rx0, rx1), ry0 - 1),
                        (rng.randint(rx0, rx1), ry1 + 1), (rx0 - rng.randint(2, 300), ry0 - rng.randint(2, 300)),
                        (rx1 + rng.randint(2, 3000), ry1 + rng.randint(2, 3000))])
        return 'outside', c

    def judge(self, before, after, rect, V, seed, f, b, kind, code, case, view):
        g, res = self.g, self.res
        w, h = g.w, g.h
        region = gfx.flood_region(before, w, h, rect, seed, b)
        inside_rect = rect[0] <= seed[0] <= rect[2] and rect[1] <= seed[1] <= rect[3]
        on_border = inside_rect and before[seed[1] * w + seed[0]] == b
        key = (g.mode['label'], view, V, seed, f, b, case['stmt'], hash(before[V[1] * w:(V[3] + 1) * w]))
        res.case(key, nontrivial=bool(region) or on_border or not inside_rect)
        res.count('paints')
        if code:
            res.count('paint_err_%d' % code)
        if not inside_rect:
            res.count('seed_outside_viewport')
        elif on_border:
            res.count('seed_on_border')
        res.maxc('max_region_size', len(region))
        had_fill = any(before[i] == f for i in region)
        if region:
            if had_fill:
                res.count('region_had_fill_pixels')
            else:
                res.count('complete_fill_demanded')
            x0, y0, x1, y1 = rect
            touches = False
            for i in region:
                y, x = divmod(i, w)
                if x == x0 or x == x1 or y == y0 or y == y1:
                    touches = True
                    break
            if touches:
                res.count('region_touches_viewport_edge')
        changed = gfx.diff_points(before, after, w, h)
        if changed:
            res.count('paints_changed_pixels')
        if self.nb <= 1:
            res.sample(dict(case, region_size=len(region), changed=len(changed), error=code))
        for (x, y) in changed:
            i = y * w + x
            if i not in region:
                if not (rect[0] <= x <= rect[2] and rect[1] <= y <= rect[3]):
                    k = 'paint:changed-outside-viewport'
                elif before[i] == b:
                    k = 'paint:border-pixel-changed'
                else:
                    k = 'paint:changed-outside-region'
                res.violation(k, '%s: %s (seed abs %r, view %s %r) changed pixel (%d,%d) [%d -> %d] outside the reference region of %d pixels' % (
                    g.mode['label'], case['stmt'].decode(), seed, view, V, x, y, before[i], after[i], len(region)), case)
                break
        for (x, y) in changed:
            if after[y * w + x] != f:
                res.violation('paint:wrong-attribute', '%s: %s changed pixel (%d,%d) to %d, fill is %d' % (
                    g.mode['label'], case['stmt'].decode(), x, y, after[y * w + x], f), case)
                break
        if region and not had_fill:
            miss = [i for i in region if after[i] != f]
            if miss:
                y, x = divmod(min(miss), w)
                res.violation('paint:region-not-completely-filled',
                              '%s: %s (seed abs %r, view %s %r): %d of %d region pixels not filled, first (%d,%d); the region held no pixel of the fill attribute' % (
                                  g.mode['label'], case['stmt'].decode(), seed, view, V, len(miss), len(region), x, y), case)


# ---------------------------------------------------------------------------------------
# directed, seed-independent trap shapes

def _d_empty(pl, P, b, bg):
    pass


def _d_diag_split(pl, P, b, bg):
    x0, y0, x1, y1 = P
    n = max(x1 - x0, y1 - y0) + 4
    pl.line(x0 - 2, y0 - 2, x0 - 2 + n, y0 - 2 + n, b)
    pl.line(x1 + 2, y0 - 2, x1 + 2 - n, y0 - 2 + n, b)


def _d_comb(pl, P, b, bg):
    x0, y0, x1, y1 = P
    my = (y0 + y1) // 2
    pl.line(x0, my, x1, my, b)
    pl.pset((x0 + x1) // 2, my, bg)          # one-pixel gate through the spine
    x = x0 + 2
    k = 0
    while x < x1 - 1:
        # teeth up and down, alternately long and short, leaving one-pixel gaps at the far ends
        pl.line(x, my, x, y0 + 1 + (k % 3), b)
        pl.line(x + 1, my, x + 1, y1 - 1 - (k % 2), b)
        x += 3
        k += 1


def _d_serp1(pl, P, b, bg):
    x0, y0, x1, y1 = P
    y = y0 + 2
    k = 0
    while y < y1:
        if k % 2:
            pl.line(x0, y, x1 - 1, y, b)
        else:
            pl.line(x0 + 1, y, x1, y, b)
        y += 2
        k += 1


def _d_serp_v(pl, P, b, bg):
    x0, y0, x1, y1 = P
    x = x0 + 2
    k = 0
    while x < x1:
        if k % 2:
            pl.line(x, y0, x, y1 - 1, b)
        else:
            pl.line(x, y0 + 1, x, y1, b)
        x += 2
        k += 1


def _d_spiral1(pl, P, b, bg):
    shape_spiral(pl, random.Random(1), P, b, gap=2)      # one-pixel corridor


def _d_islands(pl, P, b, bg):
    x0, y0, x1, y1 = P
    for k, (fx, fy) in enumerate([(0.2, 0.2), (0.5, 0.5), (0.8, 0.3), (0.3, 0.8), (0.7, 0.75), (0.5, 0.0), (0.0, 0.5), (1.0, 0.6)]):
        cx, cy = int(x0 + fx * (x1 - x0)), int(y0 + fy * (y1 - y0))
        pl.line(cx - 3 - k % 3, cy - 2, cx + 3, cy + 2 + k % 2, b, b'B')
    # U, C and a staircase
    pl.line(x0 + 4, y1 - 12, x0 + 4, y1 - 3, b)
    pl.line(x0 + 4, y1 - 3, x0 + 14, y1 - 3, b)
    pl.line(x0 + 14, y1 - 3, x0 + 14, y1 - 12, b)
    for s in range(8):
        pl.line(x1 - 30 + 3 * s, y0 + 5 + 2 * s, x1 - 27 + 3 * s, y0 + 5 + 2 * s, b)
        pl.line(x1 - 27 + 3 * s, y0 + 5 + 2 * s, x1 - 27 + 3 * s, y0 + 7 + 2 * s, b)


def _d_checker(pl, P, b, bg):
    x0, y0, x1, y1 = P
    for y in range(y0, min(y1, y0 + 24) + 1):
        for x in range(x0 + (y - y0) % 2, min(x1, x0 + 40) + 1, 2):
            pl.pset(x, y, b)


def _d_notch_right(pl, P, b, bg):
    """Pockets that open only to the right / left of a shorter span on the previous scanline."""
    x0, y0, x1, y1 = P
    y = y0 + 3
    while y + 6 < y1:
        pl.line(x0 + 6, y, x1 - 6, y, b)              # shelf
        pl.line(x1 - 6, y, x1 - 6, y + 3, b)          # drop at the right end
        pl.line(x0 + 6, y + 3, x0 + 6, y + 6, b)      # drop at the left end, lower
        pl.line(x0 + 6, y + 3, x1 - 9, y + 3, b)
        y += 7


DIRECTED = [
    ('empty', _d_empty), ('diag-split', _d_diag_split), ('comb', _d_comb), ('serpentine-h1', _d_serp1), ('serpentine-v1', _d_serp_v),
    ('spiral-1px', _d_spiral1), ('islands', _d_islands), ('checker', _d_checker), ('notches', _d_notch_right),
]


def directed(pt):
    g = pt.g
    rng = random.Random('C32:directed')
    w, h = g.w, g.h
    n = g.nattr
    b = n - 1
    bg = 0
    f = 1 if n > 2 else b
    geoms = [
        (w // 2 - 30, h // 2 - 20, 61, 41, 'rel'),
        (0, 0, 47, 33, 'abs'),
        (w - 52, h - 38, 52, 38, 'off'),
        (w - 64, 0, 64, 40, 'rel'),
        (7, h - 45, 80, 45, 'off'),
    ]
    for name, fn in DIRECTED:
        pt.res.count('directed_bitmaps')
        pt.res.count('shape_serpentine' if 'serp' in name or name in ('comb', 'notches') else
                     'shape_spiral' if 'spiral' in name else 'shape_diagonals' if 'diag' in name else 'shape_directed_other')
        for gi, geom in enumerate(geoms):
            vx0, vy0, bw, bh, view = geom
            V = (vx0, vy0, vx0 + bw - 1, vy0 + bh - 1)
            seeds = [('inside', (V[0] + 1, V[1] + 1)), ('inside', (V[2] - 1, V[3] - 1)), ('edge', (V[0], V[3])),
                     ('inside', ((V[0] + V[2]) // 2 + 1, (V[1] + V[3]) // 2 - 3)), ('edge', (V[2], V[1])),
                     ('outside', (V[0] - 1, V[1])), ('outside', (V[2] + 1, V[3] + 1))]
            fills = [f, f, (f + 1) % n if n > 2 else f, f, b, f, f]
            if (gi + len(name)) % 2:
                seeds = seeds[3:] + seeds[:3]
            pt.bitmap(rng, shapes=[fn], geometry=geom, paints=len(seeds), seeds=seeds, fills=fills, colours=(b, bg, [c for c in range(n) if c != b]),
                      window=None, entries=['paint', 'paint', 'draw', 'step'])
            if gi < 2 and name in ('empty', 'diag-split', 'comb', 'serpentine-h1', 'islands'):
                # the same picture with border (walls AND PAINT) and fill spelled as out-of-range numbers
                pt.bitmap(rng, shapes=[fn], geometry=geom, paints=len(seeds), seeds=seeds, fills=fills,
                          colours=(b, bg, [c for c in range(n) if c != b]), high=True, window=None)
            if gi in (1, 3) and name in ('empty', 'comb', 'serpentine-h1', 'islands', 'notches'):
                # every other syntactic form of the argument list (,,b / ,f / nothing; with a background argument at random)
                d = pt.attr_of(None)
                for fm in ('fill-omitted', 'border-omitted', 'both-omitted'):
                    bb = b if fm == 'fill-omitted' else d
                    if bb is None or d is None:
                        continue
                    pt.bitmap(rng, shapes=[fn], geometry=geom, paints=len(seeds), seeds=seeds, fills=[d],
                              colours=(bb, (bb + 1) % n, [cc for cc in range(n) if cc != bb]), window=None, entries=['paint', 'paint', 'step'], forms=fm)
            if gi < 3 and name in ('empty', 'diag-split', 'comb', 'serpentine-v1', 'spiral-1px', 'islands'):
                # the same picture under WINDOW / WINDOW SCREEN, through PAINT (logical seed) and through DRAW "P f,b"
                wn = [((-1, -1, 1, 1), False), ((0, 0, 100, 100), True), ((10, 20, 500, 300), False)][(gi + len(name)) % 3]
                pt.bitmap(rng, shapes=[fn], geometry=geom, paints=len(seeds), seeds=seeds, fills=fills,
                          colours=(b, bg, [c for c in range(n) if c != b]), window=wn, entries=['paint', 'draw'])


def run_shard(spec, res):
    t0 = time.process_time()
    rng = random.Random('%s:C32:%s:%s' % (spec['seed'], spec['kind'], spec.get('part', 0)))
    label = spec['mode']
    m = gfx.MODE_BY_LABEL[label]
    phases = (['directed'] if spec.get('directed') else []) + ['random']
    for phase in phases:
        tries = 0
        done = 0
        while tries < 3:
            tries += 1
            try:
                with gfx.GBox(m, wait_budget=60000) as g:
                    pt = Painter(g, res, spec)
                    if phase == 'directed':
                        directed(pt)
                    else:
                        while done < spec['n']:
                            pt.bitmap(rng, paints=rng.randint(2, 4))
                            done += 1
                            if done % 40 == 0 and not g.validate_fast():
                                res.count('snapshot_fallbacks')
                    if g.fallbacks:
                        res.count('snapshot_fallbacks', g.fallbacks)
                break
            except gfx.ModeMismatch as e:
                res.inconclusive('mode table: %s' % e)
                return
            except gfx.Corrupt as e:
                res.violation('frame:page-buffer-corrupted:%s' % e.what, '%s: the screen can no longer be observed: %s' % (label, e), {'mode': label})
                if phase == 'directed':
                    break
            except harness.Internal:
                res.count('internal_errors')
                if phase == 'directed':
                    break
    res.count('modes_covered' if spec.get('directed') else 'mode_sessions')
    res.count('cpu_seconds', int(round(time.process_time() - t0)))
