"""
C21 Error trapping reports and resumes at the right place.

Oracle: generated programs (vf.gen.c19_progs.gen_c21) raise errors by ERROR n and by real faults at
every statement position of multi-statement lines, inside THEN/ELSE branches, loops, subroutines and
from a direct-mode line; handlers print ERR and ERL and use every RESUME form. The output of the real
interpreter must equal the trace of R-CTRL's statement-pointer model (vf.models.c19_rctrl).
A directed, seed-independent core (hand-derived outputs, the complete ERROR n table) runs in both tiers.
"""
import random

from ..gen import c19_progs as G
from ..models import c19_rctrl as M
from . import c19 as _c19

META = {
    'property_id': 'C21',
    'technique': 'reference-interpreter monitor (R-CTRL statement-pointer model) over generated error-trapping programs; complete ERROR n table',
    'level': 'exploration',
    'level_text': (
        'Runtime oracle: the printed trace (tags, ERR, ERL inside handlers, final message and line) of each generated '
        'program equals that of an independent model: trap -> handler line with ERR/ERL, RESUME re-executes the failing '
        'statement (not its line), RESUME NEXT continues after it (also inside THEN/ELSE branches and from subroutines), '
        'RESUME n, RESUME met without an error stops with error 20 also while a trap is armed (fall-through, GOTO/GOSUB into handler code), the program text ending inside a handler gives No RESUME naming the last line, a fault inside a DEF FN body counts as a fault of the CALLING statement (ERL, RESUME, RESUME NEXT), an error inside a handler stops with that message, RESUME outside a handler gives error 20, no handler '
        '-> message naming the line, direct-mode errors give ERL 65535 and a message without line. ERROR n for all n in '
        '1..255 is enumerated both untrapped (message table) and trapped (ERR value) in the directed core.'),
    'level_note': (
        'Trusted: harness, printer. The error CODE of each real fault comes from the GW-BASIC manual (table FAULTS in '
        'vf/gen/c19_progs.py). Not pinned by the statement, hence not generated: ERR/ERL outside a handler or after RESUME; '
        'division by zero without an armed trap (soft-handled: message and continue) - 1/0, 7\\0, 7 MOD 0 are generated only '
        'where a trap is armed, else the program is discarded; RESUME n to a line that does not exist (the implementation leaves handler mode before it resolves the line, so the Undefined line number is trapped again - not generated); ON ERROR '
        'inside a handler; falling off the program end inside a handler (No RESUME); soft arithmetic errors in a DEF FN body without an armed trap; faults in IF conditions and in '
        'IF..THEN line-number jumps (what "the next statement" is there); ERROR 0 / ERROR 256.'),
    'rule': ('case = one generated program (text + direct line); distinct by text; non-trivial = at least one error was '
             'raised in the reference run (trapped or fatal) and the program was not discarded as unpinned'),
    'design_ref': 'DESIGN.md section 4 C21',
    'assumptions': ['R-CTRL statement-pointer model', 'GW-BASIC manual error table (codes and messages)'],
    'exhaustive': {'quick': 'ERROR n for every n in 1..255: message when untrapped, ERR when trapped (random programs sampled)',
                   'thorough': 'ERROR n for every n in 1..255: message when untrapped, ERR when trapped (random programs sampled)'},
    'require_counters': {'any': [
        'ref_trap', 'ref_resume:next', 'ref_resume:same', 'ref_resume:line', 'ref_resume:outside-handler',
        'ref_fatal', 'ref_fatal-in-handler', 'ref_onerror:off', 'gen_direct_mode', 'gen_real_fault',
        'gen_fault_in_if_branch', 'gen_gosub_to_faulting_sub', 'gen_fault_in_loop', 'gen_float_div_zero_trapped',
        'direct_mode_handler_entered', 'error_table_codes', 'directed_cases',
        'ended_by_defined_error_code', 'ended_by_undefined_error_code', 'budget_exhausted',
        'ref_fn:body-raises', 'gen_fault_in_def_fn_body',
        'ref_resume:outside-handler:trap-armed', 'ref_fatal:no-resume', 'gen_jump_into_handler_code', 'gen_main_runs_into_handler', 'gen_blanks_around_colons',
        'gen_for_without_next', 'gen_while_without_wend', 'gen_control_fault',
        'syntax_table_programs', 'gen_syntax_fault', 'gen_last_statement_of_program_fails']},
    'timeout': {'quick': 600, 'thorough': 7200},
}

BUDGET = 300


def plan(tier, seed):
    shards = [{'kind': 'directed'}, {'kind': 'table'}]
    if tier == 'quick':
        for i in range(12):
            shards.append({'kind': 'random', 'part': i, 'n': 300})
    else:
        for i in range(46):
            shards.append({'kind': 'random', 'part': i, 'n': 4000})
    return shards


E = b'\xff\r\n'
H = '100 PRINT "h";ERR;ERL:'
# (key, program lines, direct line or None, expected output)
DIRECTED = [
    ('trap:err-erl-resume-next', ['10 ON ERROR GOTO 100', '20 PRINT "a":ERROR 5:PRINT "b"', '30 END', H + 'RESUME NEXT'], None,
     b'a\r\nh 5  20 \r\nb\r\n'),
    ('resume:re-executes-the-statement-not-the-line',
     ['10 ON ERROR GOTO 100', '20 PRINT "a":ERROR 5:PRINT "b"', '30 END', H + 'C%=C%+1:IF C%<2 THEN RESUME ELSE RESUME NEXT'], None,
     b'a\r\nh 5  20 \r\nh 5  20 \r\nb\r\n'),
    ('resume-0:re-executes-the-statement',
     ['10 ON ERROR GOTO 100', '20 PRINT "a":ERROR 5:PRINT "b"', '30 END', H + 'C%=C%+1:IF C%<3 THEN RESUME 0 ELSE RESUME NEXT'], None,
     b'a\r\nh 5  20 \r\nh 5  20 \r\nh 5  20 \r\nb\r\n'),
    ('resume:fixed-fault-succeeds',
     ['10 ON ERROR GOTO 100', '20 PRINT "a":Q%=7\\Z%:PRINT "b";Q%', '30 END', H + 'Z%=7:RESUME'], None,
     b'a\r\nh 11  20 \r\nb 1 \r\n'),
    ('resume-line', ['10 ON ERROR GOTO 100', '20 PRINT "a":ERROR 5:PRINT "b"', '30 PRINT "c":END', '40 PRINT "d":END', H + 'RESUME 40'],
     None, b'a\r\nh 5  20 \r\nd\r\n'),
    ('resume-next:at-line-end', ['10 ON ERROR GOTO 100', '20 PRINT "a":ERROR 6', '30 PRINT "c":END', H + 'RESUME NEXT'], None,
     b'a\r\nh 6  20 \r\nc\r\n'),
    ('resume-next:inside-then-branch',
     ['10 ON ERROR GOTO 100', '20 IF 1=1 THEN PRINT "t":ERROR 9:PRINT "u" ELSE PRINT "e"', '30 PRINT "n":END', H + 'RESUME NEXT'], None,
     b't\r\nh 9  20 \r\nu\r\nn\r\n'),
    ('resume-next:last-of-then-branch-before-else',
     ['10 ON ERROR GOTO 100', '20 IF 1=1 THEN PRINT "t":ERROR 9 ELSE PRINT "e"', '30 PRINT "n":END', H + 'RESUME NEXT'], None,
     b't\r\nh 9  20 \r\nn\r\n'),
    ('resume-next:inside-else-branch',
     ['10 ON ERROR GOTO 100', '20 IF 1=2 THEN PRINT "t" ELSE PRINT "e":ERROR 9:PRINT "f"', '30 PRINT "n":END', H + 'RESUME NEXT'], None,
     b'e\r\nh 9  20 \r\nf\r\nn\r\n'),
    ('resume:inside-then-branch-re-executes-only-the-statement',
     ['10 ON ERROR GOTO 100', '20 IF 1=1 THEN PRINT "t":ERROR 9:PRINT "u"', '30 END',
      H + 'C%=C%+1:IF C%<2 THEN RESUME ELSE RESUME NEXT'], None, b't\r\nh 9  20 \r\nh 9  20 \r\nu\r\n'),
    ('trap:in-subroutine', ['10 ON ERROR GOTO 100', '20 GOSUB 200:PRINT "back"', '30 END', H + 'RESUME NEXT',
                            '200 PRINT "s":ERROR 6:PRINT "t":RETURN'], None, b's\r\nh 6  200 \r\nt\r\nback\r\n'),
    ('trap:in-loop', ['10 ON ERROR GOTO 100', '20 FOR I%=1 TO 2:PRINT I%:ERROR 7:NEXT', '30 PRINT "e":END', H + 'RESUME NEXT'], None,
     b' 1 \r\nh 7  20 \r\n 2 \r\nh 7  20 \r\ne\r\n'),
    ('handler:error-inside-stops-with-that-message',
     ['10 ON ERROR GOTO 100', '20 PRINT "a":ERROR 5', '30 PRINT "no"', '100 PRINT "h";ERR;ERL', '110 ERROR 7', '120 RESUME NEXT'], None,
     b'a\r\nh 5  20 \r\nOut of memory in 110' + E),
    ('handler:real-fault-inside-stops', ['10 ON ERROR GOTO 100', '20 ERROR 5', '30 PRINT "no"', H + 'Q%=ASC(""):RESUME NEXT'], None,
     b'h 5  20 \r\nIllegal function call in 100' + E),
    ('handler:trap-works-again-after-resume',
     ['10 ON ERROR GOTO 100', '20 ERROR 5', '30 ERROR 6', '40 PRINT "e":END', H + 'RESUME NEXT'], None,
     b'h 5  20 \r\nh 6  30 \r\ne\r\n'),
    ('resume:outside-handler', ['10 PRINT "a":RESUME', '20 PRINT "no"'], None, b'a\r\nRESUME without error in 10' + E),
    ('resume-next:outside-handler', ['10 PRINT "a"', '20 RESUME NEXT'], None, b'a\r\nRESUME without error in 20' + E),
    ('resume:after-handler-finished', ['10 ON ERROR GOTO 100', '20 ERROR 5', '30 ON ERROR GOTO 0', '40 RESUME', H + 'RESUME NEXT'], None,
     b'h 5  20 \r\nRESUME without error in 40' + E),
    ('resume:outside-handler-with-trap-armed:main-runs-into-handler',
     ['10 ON ERROR GOTO 100', '20 PRINT "a"', '100 PRINT "h":RESUME NEXT'], None, b'a\r\nh\r\nRESUME without error in 100' + E),
    ('resume:outside-handler-with-trap-armed:gosub-into-handler',
     ['10 ON ERROR GOTO 100', '20 PRINT "a":GOSUB 100:PRINT "b"', '30 END', '100 PRINT "h":RESUME NEXT'], None,
     b'a\r\nh\r\nRESUME without error in 100' + E),
    ('resume:outside-handler-with-trap-armed:goto-into-handler-after-a-handled-error',
     ['10 ON ERROR GOTO 100', '20 ERROR 5', '30 PRINT "a":GOTO 110', '40 END', '100 PRINT "h";ERR;ERL', '110 PRINT "r":RESUME NEXT'], None,
     b'h 5  20 \r\nr\r\na\r\nr\r\nRESUME without error in 110' + E),
    ('resume:outside-handler-with-trap-armed:resume-line', ['10 ON ERROR GOTO 100', '20 PRINT "a":RESUME 40', '30 END', '40 PRINT "no"',
                                                           '100 PRINT "h":RESUME NEXT'], None, b'a\r\nRESUME without error in 20' + E),
    ('no-resume:program-ends-inside-handler',
     ['10 ON ERROR GOTO 100', '20 ERROR 5', '30 PRINT "no"', '100 PRINT "h";ERR;ERL', '110 PRINT "x"'], None,
     b'h 5  20 \r\nx\r\nNo RESUME in 110' + E),
    ('no-resume:end-inside-handler-is-fine',
     ['10 ON ERROR GOTO 100', '20 ERROR 5', '30 PRINT "no"', '100 PRINT "h";ERR;ERL', '110 END'], None, b'h 5  20 \r\n'),
    ('error-statement:inside-handler-with-trap-armed-stops',
     ['10 ON ERROR GOTO 100', '20 ERROR 5', '30 PRINT "no"', '100 PRINT "h";ERR;ERL:ERROR 200'], None,
     b'h 5  20 \r\nUnprintable error in 100' + E),
    ('resume-next:blanks-before-the-colon-in-front-of-the-failing-statement',
     ['10 ON ERROR GOTO 100 : ERROR 5 : PRINT "b"', '30 END', H + 'RESUME NEXT'], None, b'h 5  10 \r\nb\r\n'),
    ('resume-next:blanks-before-the-colon-in-front-of-the-failing-statement',
     ['10 ON ERROR GOTO 100', '20 DATA 1', '30 RESTORE 20  :  READ A,B  :  PRINT "b";A', '40 END', H + 'RESUME NEXT'], None,
     b'h 4  30 \r\nb 1 \r\n'),
    ('resume:blanks-around-colons', ['10 ON ERROR GOTO 100  :  PRINT "a"  :  ERROR 5  :  PRINT "b"', '30 END',
                                     H + 'C%=C%+1  :  IF C%<2 THEN RESUME ELSE RESUME NEXT'], None, b'a\r\nh 5  10 \r\nh 5  10 \r\nb\r\n'),
    ('control-error:for-without-next:trapped-erl-is-the-for-line',
     ['10 ON ERROR GOTO 100', '20 PRINT "a"', '30 PRINT "b":FOR I%=1 TO 0:PRINT "c"', '40 PRINT "d":END', H + 'RESUME NEXT'], None,
     b'a\r\nb\r\nh 26  30 \r\nc\r\nd\r\n'),
    ('control-error:for-without-next:untrapped-names-the-for-line',
     ['10 PRINT "a"', '20 PRINT "b":FOR I%=1 TO 0:PRINT "c"', '30 PRINT "d"', '40 FOR J%=1 TO 2:NEXT'], None, b'a\r\nb\r\nFOR without NEXT in 20' + E),
    ('control-error:for-without-next:non-empty-loop', ['10 PRINT "a"', '20 FOR I%=1 TO 3', '30 PRINT "d"'], None, b'a\r\nFOR without NEXT in 20' + E),
    ('control-error:while-without-wend:trapped-and-untrapped',
     ['10 ON ERROR GOTO 100', '20 PRINT "a":WHILE 0:PRINT "c"', '30 ON ERROR GOTO 0', '40 WHILE 1', '50 PRINT "no"', H + 'RESUME NEXT'], None,
     b'a\r\nh 29  20 \r\nc\r\nWHILE without WEND in 40' + E),
    ('control-error:next-wend-return-trapped',
     ['10 ON ERROR GOTO 100', '20 NEXT', '30 WEND', '40 RETURN', '50 PRINT "e":END', H + 'RESUME NEXT'], None,
     b'h 1  20 \r\nh 30  30 \r\nh 3  40 \r\ne\r\n'),
    ('control-error:undefined-line-in-goto-gosub-restore',
     ['10 ON ERROR GOTO 100', '20 GOTO 64999', '30 GOSUB 64998:PRINT "g"', '40 RESTORE 64997', '50 ON 1 GOTO 64996', '60 PRINT "e":END',
      H + 'RESUME NEXT'], None, b'h 8  20 \r\nh 8  30 \r\ng\r\nh 8  40 \r\nh 8  50 \r\ne\r\n'),
    ('control-error:untrapped-in-subroutine-names-its-line',
     ['10 GOSUB 100', '20 END', '100 PRINT "s"', '110 WHILE 1', '120 PRINT "no":RETURN'], None, b's\r\nWHILE without WEND in 110' + E),
    ('no-handler:message-names-line', ['10 PRINT "a"', '20 PRINT "b":ERROR 53:PRINT "no"'], None, b'a\r\nb\r\nFile not found in 20' + E),
    ('no-handler:undefined-code', ['10 ERROR 200'], None, b'Unprintable error in 10' + E),
    ('on-error-goto-0:switches-trap-off', ['10 ON ERROR GOTO 100', '20 ON ERROR GOTO 0', '30 PRINT "a":ERROR 5', H + 'RESUME NEXT'], None,
     b'a\r\nIllegal function call in 30' + E),
    ('fault:division-by-zero-trapped', ['10 ON ERROR GOTO 100', '20 PRINT "a":Q=1/0:PRINT "b"', '30 END', H + 'RESUME NEXT'], None,
     b'a\r\nh 11  20 \r\nb\r\n'),
    ('fault:subscript', ['10 ON ERROR GOTO 100', '20 PRINT "a":Q%=B%(11):PRINT "b"', '30 END', H + 'RESUME NEXT'], None,
     b'a\r\nh 9  20 \r\nb\r\n'),
    ('fault:type-mismatch', ['10 ON ERROR GOTO 100', '20 PRINT "a":Q%="x":PRINT "b"', '30 END', H + 'RESUME NEXT'], None,
     b'a\r\nh 13  20 \r\nb\r\n'),
    ('fault:file-not-found', ['10 ON ERROR GOTO 100', '20 PRINT "a":OPEN "NOFILE.DAT" FOR INPUT AS 1:PRINT "b"', '30 END', H + 'RESUME NEXT'],
     None, b'a\r\nh 53  20 \r\nb\r\n'),
    ('fault:undefined-line', ['10 ON ERROR GOTO 100', '20 PRINT "a":GOTO 64999:PRINT "b"', '30 END', H + 'RESUME NEXT'], None,
     b'a\r\nh 8  20 \r\nb\r\n'),
    ('fault:overflow', ['10 ON ERROR GOTO 100', '20 PRINT "a":Q%=32767+1:PRINT "b"', '30 END', H + 'RESUME NEXT'], None,
     b'a\r\nh 6  20 \r\nb\r\n'),
    ('fault:while-assigning-a-read-item-belongs-to-the-read-line',
     ['10 ON ERROR GOTO 100', '20 PRINT "a":READ Q%:PRINT "b"', '30 END', '60 DATA 40000', H + 'RESUME NEXT'], None,
     b'a\r\nh 6  20 \r\nb\r\n'),
    ('fault:while-assigning-a-read-item-belongs-to-the-read-line',
     ['10 ON ERROR GOTO 100', '20 PRINT "a":READ A,B%(11):PRINT "b";A', '30 END', '60 DATA 7', '70 DATA 1', H + 'RESUME NEXT'], None,
     b'a\r\nh 9  20 \r\nb 7 \r\n'),
    ('fault:while-assigning-a-read-item-belongs-to-the-read-line',
     ['10 PRINT "a"', '20 READ A,Q%', '30 PRINT "no"', '40 DATA 1', '50 PRINT "x":DATA -40000'], None, b'a\r\nOverflow in 20' + E),
    ('fault:while-assigning-a-read-item-belongs-to-the-read-line',
     ['10 ON ERROR GOTO 100', '20 PRINT "a":READ Q%:PRINT "b"', '30 END', '60 DATA 40000',
      H + 'C%=C%+1:IF C%<2 THEN RESUME ELSE RESUME NEXT'], None, b'a\r\nh 6  20 \r\nh 6  20 \r\nb\r\n'),
    ('fault:out-of-data-belongs-to-the-read-line',
     ['10 ON ERROR GOTO 100', '20 PRINT "a":READ A,B:PRINT "b"', '30 END', '60 DATA 7', H + 'RESUME NEXT'], None,
     b'a\r\nh 4  20 \r\nb\r\n'),
    ('fault:return-without-gosub-trapped', ['10 ON ERROR GOTO 100', '20 PRINT "a":RETURN:PRINT "b"', '30 END', H + 'RESUME NEXT'], None,
     b'a\r\nh 3  20 \r\nb\r\n'),
    ('fault:untrapped-real-fault', ['10 PRINT "a"', '20 Q%=B%(11)'], None, b'a\r\nSubscript out of range in 20' + E),
    ('def-fn:body-raises-is-an-error-of-the-calling-statement',
     ['10 DEF FNA(X)=SQR(-4)+X', '20 ON ERROR GOTO 100', '30 PRINT "a":Q=FNA(1):PRINT "b"', '40 END', H + 'RESUME NEXT'], None,
     b'a\r\nh 5  30 \r\nb\r\n'),
    ('def-fn:body-raises-is-an-error-of-the-calling-statement',
     ['10 DEF FNA(X)=LOG(0)*X', '20 PRINT "a"', '30 PRINT "b":Q=FNA(1):PRINT "no"'], None, b'a\r\nb\r\nIllegal function call in 30' + E),
    ('def-fn:resume-re-executes-the-calling-statement',
     ['10 DEF FNC$(X)=MID$("abc",0)', '20 ON ERROR GOTO 100', '30 PRINT "a":Q$=FNC$(1):PRINT "b"', '40 END',
      H + 'C%=C%+1:IF C%<2 THEN RESUME ELSE RESUME NEXT'], None, b'a\r\nh 5  30 \r\nh 5  30 \r\nb\r\n'),
    ('def-fn:division-by-zero-in-body-trapped',
     ['10 DEF FND(X)=1/0+X', '20 ON ERROR GOTO 100', '30 PRINT "a"', '40 Q=FND(1):PRINT "b"', '50 END', H + 'RESUME NEXT'], None,
     b'a\r\nh 11  40 \r\nb\r\n'),
    ('def-fn:overflow-converting-the-result',
     ['10 DEF FNE%(X)=X*40000', '20 ON ERROR GOTO 100', '30 PRINT "a":Q=1+FNE%(1):PRINT "b"', '40 END', H + 'RESUME NEXT'], None,
     b'a\r\nh 6  30 \r\nb\r\n'),
    ('def-fn:body-raises-called-from-subroutine-and-handler',
     ['10 DEF FNA(X)=SQR(-4)+X', '20 ON ERROR GOTO 100', '30 GOSUB 200:PRINT "back"', '40 END', '100 PRINT "h";ERR;ERL', '110 Q=FNA(2)',
      '120 RESUME NEXT', '200 PRINT "s":Q=FNA(1):PRINT "t":RETURN'], None, b's\r\nh 5  200 \r\nIllegal function call in 110' + E),
    ('direct:erl-65535-resume-next', ['10 END', H + 'RESUME NEXT'], 'ON ERROR GOTO 100:PRINT "d1":ERROR 5:PRINT "d2"',
     b'd1\r\nh 5  65535 \r\nd2\r\n'),
    ('direct:resume-re-executes', ['10 END', H + 'C%=C%+1:IF C%<2 THEN RESUME ELSE RESUME NEXT'],
     'ON ERROR GOTO 100:PRINT "d1":ERROR 5:PRINT "d2"', b'd1\r\nh 5  65535 \r\nh 5  65535 \r\nd2\r\n'),
    ('direct:resume-line', ['10 PRINT "m":END', H + 'RESUME 10'], 'ON ERROR GOTO 100:PRINT "d1":ERROR 5:PRINT "d2"',
     b'd1\r\nh 5  65535 \r\nm\r\n'),
    ('direct:no-handler-message-without-line', ['10 END'], 'PRINT "d1":ERROR 5:PRINT "d2"', b'd1\r\nIllegal function call' + E),
    ('direct:error-in-called-subroutine-has-its-line', ['10 END', H + 'RESUME NEXT', '200 PRINT "s":ERROR 6:PRINT "t":RETURN'],
     'ON ERROR GOTO 100:GOSUB 200:PRINT "d2"', b's\r\nh 6  200 \r\nt\r\nd2\r\n'),
    ('direct:resume-outside-handler', ['10 END'], 'PRINT "d1":RESUME', b'd1\r\nRESUME without error' + E),
]


def _run_text(harness, lines, direct, budget=2000):
    blines = [l.encode('ascii') for l in lines]
    with harness.Box(budget=budget) as box:
        if direct is None:
            return box.run(blines, budget=budget)
        box.ex(b'NEW')
        box.enter(blines)
        return box.ex(direct.encode('ascii'), budget)


def _directed(res):
    from .. import harness
    for key, lines, direct, expected in DIRECTED:
        res.case(('directed', tuple(lines), direct))
        res.count('directed_cases')
        case = {'lines': lines, 'direct': direct}
        try:
            out = _run_text(harness, lines, direct)
        except harness.Internal as e:
            res.violation(e.key, str(e), case)
            continue
        if direct is not None and b' 65535 ' in out:
            res.count('direct_mode_handler_entered')
        if out != expected:
            case.update(output=out, expected=expected)
            res.violation('directed:' + key, 'program %r%s printed %r, reference semantics give %r' % (
                lines, (' + direct line %r' % direct) if direct else '', out, expected), case)
    res.sample({'kind': 'directed', 'program': DIRECTED[1][1], 'expected': DIRECTED[1][3]})


def _table(res):
    """ERROR n for every n in 1..255: message + line when untrapped; ERR = n, ERL = line when trapped."""
    from .. import harness
    bad_msg, bad_err = [], []
    with harness.Box(budget=5000) as box:
        for n in range(1, 256):
            try:
                out = box.run([b'10 PRINT "a"', b'20 PRINT "b":ERROR %d:PRINT "no"' % n], budget=100)
            except harness.Internal as e:
                res.violation(e.key, str(e), {'n': n})
                continue
            exp = b'a\r\nb\r\n' + M.message(n) + b' in 20' + E
            if out != exp:
                bad_msg.append((n, out, exp))
            res.count('error_table_codes')
        for n, out, exp in bad_msg:
            res.violation('table:untrapped-message:%s' % ('defined-code' if n in M.MESSAGES else 'undefined-code'),
                          'ERROR %d untrapped printed %r, expected %r' % (n, out, exp), {'n': n})
        prog = [b'10 ON ERROR GOTO 100', b'20 FOR N%=1 TO 255', b'30 PRINT "t":ERROR N%:PRINT "u"', b'40 NEXT', b'50 PRINT "end":END',
                b'100 PRINT ERR;ERL:RESUME NEXT']
        try:
            out = box.run(prog, budget=3000)
        except harness.Internal as e:
            res.violation(e.key, str(e), {'program': prog})
            out = None
        if out is not None:
            exp = b''.join(b't\r\n %d  30 \r\nu\r\n' % n for n in range(1, 256)) + b'end\r\n'
            if out != exp:
                p = 0
                while p < min(len(out), len(exp)) and out[p] == exp[p]:
                    p += 1
                res.violation('table:trapped-err-value', 'ERR/ERL sweep over ERROR 1..255 differs at offset %d: got %r expected %r'
                              % (p, out[max(0, p - 30):p + 40], exp[max(0, p - 30):p + 40]), {'program': prog})
        # statements cut short, at the end of a line / before a colon / as the last line of the program,
        # untrapped and trapped: the message and ERL name the line the statement stands on
        nsyn = 0
        for text, code in G.SYNTAX_FAULTS + G.SYNTAX_FAULTS_STRUCTURAL:
            msg = M.message(code)
            forms = [
                ('end-of-line', ['10 PRINT "a"', '20 %s' % text, '30 PRINT "b"'], b'a\r\n' + msg + b' in 20' + E, b'a\r\nh %d  20 \r\nb\r\n' % code),
                ('end-of-line-after-statement', ['10 PRINT "a"', '20 PRINT "c":%s' % text, '30 PRINT "b"'],
                 b'a\r\nc\r\n' + msg + b' in 20' + E, b'a\r\nc\r\nh %d  20 \r\nb\r\n' % code),
                ('before-colon', ['10 PRINT "a"', '20 %s:PRINT "c"' % text, '30 PRINT "b"'], b'a\r\n' + msg + b' in 20' + E,
                 b'a\r\nh %d  20 \r\nc\r\nb\r\n' % code),
                ('last-line-of-program', ['10 PRINT "a"', '20 %s' % text], b'a\r\n' + msg + b' in 20' + E, b'a\r\nh %d  20 \r\n' % code),
            ]
            for name, lines, untrapped, trapped in forms:
                for exp, sprog in ((untrapped, lines), (trapped, ['5 ON ERROR GOTO 100', '15 GOTO 20'] + lines[:-1] +
                                                       [lines[-1], '40 END', '100 PRINT "h";ERR;ERL:RESUME NEXT'])):
                    if name == 'last-line-of-program' and exp is trapped:
                        # the failing statement is the last one of the program text: the handler stands in front of it
                        sprog = ['5 ON ERROR GOTO 8', '6 GOTO 10', '8 PRINT "h";ERR;ERL:RESUME NEXT'] + lines
                    try:
                        out = box.run([l.encode('ascii') for l in sprog], budget=100)
                    except harness.Internal as e:
                        res.violation(e.key, str(e), {'program': sprog})
                        continue
                    nsyn += 1
                    if out != exp:
                        res.violation('syntax-table:%s:%s' % (name, 'trapped-err-erl' if exp is trapped else 'untrapped-message-line'),
                                      'program %r printed %r, expected %r' % (sprog, out, exp), {'program': sprog})
        res.count('syntax_table_programs', nsyn)
    res.bulk(2 * 255 + nsyn, 2 * 255 + nsyn)
    res.sample({'kind': 'table', 'untrapped': '10 PRINT "a" / 20 PRINT "b":ERROR n:PRINT "no" for n=1..255',
                'trapped': [l.decode() for l in prog]})


def _raised(m):
    return any(k.startswith(('trap', 'fatal')) for k in m.counts)


def run_shard(spec, res):
    if spec['kind'] == 'directed':
        return _directed(res)
    if spec['kind'] == 'table':
        return _table(res)
    from .. import harness
    rng = random.Random('%s:C21:%s:%s' % (spec['seed'], spec['kind'], spec.get('part', 0)))
    codes = set()
    for i in range(spec['n']):
        prog = G.gen_c21(rng)
        for name, n in prog['features'].items():
            res.count('gen_' + name, n)
        v = _c19.run_and_judge(prog, BUDGET, res, harness, nontrivial=_raised, per_code=False)
        if v is not None and v.machine is not None and prog.get('direct') and any(k.startswith('trap') for k in v.machine.counts):
            res.count('direct_mode_handler_entered')
        if v is not None and v.machine is not None:
            for k in v.machine.counts:
                if k.startswith('trap:err'):
                    codes.add(k)
        if i < 1 and spec.get('part', 0) < 3:
            lines, direct = G.to_basic(prog)
            res.sample({'kind': 'random', 'program': lines[:30], 'direct': direct,
                        'reference_trace_head': bytes(v.machine.out[:200]) if v and v.machine else None})
    res.maxc('max_distinct_error_codes_trapped_in_one_shard', len(codes))
