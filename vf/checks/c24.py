"""
C24 Sequential files return what was written.

Oracle: R-FILE sequential item model (vf.models.c24_seqfile) + independent host read-back.
BASIC statements run in a real sandboxed Session against a native mount (C: = box.mount);
the host file is read with plain Python I/O after every CLOSE.

  write classes : WRITE #n items (strings / integers / singles / doubles) in one OUTPUT session and
                  0-2 APPEND sessions, then OPEN FOR INPUT and INPUT #n in a different grouping
  lines classes : PRINT #n of lines - single items or assembled from several items (';' / ',' separators, ';' at
                  the end of a statement, totals around and far beyond 255, with and without WIDTH #n) - then
                  LINE INPUT #n (direct statements or a stored WHILE NOT EOF loop)
  configurations: default, soft_linefeed=True (CR / LF inside quoted fields), textfile_encoding='utf-8'
"""
import os
import random

from ..models import rnum
from ..models import c24_seqfile as M

META = {
    'property_id': 'C24',
    'technique': 'reference item/byte-image model of sequential files + host read-back, over seeded WRITE#/PRINT#/APPEND histories',
    'level': 'exploration',
    'level_text': (
        'Runtime oracle on a native mount: after WRITE # the host file must be the quoted/comma/CRLF image of the items '
        '(strings exact; number texts are extracted), INPUT # must return every string unchanged and every number within '
        'one unit in the last place of the exact decimal value of its written text (exact for integers) and equal to what '
        'the interpreter\'s own VAL gives for that text; PRINT # lines - also lines assembled from several items with ; and , and across statements, totals 254..260, 300, 600 and beyond, with and without WIDTH #n - '
        'must give exactly the model image in the host file and come back through LINE INPUT # (in 255-character pieces when longer); '
        'EOF(n) must be 0 before every item and -1 after the last one (also for empty files); LOF(n) must equal '
        'os.path.getsize for INPUT/APPEND opens and the final-image offset of the last statement while writing; an APPEND '
        'session must leave the previous content as a byte-for-byte prefix. Directed boundary core (every allowed byte alone / '
        'leading / trailing, lengths 0,1,254,255, blanks, commas, empty file, append to empty) in both tiers.'),
    'level_note': (
        'Trusted: Python file I/O, Session.set_variable/get_variable for strings, MKI$/MKS$/MKD$ as byte copies. '
        'Not pinned by the statement and therefore not tested: CR and LF in strings under the default configuration '
        '(input translates line ends; they are tested inside quoted fields with soft_linefeed=True only), NUL / 0x1A / quote '
        'in strings, NUL in PRINT# lines, numbers whose text lies outside the representable range (exponent bytes 1-2 and '
        '254-255 are not generated), reading a number into a narrower type, unquoted strings written by PRINT # and read by '
        'INPUT #, LOF while writing under textfile_encoding (BOM / transcoding). For a double variable reading a text of at '
        'most 7 significant digits without D exponent both the single- and the double-precision reading of the literal are '
        'accepted (1 single ulp). The trailing 0x1A end-of-file byte is accepted present or absent.'),
    'rule': ('case = one file history (configuration, sessions with modes, statements with items, read grouping); distinct by the '
             'full expanded history; non-trivial = at least one item or an APPEND session (empty files are counted trivial '
             'except in the directed core)'),
    'design_ref': 'DESIGN.md section 4 C24',
    'assumptions': ['host file I/O through Python is correct', 'WRITE# image = quoted strings, comma separators, CR LF (GW-BASIC manual)'],
    'require_counters': {'any': ['joined_lines_longer_than_255', 'lines_continued_across_statements', 'sessions_with_explicit_width', 'long_line_pieces_read', 'eof_checks', 'appended_sessions', 'strings_read', 'numbers_read', 'lines_read', 'lof_checks']},
    'timeout': {'quick': 900, 'thorough': 10800},
}

CONFIGS = {
    'default': {},
    'softlf': {'soft_linefeed': True},
    'utf8': {'textfile_encoding': 'utf-8'},
}


# ---------------------------------------------------------------------------------------
# plan

def plan(tier, seed):
    shards = [{'kind': 'directed', 'part': 0}, {'kind': 'directed', 'part': 1}]
    if tier == 'quick':
        n = 300
        reps = {'write_default': 4, 'lines_default': 2, 'write_softlf': 2, 'write_utf8': 2, 'lines_utf8': 1, 'lines_softlf': 1}
    else:
        n = 2500
        reps = {'write_default': 16, 'lines_default': 6, 'write_softlf': 6, 'write_utf8': 6, 'lines_utf8': 3, 'lines_softlf': 3}
    for kind, k in reps.items():
        for i in range(k):
            shards.append({'kind': kind, 'part': i, 'n': n if kind.startswith('write') else int(n * 1.6)})
    return shards


# ---------------------------------------------------------------------------------------
# generators

def _rand_string(rng, alphabet, allow255):
    r = rng.random()
    if r < 0.08:
        n = 0
    elif r < 0.16:
        n = 1
    elif r < 0.22:
        n = 254
    elif r < 0.25 and allow255:
        n = 255
    elif r < 0.75:
        n = rng.randint(2, 20)
    else:
        n = rng.randint(21, 253)
    style = rng.random()
    if style < 0.35:
        body = bytes(rng.choice(alphabet) for _ in range(n))
    elif style < 0.6:
        # printable text with blanks and commas
        pool = b'abcXYZ019 ,;:  ,,'
        body = bytes(rng.choice(pool) for _ in range(n))
    elif style < 0.8:
        body = bytes(rng.choice(alphabet) for _ in range(n))
        # leading / trailing blanks
        k1, k2 = rng.randint(0, 3), rng.randint(0, 3)
        body = (b' ' * k1 + body + b' ' * k2)[:n] if n else body
        if n and rng.random() < 0.5:
            body = body[:-1] + b' '
    else:
        # hostile separators: commas, blanks, control bytes, high bytes
        pool = bytes(b for b in b', \t\x01\x7f\xff\x80\x1b\x0b\x0c\x08' if b in alphabet) + b',, '
        if 0x0a in alphabet:
            pool += b'\n\n\r'
        body = bytes(rng.choice(pool) for _ in range(n))
    return body


def _rand_number(rng):
    """Returns (type char, how, payload). how: 'bits' (CVS/CVD of payload bytes), 'int', 'lit' (literal text)."""
    t = rng.choice('%!#')
    if t == '%':
        v = rng.choice([0, 1, -1, 32767, -32768, 10, -10, 100]) if rng.random() < 0.2 else rng.randint(-32768, 32767)
        return ('%', 'int', v)
    if rng.random() < 0.35:
        # "nice" values: short texts, integer-valued floats, decimal fractions
        k = rng.random()
        if t == '!':
            if k < 0.4:
                txt = '%d!' % rng.randint(-9999999, 9999999)
            elif k < 0.8:
                txt = '%d.%0*d' % (rng.randint(-999, 999), rng.randint(1, 3), rng.randint(0, 999))
                txt = txt[:8] + '!'
            else:
                txt = '%dE%+d' % (rng.randint(1, 9999999), rng.randint(-30, 30))
        else:
            if k < 0.3:
                txt = '%d#' % rng.randint(-10 ** 16, 10 ** 16)
            elif k < 0.6:
                txt = '%d.%d#' % (rng.randint(-99999, 99999), rng.randint(0, 99999))
            elif k < 0.8:
                txt = rng.choice(['.1#', '1.5#', '0#', '.5#', '100000#', '.001#', '1234567#', '12345678#', '-.25#', '1#'])
            else:
                txt = '%dD%+d' % (rng.randint(1, 10 ** 15), rng.randint(-30, 20))
        return (t, 'lit', txt)
    # random bit pattern; exponent byte kept inside 3..253 so that the text is representable
    e = rng.randint(3, 253) if rng.random() < 0.5 else rng.randint(96, 190)
    if t == '!':
        m = rng.getrandbits(24) if rng.random() < 0.85 else rng.choice([0, 0x7fffff, 0x800000, 0xffffff, 0x400000])
        return ('!', 'bits', m.to_bytes(3, 'little') + bytes([e]))
    m = rng.getrandbits(56) if rng.random() < 0.85 else rng.choice([0, (1 << 55) - 1, 1 << 55, (1 << 56) - 1])
    return ('#', 'bits', m.to_bytes(7, 'little') + bytes([e]))


def gen_write_history(rng, cfg):
    alphabet = M.ALPHABET_CRLF if cfg == 'softlf' else M.ALPHABET_PLAIN
    allow255 = rng.random() < 0.12
    nsess = rng.choice([1, 1, 2, 2, 3])
    sessions = []
    for si in range(nsess):
        nst = rng.choice([0, 1, 1, 2, 3, 4, 6]) if si else rng.choice([0, 1, 2, 3, 4, 6, 8])
        stmts = []
        for _ in range(nst):
            items = []
            for _ in range(rng.choice([1, 1, 2, 3, 4, 5])):
                if rng.random() < 0.55:
                    items.append(('s', _rand_string(rng, alphabet, allow255)))
                else:
                    items.append(_rand_number(rng))
            stmts.append(items)
        sessions.append({'mode': 'O' if si == 0 else 'A', 'stmts': stmts,
                         'lof_at': sorted(set(rng.randrange(nst) for _ in range(2))) if nst else []})
    if rng.random() < 0.12:
        # APPEND to a file that does not exist yet
        sessions[0]['mode'] = 'A'
    return {
        'cls': 'write', 'cfg': cfg, 'name': _rand_name(rng), 'wnum': rng.randint(1, 3), 'rnum': rng.randint(1, 3),
        'sessions': sessions, 'group_seed': rng.getrandbits(30),
    }


PRINTABLE = bytes(range(0x20, 0x7f))


def _split_total(rng, total, nitems, maxitem=255):
    """nitems lengths (each <= maxitem) adding up to total."""
    nitems = max(nitems, -(-total // maxitem))
    cuts = sorted(rng.randint(0, total) for _ in range(nitems - 1))
    lens = [b - a for a, b in zip([0] + cuts, cuts + [total])]
    while max(lens) > maxitem:
        i = lens.index(max(lens))
        j = lens.index(min(lens))
        move = lens[i] - maxitem
        lens[i] -= move
        lens[j] += move
    return lens


def _joined_build(rng, alphabet, width):
    """One logical line assembled from several PRINT# items (';' / ',' separators, ';' at the end of a statement)."""
    if width:
        nitems = rng.randint(2, 6)
        lens = [rng.choice([0, 1, width // 3, width // 2, width - 1, width, rng.randint(0, width)]) for _ in range(nitems)]
        alphabet = PRINTABLE
        commas = False
    else:
        total = rng.choice([254, 255, 256, 257, 258, 259, 260, 300, 510, 511, 600, rng.randint(2, 253), rng.randint(2, 253), rng.randint(256, 700)])
        commas = total < 150 and rng.random() < 0.5
        if commas:
            alphabet = PRINTABLE
        lens = _split_total(rng, total, rng.randint(2, 5))
    items = [bytes(rng.choice(alphabet) for _ in range(k)) for k in lens]
    build, stmt = [], []
    for j, it in enumerate(items):
        last = j == len(items) - 1
        if last:
            stmt.append([it, ''])
            build.append(stmt)
        elif rng.random() < 0.3:
            # the statement ends in ';' and the line goes on in the next PRINT#
            stmt.append([it, ';'])
            build.append(stmt)
            stmt = []
        else:
            stmt.append([it, ',' if commas and rng.random() < 0.5 else ';'])
    return build


def gen_lines_history(rng, cfg):
    allow255 = rng.random() < 0.1
    nsess = rng.choice([1, 1, 2, 3])
    sessions = []
    prev255 = False
    for si in range(nsess):
        nl = rng.choice([0, 1, 2, 3, 5, 8, 12])
        width = rng.choice([20, 40, 64, 80, 100, 120]) if rng.random() < 0.15 else None
        lines = []
        for _ in range(nl):
            if rng.random() < (0.6 if width else 0.3):
                l = _joined_build(rng, M.ALPHABET_LINE, width)
            else:
                l = _rand_string(rng, PRINTABLE if width else M.ALPHABET_LINE, allow255)
                if rng.random() < 0.15:
                    l = (b'"' + l)[:254]
                if width:
                    l = l[:width]
            # keep literal / deviation distinguishable: no empty physical line right after one ending on a 255-character piece
            phys = M.print_image([l], width).split(b'\r\n')[:-1]
            if any(not q for q in phys) and (prev255 or any(q and len(q) % 255 == 0 for q in phys)):
                l = b'x'
                phys = [l]
            prev255 = bool(phys[-1]) and len(phys[-1]) % 255 == 0
            lines.append(l)
        sess = {'mode': 'O' if si == 0 else 'A', 'lines': lines,
                'lof_at': sorted(set(rng.randrange(nl) for _ in range(2))) if nl else []}
        if width:
            sess['width'] = width
        sessions.append(sess)
    return {
        'cls': 'lines', 'cfg': cfg, 'name': _rand_name(rng), 'wnum': rng.randint(1, 3), 'rnum': rng.randint(1, 3),
        'sessions': sessions, 'loop': rng.random() < 0.3,
    }


def _rand_name(rng):
    stem = ''.join(rng.choice('ABCDEFGHIJKLMNOPQRSTUVWXYZ0123456789') for _ in range(rng.randint(1, 8)))
    if stem in ('AUX', 'CON', 'NUL', 'PRN', 'COM1', 'COM2', 'LPT1', 'LPT2', 'LPT3'):
        stem = 'F' + stem[:7]
    ext = ''.join(rng.choice('ABCDEFGHIJKLMNOPQRSTUVWXYZ0123456789') for _ in range(rng.randint(0, 3)))
    return stem + ('.' + ext if ext else '')


# ---------------------------------------------------------------------------------------
# execution helpers

class Stop(Exception):
    """Abandon the current history (a violation was reported or BASIC gave an unexpected error)."""


def _ok(box, res, cmd, case, what):
    """Execute a statement that must succeed silently."""
    from .. import harness
    out = box.ex(cmd)
    code, _ = harness.err_of(out)
    if code or out.strip():
        res.violation('stmt:unexpected-error:%s' % what,
                      '%r -> %r in a history where it must succeed' % (cmd, out), case)
        raise Stop()


def _int(box, expr):
    v = box.ev(expr)
    return v


def _host(box, name):
    try:
        with open(box.path(name), 'rb') as f:
            return f.read()
    except (IOError, OSError):
        return None


DEV_LINE255 = 'line-input:line-of-255-chars:terminator-left-unread'
DEV_CRLF = 'input:quoted-field-starting-with-CRLF:LF-lost'
KEY_Q255 = 'input:quoted-field-of-255-chars:closing-quote-left-unread'


def _mech(seen_items, default):
    """
    A quoted field of exactly 255 characters derailed the reader for the rest of the file (quote
    parity flips: fixed in /repo since), so the first deviating item is not the cause: a read-back
    deviation at or after such a field is keyed by that mechanism.
    """
    for it in seen_items:
        if it[0] == 's' and len(it[1]) == 255:
            return KEY_Q255
    return default


# ---------------------------------------------------------------------------------------
# WRITE # / INPUT #

def run_write_history(box, case, res, directed=False):
    name = case['name'].encode('ascii')
    wn, rn = case['wnum'], case['rnum']
    cfg = case['cfg']
    content = None        # model: content of the file without the end-of-file byte
    all_items = []
    all_texts = []
    nitems = sum(len(it) for s in case['sessions'] for it in s['stmts'])
    for si, sess in enumerate(case['sessions']):
        mode = b'OUTPUT' if sess['mode'] == 'O' else b'APPEND'
        _ok(box, res, b'OPEN "%s" FOR %s AS %d' % (name, mode, wn), case, 'open-' + mode.decode().lower())
        if sess['mode'] == 'A':
            res.count('appended_sessions')
            if cfg != 'utf8':
                lof = _int(box, b'LOF(%d)' % wn)
                size = os.path.getsize(box.path(case['name']))
                res.count('lof_checks')
                if lof != size:
                    res.violation('lof:append-open', 'LOF=%r after OPEN FOR APPEND, host file has %d bytes' % (lof, size), case)
                    raise Stop()
        else:
            content = None
            all_items, all_texts = [], []
        lofs = {}
        for k, items in enumerate(sess['stmts']):
            names = []
            for j, it in enumerate(items):
                if it[0] == 's':
                    v = 'S%d$' % j
                    box.set(v, it[1])
                    names.append(v.encode())
                elif it[1] == 'int':
                    v = 'I%d%%' % j
                    box.set(v, it[2])
                    names.append(v.encode())
                elif it[1] == 'lit':
                    names.append(it[2].encode('ascii'))
                else:
                    v = ('F%d!' if it[0] == '!' else 'D%d#') % j
                    box.set('T$', it[2])
                    _ok(box, res, b'%s=%s(T$)' % (v.encode(), b'CVS' if it[0] == '!' else b'CVD'), case, 'assign')
                    names.append(v.encode())
            _ok(box, res, b'WRITE #%d, %s' % (wn, b', '.join(names)), case, 'write')
            if k in sess['lof_at'] and cfg != 'utf8':
                lofs[k] = _int(box, b'LOF(%d)' % wn)
        _ok(box, res, b'CLOSE #%d' % wn, case, 'close')
        raw = _host(box, case['name'])
        if raw is None:
            res.violation('write:host-file-missing', 'no host file %r after CLOSE' % case['name'], case)
            raise Stop()
        if cfg == 'utf8':
            # only the read-back is pinned under transcoding
            content = raw
            for items in sess['stmts']:
                all_items.extend(items)
            continue
        new_content, had_eof = M.strip_eof(raw)
        res.count('eof_byte_present' if had_eof else 'eof_byte_absent')
        prev = content if (sess['mode'] == 'A' and content is not None) else b''
        if not new_content.startswith(prev):
            res.violation('append:existing-content-altered',
                          'after an APPEND session the previous %d content bytes are no longer a prefix of the file' % len(prev), case)
            raise Stop()
        added = new_content[len(prev):]
        try:
            texts, ends = M.parse_write_image(added, sess['stmts'])
        except M.ImageMismatch as e:
            res.violation('write:file-image:' + e.reason,
                          'bytes added by session %d are not the WRITE# image of its items (%s): %r' % (si, e, added[max(0, e.offset - 20):e.offset + 20]), case)
            raise Stop()
        for k, lof in lofs.items():
            res.count('lof_checks')
            if lof != len(prev) + ends[k]:
                res.violation('lof:while-writing', 'LOF=%r after statement %d of session %d; the file image has %d bytes up to there'
                              % (lof, k, si, len(prev) + ends[k]), case)
                raise Stop()
        content = new_content
        for items in sess['stmts']:
            all_items.extend(items)
        all_texts.extend(texts)
        for t in texts:
            try:
                rnum.parse_decimal(t)
            except (ValueError, ArithmeticError):
                res.violation('write:number-text-not-decimal', 'number written as %r' % t, case)
                raise Stop()
    # ---- read phase ------------------------------------------------------------------------
    _ok(box, res, b'OPEN "%s" FOR INPUT AS %d' % (name, rn), case, 'open-input')
    size = os.path.getsize(box.path(case['name']))
    lof = _int(box, b'LOF(%d)' % rn)
    res.count('lof_checks')
    if lof != size:
        res.violation('lof:input-open' + (':utf8' if cfg == 'utf8' else ''),
                      'LOF=%r after OPEN FOR INPUT, host file has %d bytes' % (lof, size), case)
        raise Stop()
    grng = random.Random(case['group_seed'])
    pos = 0
    ti = 0
    if cfg == 'utf8':
        all_texts = None
    while pos < len(all_items):
        g = grng.choice([1, 1, 1, 2, 3, 4])
        group = all_items[pos:pos + g]
        e = _int(box, b'EOF(%d)' % rn)
        res.count('eof_checks')
        if e != 0:
            res.violation(_mech(all_items[:pos + 6], 'eof:true-before-last-item'), 'EOF=%r with %d of %d items still unread' % (e, len(all_items) - pos, len(all_items)), case)
            raise Stop()
        names = []
        for j, it in enumerate(group):
            if it[0] == 's':
                names.append(b'R%d$' % j)
            else:
                rt = it[0]
                if it[0] == '%' and it[1] == 'int':
                    rt = grng.choice('%%%!#')      # widening read of an integer text is exact in any type
                names.append(('N%d%s' % (j, rt)).encode())
        from .. import harness
        out = box.ex(b'INPUT #%d, %s' % (rn, b', '.join(names)))
        code, _ = harness.err_of(out)
        if code or out.strip():
            res.violation(_mech(all_items[:pos + 6], 'input:error-on-existing-item'), 'INPUT# of items %d.. -> %r' % (pos, out), case)
            raise Stop()
        for j, it in enumerate(group):
            if it[0] == 's':
                got = box.get(names[j].decode())
                res.count('strings_read')
                if len(it[1]) == 255:
                    res.count('strings_255_read')
                if got != it[1] and it[1][:2] == b'\r\n' and got == b'\r' + it[1][2:]:
                    # exactly the recorded deviation: the LF of a leading CR LF is lost, everything else intact
                    res.violation(DEV_CRLF, 'item %d: wrote %r..., read %r...' % (pos + j, it[1][:12], got[:12]), case)
                elif got != it[1]:
                    res.violation(_mech(all_items[:pos + 6], 'input:string-differs'),
                                  'item %d: wrote %r (len %d), read %r (len %d)' % (pos + j, it[1][:40], len(it[1]), got[:40], len(got)), case)
                    raise Stop()
            else:
                res.count('numbers_read')
                rt = names[j][-1:]
                fn = {b'%': b'MKI$', b'!': b'MKS$', b'#': b'MKD$'}[rt]
                got = box.ev(fn + b'(' + names[j] + b')')
                if all_texts is None:
                    ti += 1
                    continue
                text = all_texts[ti]
                ti += 1
                x = rnum.parse_decimal(text)
                gv = rnum.decode(got)
                tol = M.number_tolerance(text, len(got), got)
                if abs(gv - x) > tol:
                    res.violation(_mech(all_items[:pos + 6], 'input:number-value-differs-from-written-text:%s' % {2: 'integer', 4: 'single', 8: 'double'}[len(got)]),
                                  'text %r read into %s gives %s (bytes %s): off by %.3g' % (text, names[j].decode(), float(gv), got.hex(), float(gv - x)), case)
                    raise Stop()
                box.set('T$', text)
                via = box.ev(fn + b'(VAL(T$))')
                if via != got:
                    res.violation(_mech(all_items[:pos + 6], 'input:number-differs-from-VAL-of-text'),
                                  'text %r: INPUT# gives %s, VAL gives %s' % (text, got.hex(), via.hex() if via else via), case)
                    raise Stop()
        pos += g
    e = _int(box, b'EOF(%d)' % rn)
    res.count('eof_checks')
    res.count('eof_true_seen' if e == -1 else 'eof_not_true_at_end')
    if e != -1:
        res.violation(_mech(all_items[:pos + 6], 'eof:false-after-last-item'), 'EOF=%r after all %d items were read' % (e, len(all_items)), case)
        raise Stop()
    _ok(box, res, b'CLOSE', case, 'close')
    res.count('files')
    res.maxc('max_items_per_file', len(all_items))


# ---------------------------------------------------------------------------------------
# PRINT # / LINE INPUT #

def run_lines_history(box, case, res):
    from .. import harness
    name = case['name'].encode('ascii')
    wn, rn = case['wnum'], case['rnum']
    cfg = case['cfg']
    content = None
    model_image = b''
    for si, sess in enumerate(case['sessions']):
        mode = b'OUTPUT' if sess['mode'] == 'O' else b'APPEND'
        _ok(box, res, b'OPEN "%s" FOR %s AS %d' % (name, mode, wn), case, 'open-' + mode.decode().lower())
        if sess['mode'] == 'A':
            res.count('appended_sessions')
            if cfg != 'utf8':
                lof = _int(box, b'LOF(%d)' % wn)
                size = os.path.getsize(box.path(case['name']))
                res.count('lof_checks')
                if lof != size:
                    res.violation('lof:append-open', 'LOF=%r after OPEN FOR APPEND, host file has %d bytes' % (lof, size), case)
                    raise Stop()
        else:
            content, model_image = None, b''
        lofs = {}
        width = sess.get('width')
        if width:
            _ok(box, res, b'WIDTH #%d, %d' % (wn, width), case, 'width')
            res.count('sessions_with_explicit_width')
        for k, l in enumerate(sess['lines']):
            build = M.as_build(l)
            total = sum(len(it) for st in build for it, _ in st)
            nitems = sum(len(st) for st in build)
            if nitems > 1:
                res.count('lines_built_from_several_items')
                if total > 255:
                    res.count('joined_lines_longer_than_255')
                if len(build) > 1:
                    res.count('lines_continued_across_statements')
            for st in build:
                if len(st) == 1 and not st[0][0] and st[0][1] == '' and k % 2:
                    _ok(box, res, b'PRINT #%d,' % wn, case, 'print')
                    continue
                parts = []
                for j, (item, sep) in enumerate(st):
                    box.set('V%d$' % j, item)
                    parts.append(b'V%d$' % j + sep.encode())
                _ok(box, res, b'PRINT #%d, %s' % (wn, b''.join(parts)), case, 'print')
            if k in sess['lof_at'] and cfg != 'utf8':
                lofs[k] = _int(box, b'LOF(%d)' % wn)
        _ok(box, res, b'CLOSE #%d' % wn, case, 'close')
        raw = _host(box, case['name'])
        if raw is None:
            res.violation('write:host-file-missing', 'no host file %r after CLOSE' % case['name'], case)
            raise Stop()
        want_added = M.print_image(sess['lines'], width)
        model_image += want_added
        if cfg == 'utf8':
            continue
        new_content, had_eof = M.strip_eof(raw)
        prev = content if (sess['mode'] == 'A' and content is not None) else b''
        if not new_content.startswith(prev):
            res.violation('append:existing-content-altered',
                          'after an APPEND session the previous %d content bytes are no longer a prefix of the file' % len(prev), case)
            raise Stop()
        added = new_content[len(prev):]
        if added != want_added:
            d = next((i for i in range(min(len(added), len(want_added))) if added[i] != want_added[i]), min(len(added), len(want_added)))
            joined = any(sum(len(st) for st in M.as_build(l)) > 1 for l in sess['lines'])
            res.violation('print:file-image' + (':lines-built-from-several-items' if joined else '') + (':explicit-width' if width else ''),
                          'bytes added by PRINT# session %d differ from the model image at offset %d (%d vs %d bytes): %r / %r'
                          % (si, d, len(added), len(want_added), added[max(0, d - 10):d + 10], want_added[max(0, d - 10):d + 10]), case)
            raise Stop()
        for k in lofs:
            off = len(prev) + len(M.print_image(sess['lines'][:k + 1], width))
            res.count('lof_checks')
            if lofs[k] != off:
                res.violation('lof:while-writing', 'LOF=%r after line %d of session %d; image has %d bytes up to there' % (lofs[k], k, si, off), case)
                raise Stop()
        content = new_content
    # ---- read phase ------------------------------------------------------------------------
    # Literal statement: every line comes back, EOF right after the last one.
    # Recorded deviation (GW-BASIC does the same, tests/basic/unsorted/LongLineInputCR): LINE INPUT# stops after
    # 255 characters and leaves the line terminator unread, so ONE empty line follows every 255-character line.
    # Exactly one of the two is accepted per 255-character line; anything else is a violation of its own.
    # A physical line longer than 255 characters (built from several PRINT# items) comes back in pieces of 255
    # characters (GW-BASIC line buffer, tests/basic/unsorted/LongLineInput); only the piece that ENDS a line can
    # leave a terminator unread.
    units = M.read_units(model_image)
    all_lines = [u[0] for u in units]
    ends255 = [u[1] and len(u[0]) == 255 for u in units]
    res.count('long_line_pieces_read', sum(1 for u in units if not u[1]))
    n = len(all_lines)
    if case.get('loop'):
        res.count('loop_reads')
        n255 = sum(1 for f in ends255 if f)
        prog = [
            b'10 DIM L$(%d)' % (n + n255 + 3),
            b'20 OPEN "%s" FOR INPUT AS %d' % (name, rn),
            b'30 N%=0',
            b'40 WHILE NOT EOF(%d)' % rn,
            b'50 LINE INPUT #%d, L$(N%%)' % rn,
            b'60 N%%=N%%+1: IF N%%>%d THEN 80' % (n + n255 + 2),
            b'70 WEND',
            b'80 CLOSE',
        ]
        out = box.run(prog, budget=20 * (n + n255 + 5) + 50)
        code, _ = harness.err_of(out)
        if code or out.strip():
            res.violation('line-input:error-in-eof-loop', 'reading loop -> %r' % out, case)
            raise Stop()
        got_n = box.get('N%')
        res.count('eof_checks', got_n + 1)
        dev_lines = []
        for l, f in zip(all_lines, ends255):
            dev_lines.append(l)
            if f:
                dev_lines.append(b'')
        if got_n == n or not n255:
            want, dev = all_lines, False
        else:
            want, dev = dev_lines, True
        if got_n != len(want):
            res.violation('eof:loop-item-count', 'WHILE NOT EOF loop read %d lines, %d were written' % (got_n, n), case)
            raise Stop()
        for k, l in enumerate(want):
            got = box.ev(b'L$(%d)' % k)
            res.count('lines_read')
            if got != l:
                res.violation('line-input:line-differs', 'line %d: wrote %r (len %d), read %r (len %d)' % (k, l[:40], len(l), got[:40], len(got)), case)
                raise Stop()
        if dev:
            res.violation(DEV_LINE255, 'WHILE NOT EOF loop read %d lines for %d written: one empty line after each of the %d lines ending on a 255-character piece'
                          % (got_n, n, n255), case)
        res.count('eof_true_seen')
        res.count('files')
        return
    _ok(box, res, b'OPEN "%s" FOR INPUT AS %d' % (name, rn), case, 'open-input')
    size = os.path.getsize(box.path(case['name']))
    lof = _int(box, b'LOF(%d)' % rn)
    res.count('lof_checks')
    if lof != size:
        res.violation('lof:input-open' + (':utf8' if cfg == 'utf8' else ''),
                      'LOF=%r after OPEN FOR INPUT, host file has %d bytes' % (lof, size), case)
        raise Stop()

    def read_line(k, check_eof=True):
        if check_eof:
            e = _int(box, b'EOF(%d)' % rn)
            res.count('eof_checks')
            if e != 0:
                res.violation('eof:true-before-last-item', 'EOF=%r with %d of %d lines unread' % (e, n - k, n), case)
                raise Stop()
        out = box.ex(b'LINE INPUT #%d, R$' % rn)
        code, _ = harness.err_of(out)
        if code or out.strip():
            res.violation('line-input:error-on-existing-line', 'LINE INPUT# of line %d -> %r' % (k, out), case)
            raise Stop()
        res.count('lines_read')
        return box.get('R$')

    pending = None
    for k, l in enumerate(all_lines):
        got = pending if pending is not None else read_line(k)
        pending = None
        if ends255[k]:
            res.count('lines_255_read')
        if got != l:
            res.violation('line-input:line-differs', 'line %d: wrote %r (len %d), read %r (len %d)' % (k, l[:40], len(l), got[:40], len(got)), case)
            raise Stop()
        if ends255[k]:
            if k + 1 < n:
                nxt = read_line(k + 1)
                if nxt == b'' and all_lines[k + 1] != b'':
                    res.violation(DEV_LINE255, 'an empty line was read after line %d (255 characters) and before the next written line' % k, case)
                else:
                    pending = nxt
            else:
                e = _int(box, b'EOF(%d)' % rn)
                res.count('eof_checks')
                if e == 0:
                    extra = read_line(k, check_eof=False)
                    if extra != b'':
                        res.violation('line-input:file-longer-than-written', 'after the last line: %r' % extra[:40], case)
                        raise Stop()
                    res.violation(DEV_LINE255, 'an empty line was read after the last line (255 characters) before EOF became true', case)
    e = _int(box, b'EOF(%d)' % rn)
    res.count('eof_checks')
    res.count('eof_true_seen' if e == -1 else 'eof_not_true_at_end')
    if e != -1:
        res.violation('eof:false-after-last-item', 'EOF=%r after all %d lines were read' % (e, n), case)
        raise Stop()
    _ok(box, res, b'CLOSE', case, 'close')
    res.count('files')


# ---------------------------------------------------------------------------------------
# directed core (seed independent)

def directed_cases(part):
    cases = []

    def wcase(cfg, sessions, name='D.DAT', gs=1):
        return {'cls': 'write', 'cfg': cfg, 'name': name, 'wnum': 1, 'rnum': 2, 'sessions': sessions, 'group_seed': gs}

    def sess(mode, stmts):
        return {'mode': mode, 'stmts': stmts, 'lof_at': list(range(len(stmts)))[:3]}

    def lcase(cfg, sessions, loop=False):
        return {'cls': 'lines', 'cfg': cfg, 'name': 'L.TXT', 'wnum': 1, 'rnum': 1, 'loop': loop,
                'sessions': [{'mode': m, 'lines': ls, 'lof_at': list(range(len(ls)))[:3]} for m, ls in sessions]}

    if part == 0:
        # every allowed byte: alone, leading, trailing, in the middle (default and utf-8 configuration)
        for cfg in ('default', 'utf8'):
            alph = M.ALPHABET_PLAIN
            for i in range(0, len(alph), 5):
                chunk = alph[i:i + 5]
                stmts = []
                for b in chunk:
                    c = bytes([b])
                    stmts.append([('s', c), ('s', c + b'x'), ('s', b'x' + c), ('s', b'a' + c + b'b')])
                cases.append(wcase(cfg, [sess('O', stmts)]))
        # CR / LF inside quoted fields, soft linefeed configuration
        stmts = [[('s', s)] for s in (b'a\nb', b'\nstart', b'end\n', b'a\rb', b'a\r\nb', b'\n', b'\r', b'\r\n', b'\n\r', b'a\n\rb', b',\n,', b' \n ')]
        cases.append(wcase('softlf', [sess('O', stmts)]))
        cases.append(wcase('softlf', [sess('O', stmts[:6]), sess('A', stmts[6:])]))
        # empty file, append to empty / missing file
        cases.append(wcase('default', [sess('O', [])]))
        cases.append(wcase('default', [sess('O', []), sess('A', [[('s', b'x')]])]))
        cases.append(wcase('default', [sess('A', [[('s', b'new')], [('%', 'int', 5)]])]))
        cases.append(wcase('default', [sess('O', [[('s', b'one')]]), sess('A', []), sess('A', [[('s', b'two')]])]))
        cases.append(wcase('utf8', [sess('O', [[('s', bytes(range(0x80, 0x100)))]]), sess('A', [[('s', bytes(range(0xb0, 0xe0)))]])]))
        # blanks, commas, empty strings, mixed with numbers
        stmts = [
            [('s', b''), ('s', b' '), ('s', b'  '), ('s', b',')],
            [('s', b' lead'), ('s', b'trail '), ('s', b' both '), ('s', b'a,b')],
            [('s', b',,'), ('%', 'int', -32768), ('s', b' , '), ('!', 'lit', '1.5')],
            [('#', 'lit', '.1#'), ('s', b''), ('#', 'lit', '12345678.9#'), ('s', b'')],
            [('!', 'lit', '1E+10'), ('!', 'lit', '100000!'), ('!', 'lit', '9999999!'), ('!', 'lit', '1E-10')],
            [('#', 'lit', '1D+20'), ('#', 'lit', '1#'), ('%', 'int', 0), ('%', 'int', 32767)],
            [('s', b'')],
        ]
        cases.append(wcase('default', [sess('O', stmts)]))
        cases.append(wcase('default', [sess('O', stmts[:3]), sess('A', stmts[3:5]), sess('A', stmts[5:])], gs=7))
        cases.append(wcase('softlf', [sess('O', stmts)], gs=3))
        cases.append(wcase('utf8', [sess('O', stmts[:4]), sess('A', stmts[4:])], gs=5))
    else:
        # field lengths around the 255 limit
        for n in (253, 254, 255):
            for cfg in ('default', 'softlf', 'utf8'):
                cases.append(wcase(cfg, [sess('O', [[('s', b'x' * n)], [('s', b'abc')]])]))
                cases.append(wcase(cfg, [sess('O', [[('s', b'q' * n), ('s', b'next'), ('%', 'int', 7)]])]))
                cases.append(wcase(cfg, [sess('O', [[('s', b'x' * n)]])]))
                cases.append(lcase(cfg, [('O', [b'x' * n, b'abc'])]))
                cases.append(lcase(cfg, [('O', [b'x' * n])]))
                cases.append(lcase(cfg, [('O', [b'y' * n, b'q', b'', b'z'])], loop=True))
        # line boundary cases
        base = [b'', b' ', b'  lead', b'trail  ', b'a,"b', b'"quoted"', b'\x01\t\x0b\x0c\x7f\xff\x80', b'', b'last']
        for cfg in ('default', 'softlf', 'utf8'):
            cases.append(lcase(cfg, [('O', base)]))
            cases.append(lcase(cfg, [('O', base[:4]), ('A', base[4:])]))
            cases.append(lcase(cfg, [('O', base)], loop=True))
            cases.append(lcase(cfg, [('O', [])]))
            cases.append(lcase(cfg, [('O', []), ('A', [b'x'])]))
            cases.append(lcase(cfg, [('O', [b''])]))
            cases.append(lcase(cfg, [('O', [b'', b''])], loop=True))
        # lines assembled from several PRINT# items: total lengths around and far beyond 255, ';' inside a statement and
        # at the end of a statement, ',' zones, with and without WIDTH #n
        def joined(total, nitems, split_at=(), sep=';'):
            lens = [total // nitems + (1 if i < total % nitems else 0) for i in range(nitems)]
            items = [bytes([0x41 + i]) * k for i, k in enumerate(lens)]
            build, stmt = [], []
            for j, it in enumerate(items):
                if j == len(items) - 1:
                    stmt.append([it, ''])
                    build.append(stmt)
                elif j in split_at:
                    stmt.append([it, ';'])
                    build.append(stmt)
                    stmt = []
                else:
                    stmt.append([it, sep])
            return build
        for cfg in ('default', 'softlf', 'utf8'):
            for total in (253, 254, 255, 256, 257, 258, 259, 260, 280, 300, 509, 510, 511, 600, 765):
                nit = max(2, -(-total // 250))
                cases.append({'cls': 'lines', 'cfg': cfg, 'name': 'J.TXT', 'wnum': 1, 'rnum': 2, 'loop': total % 2 == 0,
                              'sessions': [{'mode': 'O', 'lof_at': [0, 1, 2],
                                            'lines': [joined(total, nit), b'after', joined(total, nit + 1, split_at=(0,)), b'z']}]})
            cases.append({'cls': 'lines', 'cfg': cfg, 'name': 'J.TXT', 'wnum': 1, 'rnum': 2, 'loop': False,
                          'sessions': [{'mode': 'O', 'lof_at': [0], 'lines': [joined(280, 3)]},
                                       {'mode': 'A', 'lof_at': [0, 1], 'lines': [joined(600, 4, split_at=(1, 2)), joined(40, 4, sep=','), b'end']}]})
        for width in (20, 40, 80, 255):
            for total in (width - 1, width, width + 1, 2 * width, 3 * width + 5):
                cases.append({'cls': 'lines', 'cfg': 'default', 'name': 'W.TXT', 'wnum': 1, 'rnum': 1, 'loop': False,
                              'sessions': [{'mode': 'O', 'lof_at': [0, 1], 'width': width,
                                            'lines': [joined(min(total, 700), max(2, -(-total // width) + 1)), b'q',
                                                      joined(min(total, 700), 4, split_at=(0, 2))]}]})
        alph = M.ALPHABET_LINE
        for i in range(0, len(alph), 12):
            chunk = alph[i:i + 12]
            ls = []
            for b in chunk:
                c = bytes([b])
                ls += [c, c + b'x', b'x' + c]
            cases.append(lcase('default', [('O', ls)]))
    return cases


# ---------------------------------------------------------------------------------------

def _key(case):
    return repr(sorted(case.items()))


def _nontrivial(case):
    if len(case['sessions']) > 1:
        return True
    s = case['sessions'][0]
    return bool(s.get('stmts') or s.get('lines'))


def _run_cases(res, cases, directed=False):
    from .. import harness
    boxes = {}
    try:
        for i, case in enumerate(cases):
            cfg = case['cfg']
            box = boxes.get(cfg)
            if box is None:
                box = boxes[cfg] = harness.Box(budget=20000, **CONFIGS[cfg])
            res.case(_key(case), nontrivial=directed or _nontrivial(case))
            if i < 2:
                res.sample(case)
            try:
                if case['cls'] == 'write':
                    run_write_history(box, case, res, directed)
                else:
                    run_lines_history(box, case, res)
            except Stop:
                pass
            except harness.Internal as e:
                res.violation(e.key, str(e), case)
            except harness.error.BASICError as e:
                res.violation('api:variable-access-error', 'get/set_variable raised %r' % (e,), case)
            # leave the box clean: close files, remove the file
            try:
                box.ex(b'CLOSE')
                box.ex(b'NEW')
            except harness.Internal:
                box.close()
                boxes.pop(cfg, None)
                continue
            for f in os.listdir(box.mount):
                try:
                    os.remove(os.path.join(box.mount, f))
                except OSError:
                    pass
    finally:
        for b in boxes.values():
            b.close()


def run_shard(spec, res):
    kind = spec['kind']
    rng = random.Random('%s:C24:%s:%s' % (spec['seed'], kind, spec.get('part', 0)))
    if kind == 'directed':
        cases = directed_cases(spec['part'])
        res.count('directed_cases', len(cases))
        return _run_cases(res, cases, directed=True)
    cls, cfg = kind.split('_')
    cases = []
    for _ in range(spec['n']):
        cases.append(gen_write_history(rng, cfg) if cls == 'write' else gen_lines_history(rng, cfg))
    return _run_cases(res, cases)
