"""
C16 A protected program never discloses its text in direct mode.

Taint monitoring.  Generated programs carry random 8-letter MARKERS only inside REM text, ' comments and
DATA the program never reads (vf/gen/c16_prog.py): no execution can legitimately emit them.  A helper
session enters the program, records its RUN trace and SAVEs it ,P; the session under test
(hide_protected=True, own sandbox with C:, an LPT1 capture file and a CAS1 image) LOADs that file.
After EVERY direct-mode statement the monitor scans

    the statement's output, the text screen, every new/changed file under the sandbox root,
    every scalar and array variable (public API)

for >= 4 consecutive bytes of a marker.  Independently, the statements the property names - LIST, LLIST,
EDIT, SAVE (tokenised and ,A), PEEK (every address of the code area + samples of all segments), BSAVE,
MERGE, CHAIN MERGE, entering / replacing / deleting a program line - must each fail with error 5 (also
after ':' and, when the program left an ON ERROR handler active, as a trapped ERR=5 in direct mode);
SAVE ,P must succeed and its file must load back protected with the same trace; RUN must reproduce the
unprotected original's trace.
"""
import io
import os
import re
import random
import shutil
import tempfile
import time

from ..gen import c16_prog as pg

READ_KEY = 'disclosure:READ-in-direct-mode'

META = {
    'property_id': 'C16',
    'technique': 'taint-marker monitor over outputs, screen, files and variables after every direct-mode statement + error-class oracle',
    'level': 'exploration',
    'level_text': (
        'Runtime oracle on real sessions with hide_protected=True. Disclosure is decided by taint markers that no legitimate '
        'execution can emit, so a hit cannot be a false alarm in text channels. The error-5 oracle covers every statement the '
        'property names in all its syntactic forms, alone, after a colon, inside IF/FOR, and trapped by the program\'s own '
        'ON ERROR handler entered from direct mode; PEEK is tried at every address of the loaded program\'s code area in '
        'every program. A directed core of three fixed programs (plain, handler left active, syntax error line) with the '
        'complete statement tables runs in both tiers.'),
    'level_note': (
        'Trusted: harness; markers are only searched as >=4 consecutive bytes, so a leak that transforms the text (e.g. prints '
        'byte values as decimal numbers) is only seen through the dedicated PEEK image / error-5 oracle. Encrypted ,P files are '
        'not scanned (cipher text); they are checked by loading them back. Not pinned by the statement and therefore only '
        'taint-scanned, no outcome demanded: POKE/BLOAD/DELETE/RENUM/TRON/READ/file statements; SAVE to non-disk devices; whether '
        'LIST works after an unprotected program replaced the protected one. Line numbers and the program\'s own output/variables '
        'are not considered program text. EDIT and the syntax-error edit prompt only exist in the interactive loop and are driven '
        'through Session.interact with typed keys. Known literal-statement deviation kept under its own key: direct-mode READ '
        'returns the DATA items of a protected program (GW-BASIC does the same).'),
    'rule': ('case = (program text, direct-mode line, position in session); distinct by that triple; non-trivial = the line was '
             'executed against a loaded protected program and all four channels were scanned'),
    'design_ref': 'DESIGN.md section 4 C16',
    'assumptions': ['markers cannot be produced by any legitimate execution', 'error text of a direct statement identifies its error'],
    'exhaustive': {'quick': 'PEEK over every address of the code area of every generated program; every must-fail statement form of '
                            'the table on every program',
                   'thorough': 'same, on more programs'},
    'require_counters': {'any': ['must_fail_error5_seen', 'must_fail_trapped_error5_seen', 'peek_code_addresses_refused',
                                 'save_protected_roundtrips', 'run_traces_equal', 'edit_refused_interactive',
                                 'free_statements_scanned', 'files_scanned', 'variables_scanned', 'unprotected_list_shows_other_program',
                                 'chained_after_colon_refused']},
    'timeout': {'quick': 900, 'thorough': 10800},
}


def plan(tier, seed):
    shards = [{'kind': 'directed', 'part': 0}, {'kind': 'directed', 'part': 1}, {'kind': 'directed', 'part': 2}]
    if tier == 'quick':
        for i in range(16):
            shards.append({'kind': 'random', 'programs': 7, 'free': 110, 'part': i})
    else:
        for i in range(48):
            shards.append({'kind': 'random', 'programs': 50, 'free': 130, 'part': i})
    return shards


# ------------------------------------------------------------------------------------------------------------

class Taint(object):
    def __init__(self, markers):
        self.grams = []
        for m in markers:
            b = m.encode('ascii')
            for i in range(len(b) - 3):
                self.grams.append(b[i:i + 4])

    def hit(self, data):
        if not data:
            return None
        for g in self.grams:
            if g in data:
                return g
        return None

    def all_hits(self, data):
        return set(g for g in self.grams if g in data) if data else set()


def make_sandbox():
    root = tempfile.mkdtemp(prefix='vfbox_')
    os.makedirs(os.path.join(root, 'c'))
    return root


def open_box(harness, root, budget=20000):
    return harness.Box(
        root=root, budget=budget, hide_protected=True,
        mounts={'C': os.path.join(root, 'c'), 'Z': None, 'LPT1': 'FILE:' + os.path.join(root, 'lpt1.out'),
                'CAS1': 'CAS:' + os.path.join(root, 'tape.cas')})


class Helper(object):
    """Unprotected side: reference trace, ,P file, other program files, BLOAD image of a zero flag byte."""

    def __init__(self, harness, prog, other):
        self.files = {}
        with harness.Box(budget=20000) as box:
            box.enter(prog['lines'])
            self.trace = box.ex(b'RUN')
            box.ex(b'SAVE "PROT.BAS",P')
            box.ex(b'NEW')
            box.enter(other['lines'])
            self.other_trace = box.ex(b'RUN')
            box.ex(b'SAVE "OTHER.BAS"')
            box.ex(b'SAVE "OTHERA.ASC",A')
            box.ex(b'NEW')
            # image of the (zero) protection flag byte DS:1450 of an unprotected session, to be BLOADed over the flag
            box.ex(b'DEF SEG:BSAVE "FLAG.BIN",1450,1')
            for name in ('PROT.BAS', 'OTHER.BAS', 'OTHERA.ASC', 'FLAG.BIN'):
                with open(box.path(name), 'rb') as f:
                    self.files[name] = f.read()

    def install(self, root, names=None):
        for name, data in self.files.items():
            if names is None or name in names:
                with open(os.path.join(root, 'c', name), 'wb') as f:
                    f.write(data)


class Monitor(object):
    """The session under test + all channels."""

    def __init__(self, harness, res, box, root, prog, helper, rng):
        self.harness = harness
        self.res = res
        self.box = box
        self.root = root
        self.prog = prog
        self.helper = helper
        self.rng = rng
        self.taint = Taint(prog['markers'])
        self.text_taint = Taint([m for m in prog['markers'] if m not in prog['data_markers']])
        self.data_taint = Taint(prog['data_markers'])
        self.data_surfaced = set()
        self.snapshot = self._files()
        self.known_tainted = set()
        self.screen_known = set()
        self.cipher = helper.files['PROT.BAS']
        self.pos = 0
        mem = box.impl.memory
        self.ctx = {
            'k': 0, 'lines': list(prog['line_numbers']), 'dseg': mem.data_segment,
            'code_lo': mem.code_start, 'code_hi': mem.code_start + 10,
        }
        from pcbasic.basic.base import error
        self.BASICError = error.BASICError

    # -- observation ---------------------------------------------------------------------------------------
    def _files(self):
        try:
            stream = self.box.impl.files._devices[b'LPT1:'].stream
            stream.flush()
        except Exception:
            pass
        out = {}
        for dp, dn, fns in os.walk(self.root):
            for fn in fns:
                p = os.path.join(dp, fn)
                try:
                    with open(p, 'rb') as f:
                        out[os.path.relpath(p, self.root)] = f.read()
                except (IOError, OSError):
                    pass
        return out

    def handler_active(self):
        return bool(self.prog['handler']) and bool(self.box.impl.interpreter.on_error)

    def code_range(self):
        mem = self.box.impl.memory
        return mem.code_start, mem.var_start()

    def scan(self, focus, line, out, phase):
        """
        Scan all channels after a direct-mode line.

        Text markers (REM / comment text) can never surface legitimately: every new appearance is reported as
        'disclosure:<focus>'.  DATA markers can also travel through the DATA pointer (direct READ, or the program's own
        READ when it is entered with GOTO after the pointer moved) and then live on in variables: only the FIRST
        surfacing of each DATA marker is reported, under the key of that mechanism; later copies are consequences.
        Files are always scanned for both classes.
        """
        res = self.res
        focus = attribute(line, focus)
        case = {'program': self.prog['lines'], 'line': line, 'phase': phase, 'markers': self.prog['markers']}
        channels = [('output', out or b'')]
        try:
            rows = self.box.s.get_chars()
            screen = b'\n'.join(b''.join(r) for r in rows)
        except Exception:
            screen = b''
        channels.append(('screen', screen))
        # files
        now = self._files()
        nscanned = 0
        file_hits = []
        for name, data in now.items():
            if self.snapshot.get(name) == data:
                continue
            base = os.path.basename(name).upper()
            if base.startswith('SVP') or data == self.cipher or base == 'TAPE.CAS' and self.cipher[1:40] in data:
                continue                      # cipher text of SAVE ,P: judged by loading it back
            nscanned += 1
            old = self.snapshot.get(name)
            # an appended file: only the new tail is this statement's doing
            fresh = data[max(0, len(old) - 3):] if old and data.startswith(old) else data
            if self.taint.hit(fresh):
                file_hits.append(('file ' + name, fresh[:200]))
        self.snapshot = now
        res.count('files_scanned', nscanned)
        # variables
        nvars = 0
        try:
            impl = self.box.impl
            for name in list(impl.scalars):
                name = bytes(name)
                if name[0] >= 128:
                    continue
                nvars += 1
                if name[-1:] == b'$':
                    channels.append(('variable ' + name.decode('latin-1'), self.box.get(name)))
            for name in list(impl.arrays):
                name = bytes(name)
                nvars += 1
                v = self.box.get(name + b'()')
                flat = list(_flat(v))
                if name[-1:] == b'$':
                    blob = b'\0'.join(x for x in flat if isinstance(x, bytes))
                else:
                    blob = bytes(bytearray(int(x) for x in flat if isinstance(x, (int, float)) and 0 <= x <= 255 and int(x) == x))
                channels.append(('array ' + name.decode('latin-1'), blob))
        except self.harness.Internal as e:
            res.violation(e.key, str(e), case)
        res.count('variables_scanned', nvars)
        hits = []
        up = line.upper().replace(b'ON ERROR GOTO', b'')
        for channel, data in channels:
            if not data:
                continue
            # text markers: new = not yet seen in this channel with this content
            tg = self.text_taint.all_hits(data)
            if tg:
                ident = (channel, data) if channel != 'screen' else None
                if channel == 'screen':
                    newg = tg - self.screen_known
                    self.screen_known |= tg
                    if newg:
                        hits.append(('disclosure:%s' % focus, channel, sorted(newg)[0]))
                elif ident not in self.known_tainted:
                    self.known_tainted.add(ident)
                    hits.append(('disclosure:%s' % focus, channel, data[:300]))
            dg = self.data_taint.all_hits(data) - self.data_surfaced
            if dg:
                if b'READ' in up:
                    key = READ_KEY
                elif any(w in up for w in (b'GOTO', b'GOSUB', b'CONT', b'RUN')):
                    key = 'disclosure:DATA-read-by-program-entered-from-direct-mode'
                else:
                    key = 'disclosure:%s' % focus
                hits.append((key, channel, data[:300]))
        # every gram of a surfaced DATA marker counts as surfaced from now on
        for channel, data in channels:
            found = self.data_taint.all_hits(data) if data else ()
            if found:
                for m in self.prog['data_markers']:
                    mg = Taint([m]).grams
                    if set(mg) & found:
                        self.data_surfaced |= set(mg)
        for channel, what in file_hits:
            hits.append(('disclosure:%s' % focus, channel, what))
        for key, channel, what in hits:
            res.count('disclosures_seen')
            res.violation(key, 'after %r a marker of the protected program appears in %s: %r' % (line, channel, what),
                          dict(case, channel=channel))
        return hits

    def ex(self, line, focus, phase, budget=None):
        """Execute one direct-mode line, scan, count. Returns output (None if an internal error escaped)."""
        self.pos += 1
        try:
            out = self.box.ex(line, budget)
        except self.harness.Internal as e:
            self.res.violation(e.key, str(e), {'program': self.prog['lines'], 'line': line, 'phase': phase})
            return None
        self.res.case((b'\n'.join(self.prog['lines']), line, self.pos))
        self.scan(focus, line, out, phase)
        return out

    def evalx(self, text):
        impl = self.box.impl
        BE = self.BASICError

        def do():
            try:
                tokens = impl.tokeniser.tokenise_line(b'?' + text)
                tokens.read(2)
                val = impl.parser.parse_expression(tokens)
                return ('ok', val.to_value())
            except BE as e:
                return ('err', e.err)
        return self.harness.guarded(do)[1]

    def interact(self, keys, focus, phase):
        """Type keys into the interactive loop (needed for EDIT and the syntax-error edit prompt)."""
        box = self.box
        # the line editor reads the whole screen row: start from an empty screen
        self.ex(b'CLS', 'CLS', phase)
        buf = io.BytesIO()
        box.stepper.reset()
        box.keys(keys)
        box.impl.queues.inputs.put(self.harness.signals.Event(self.harness.signals.STREAM_CLOSED))
        box.s.add_pipes(output_streams=buf)
        try:
            self.harness.guarded(box.s.interact)
        except self.harness.Internal as e:
            self.res.violation(e.key, str(e), {'program': self.prog['lines'], 'keys': keys, 'phase': phase})
            return None
        finally:
            box.s.remove_pipes(output_streams=buf)
            # the closed-input flag only says that the typed text is used up
            box.impl.keyboard._input_closed = False
        out = buf.getvalue()
        self.pos += 1
        self.res.case((b'\n'.join(self.prog['lines']), keys.encode('latin-1'), self.pos))
        self.scan(focus, keys.encode('latin-1'), out, phase)
        return out

    # -- oracles -------------------------------------------------------------------------------------------
    def must_fail(self, focus, stmts, n_must, line, phase, chained=False):
        """Line consisting of safe statements and n_must statements that must each fail with error 5."""
        res = self.res
        trap = self.handler_active()
        out = self.ex(line, focus, phase)
        if out is None:
            return
        case = {'program': self.prog['lines'], 'line': line, 'phase': phase, 'output': out, 'handler_active': trap}
        code, _ = self.harness.err_of(out)
        # TRON prefixes and the wrap of a PRINT item that no longer fits on the screen row are layout, not content
        trapped = re.sub(br'\[\d+\]', b'', out).replace(b'\r\n', b'').count(b'#e 5  65535')
        if code == 5:
            res.count('must_fail_error5_seen')
            if chained:
                res.count('chained_after_colon_refused')
        elif trap and trapped >= n_must:
            res.count('must_fail_trapped_error5_seen', trapped)
            if chained:
                res.count('chained_after_colon_refused')
        else:
            res.violation('not-error-5:%s' % focus,
                          '%r did not fail with Illegal function call (handler %s): output %r'
                          % (line, 'active' if trap else 'off', out[:300]), case)

    def peek_sweep(self, phase, expect_refusal=True, extra=600):
        """PEEK through the expression API at every address of the code area + samples of the whole segment and others."""
        res = self.res
        lo, hi = self.code_range()
        image = bytearray()
        refused = 0
        leaks = 0
        addrs = list(range(lo, hi + 2))
        rng = self.rng
        sample = [rng.randrange(0, 65536) for _ in range(extra)] + [0, 1, 2, 3, 0x2c, 0x30, 0x31, 0x358, 0x359, 1450, 65535]
        for a in addrs + sample:
            try:
                r = self.evalx(b'PEEK(%d)' % a)
            except self.harness.Internal as e:
                res.violation(e.key, str(e), {'program': self.prog['lines'], 'peek': a})
                continue
            if r[0] == 'err' and r[1] == 5:
                refused += 1
            elif r[0] == 'ok':
                leaks += 1
                if a in range(lo, hi + 2):
                    while len(image) < a - lo:
                        image.append(0)
                    image.append(int(r[1]) & 255)
                if expect_refusal:
                    res.violation('not-error-5:PEEK', 'PEEK(%d) returned %r for a protected program in direct mode' % (a, r[1]),
                                  {'program': self.prog['lines'], 'peek': a, 'phase': phase})
            elif expect_refusal:
                res.violation('not-error-5:PEEK', 'PEEK(%d) raised %r instead of 5' % (a, r), {'program': self.prog['lines'], 'peek': a})
        res.bulk(len(addrs) + len(sample), len(addrs) + len(sample))
        if expect_refusal:
            res.count('peek_code_addresses_refused', min(refused, len(addrs)))
            res.count('peek_sample_addresses_refused', max(0, refused - len(addrs)))
        if self.taint.hit(bytes(image)):
            res.violation('disclosure:PEEK' if expect_refusal else 'disclosure:PEEK-after-%s' % phase,
                          'memory image read through PEEK contains a marker', {'program': self.prog['lines'], 'phase': phase})
        return image

    def other_segments(self, phase):
        """DEF SEG games: same absolute addresses through other segments, and unrelated segments."""
        lo, hi = self.code_range()
        rng = self.rng
        dseg = self.box.impl.memory.data_segment
        for _ in range(12):
            a = rng.randrange(lo, hi)
            absolute = dseg * 16 + a
            s = rng.randint(max(0, (absolute - 65535 + 15) // 16), absolute // 16)
            o = absolute - s * 16
            out = self.ex(b'DEF SEG=%d' % (s if s < 32768 else s - 65536), 'DEF-SEG', phase)
            for off in (o, o + 1, o + 2, o + 3):
                if off > 65535:
                    continue
                r = self.evalx(b'PEEK(%d)' % off)
                if r != ('err', 5):
                    self.res.violation('not-error-5:PEEK', 'DEF SEG=%d: PEEK(%d) gave %r' % (s, off, r),
                                       {'program': self.prog['lines'], 'segment': s, 'offset': off})
                else:
                    self.res.count('peek_other_segment_refused')
        for s in (0, 0x40, 0xB800, 0xA000, 0xC000, 0xF000, 0x1000, 0xFFFF):
            self.ex(b'DEF SEG=%d' % (s if s < 32768 else s - 65536), 'DEF-SEG', phase)
            for off in (0, 1, 1040, 1450, 0x500, 0xFA6E, 65535, rng.randrange(65536)):
                r = self.evalx(b'PEEK(%d)' % off)
                if r != ('err', 5):
                    self.res.violation('not-error-5:PEEK', 'DEF SEG=&H%X: PEEK(%d) gave %r' % (s, off, r),
                                       {'program': self.prog['lines'], 'segment': s, 'offset': off})
                else:
                    self.res.count('peek_other_segment_refused')
        self.ex(b'DEF SEG', 'DEF-SEG', phase)


PRIORITY = [(b'LLIST', 'LLIST'), (b'KEY LIST', None), (b'LIST', 'LIST'), (b'BSAVE', 'BSAVE'), (b'",A', 'SAVE-A'), (b'SAVE "CAS1', None),
            (b'SAVE "LPT1', None), (b'SAVE "SCRN', None), (b'",P', None), (b'SAVE', 'SAVE'), (b'PEEK', 'PEEK'),
            (b'CHAIN MERGE', 'CHAIN-MERGE'), (b'MERGE', 'MERGE'), (b'EDIT', 'EDIT'), (b'BLOAD', 'BLOAD'), (b'POKE', 'POKE')]


def attribute(line, focus):
    """In a chain of statements, blame the one that is able to read program text (stable mechanism keys)."""
    if focus.startswith(('AFTER-', 'TRANSITION-', 'EDIT', 'ENTER-', 'DELETE-', 'AUTO')):
        return focus
    up = line.upper()
    for pat, name in PRIORITY:
        if pat in up:
            if name is None:
                up = up.replace(pat, b'')
                continue
            return name
    return focus


def _flat(x):
    if isinstance(x, list):
        for y in x:
            for z in _flat(y):
                yield z
    else:
        yield x


# ------------------------------------------------------------------------------------------------------------

LOADERS = [b'LOAD "PROT.BAS"', b'LOAD "PROT"', b'RUN "PROT.BAS"', b'LOAD "PROT.BAS",R', b'CHAIN "PROT.BAS"']


def session(harness, res, rng, prog, other, spec, loader, n_free, full_tables, transition):
    helper = Helper(harness, prog, other)
    res.count('programs')
    root = make_sandbox()
    try:
        helper.install(root)
        with open_box(harness, root) as box:
            mon = Monitor(harness, res, box, root, prog, helper, rng)
            _session(harness, res, rng, mon, prog, other, helper, loader, n_free, full_tables, transition)
    finally:
        shutil.rmtree(root, ignore_errors=True)


def _check_trace(mon, out, phase):
    res = mon.res
    if out is None:
        return
    if out == mon.helper.trace:
        res.count('run_traces_equal')
    else:
        res.violation('run-trace-differs-from-unprotected-original',
                      'protected RUN gave %r, original gave %r' % (out[:300], mon.helper.trace[:300]),
                      {'program': mon.prog['lines'], 'phase': phase})


def _session(harness, res, rng, mon, prog, other, helper, loader, n_free, full_tables, transition):
    box = mon.box
    ctx = mon.ctx
    out = mon.ex(loader, 'LOAD', 'load')
    if out is None:
        return
    if loader.startswith((b'RUN', b'CHAIN')) or loader.endswith(b',R'):
        _check_trace(mon, out, 'load-and-run')
    elif harness.err_of(out)[0]:
        res.violation('load-protected-file-failed', '%r -> %r' % (loader, out), {'program': prog['lines']})
        return
    lo, hi = mon.code_range()
    ctx['code_lo'], ctx['code_hi'] = lo, max(lo + 1, hi)
    res.maxc('max_code_bytes', hi - lo)

    # ---- 1. the statements the property names, every form -----------------------------------------------
    def run_must_fail(templates, phase):
        for focus, text in templates:
            line = pg.fill(text, rng, ctx).encode('latin-1')
            entry = text[0] == '{'
            mon.must_fail(focus, [line], 1, line, phase)
            if entry:
                continue
            # after a colon, behind statements that cannot fail
            pre = rng.sample(pg.SAFE, rng.randint(1, 2))
            line2 = (':'.join(pre) + ':' + pg.fill(text, rng, ctx)).encode('latin-1')
            mon.must_fail(focus, [line2], 1, line2, phase, chained=True)
            if 'IF ' not in text and rng.random() < 0.5:
                wrap = rng.choice(['IF 1 THEN %s', 'IF 0 THEN X9=1 ELSE %s', 'FOR J9=1 TO 1:%s:NEXT', 'ON 1 GOSUB 8000:%s'])
                line3 = (wrap % pg.fill(text, rng, ctx)).encode('latin-1')
                mon.must_fail(focus, [line3], 1, line3, phase, chained=True)

    table = pg.MUST_FAIL if full_tables else rng.sample(pg.MUST_FAIL, 22) + pg.MUST_FAIL[:1] + pg.MUST_FAIL[18:19]
    run_must_fail(table, 'before-run')
    mon.peek_sweep('before-run', extra=(600 if full_tables else 150))

    # ---- 2. the program still runs exactly as its original -----------------------------------------------
    mon.ex(b'TROFF:CLS', 'CLS', 'run')
    out = mon.ex(b'RUN', 'RUN', 'run')
    _check_trace(mon, out, 'run')

    # ---- 3. with the program's own error handler left active: chains trapped from direct mode -----------
    if mon.handler_active():
        for focus, text in (pg.MUST_FAIL if full_tables else rng.sample(pg.MUST_FAIL, 14)):
            if text[0] == '{':
                continue
            a = pg.fill(text, rng, ctx)
            form = rng.randrange(4)
            if form == 0:
                line, n = 'ERROR %d:%s' % (rng.choice([5, 7, 11, 13, 53]), a), 1
            elif form == 1:
                f2, t2 = rng.choice([x for x in pg.MUST_FAIL if x[1][0] != '{'])
                line, n = '%s:%s' % (a, pg.fill(t2, rng, ctx)), 2
            elif form == 2:
                line, n = 'X9=1/0:%s:PRINT "z";' % a, 1
            else:
                line, n = '%s:%s:%s' % (rng.choice(pg.SAFE), a, rng.choice(pg.SAFE)), 1
            if len(line) > 250:
                continue
            mon.must_fail(focus, [line], n, line.encode('latin-1'), 'handler-active', chained=True)
        res.count('handler_active_sessions')
    run_must_fail(rng.sample(pg.MUST_FAIL, 10 if not full_tables else 20), 'after-run')

    # ---- 4. SAVE ,P succeeds; the file loads back protected and runs the same ----------------------------
    for focus, text in pg.MUST_SUCCEED:
        line = pg.fill(text, rng, ctx).encode('latin-1')
        out = mon.ex(line, focus, 'save-p')
        if out is None:
            continue
        name = 'SVP%d.BAS' % ctx['k']
        path = os.path.join(mon.root, 'c', name)
        if harness.err_of(out)[0] or (out.strip() and b'#e' in out) or not os.path.exists(path):
            res.violation('save-protected-failed', '%r -> %r (file %s exists: %s)' % (line, out, name, os.path.exists(path)),
                          {'program': prog['lines'], 'line': line})
            continue
        with open(path, 'rb') as f:
            data = f.read()
        _reload(harness, res, mon, data, prog)

    # ---- 5. everything else: taint scan only -----------------------------------------------------------------
    free = list(pg.FREE)
    for i in range(n_free):
        r = rng.random()
        if r < 0.2:
            # a must-fail statement behind free ones (the free ones may stop the line first: outcome not judged)
            f1, t1 = rng.choice(free)
            f2, t2 = rng.choice([x for x in pg.MUST_FAIL if x[1][0] != '{'])
            line = '%s:%s' % (pg.fill(t1, rng, ctx), pg.fill(t2, rng, ctx))
            focus = f1 if f1 == 'READ' else f2
        elif r < 0.45:
            f1, t1 = rng.choice(free)
            f2, t2 = rng.choice(free)
            line = '%s:%s' % (pg.fill(t1, rng, ctx), pg.fill(t2, rng, ctx))
            focus = 'READ' if 'READ' in (f1, f2) else f1
        else:
            focus, t1 = rng.choice(free)
            line = pg.fill(t1, rng, ctx)
        if len(line) > 250:
            continue
        out = mon.ex(line.encode('latin-1'), focus, 'free', budget=3000)
        res.count('free_statements_scanned')
        if out is not None and i % 25 == 24:
            # still protected, still the same program
            mon.must_fail('LIST', [b'LIST'], 1, b'LIST', 'free-recheck')
            mon.must_fail('SAVE-A', [b'SAVE "SVA0",A'], 1, b'SAVE "SVA0",A', 'free-recheck')
            r0 = mon.evalx(b'PEEK(%d)' % rng.randrange(ctx['code_lo'], ctx['code_hi']))
            if r0 != ('err', 5):
                res.violation('not-error-5:PEEK', 'after free statements PEEK gave %r' % (r0,), {'program': prog['lines']})
    mon.ex(b'ON ERROR GOTO 0', 'ON-ERROR', 'free')
    mon.ex(b'TROFF:CLOSE:DEF SEG:SCREEN 0:WIDTH 80:CLS', 'CLOSE', 'free')
    out = mon.ex(b'RUN', 'RUN', 'run-after-free')
    _check_trace(mon, out, 'run-after-free')
    mon.other_segments('segments')
    mon.peek_sweep('after-free', extra=100)

    # ---- 6. interactive loop: EDIT, typed lines, syntax-error edit prompt --------------------------------------
    mon.ex(b'ON ERROR GOTO 0:KEY OFF:CLS', 'ON-ERROR', 'interactive')
    marked = [int(l.split(b' ', 1)[0]) for l in prog['lines']]
    for ln in rng.sample(marked, min(len(marked), 6 if full_tables else 3)):
        out = mon.interact('EDIT %d\r' % ln, 'EDIT', 'interactive')
        if out is None:
            continue
        if b'Illegal function call' in out:
            res.count('edit_refused_interactive')
        else:
            res.violation('not-error-5:EDIT', 'typed EDIT %d -> %r' % (ln, out[:300]), {'program': prog['lines'], 'line': ln})
    out = mon.interact('LIST\r', 'LIST', 'interactive')
    if out is not None and b'Illegal function call' not in out:
        res.violation('not-error-5:LIST', 'typed LIST -> %r' % (out[:300],), {'program': prog['lines']})
    out = mon.interact('%d PRINT 1\r' % (marked[0] + 1), 'ENTER-LINE', 'interactive')
    if out is not None and b'Illegal function call' not in out:
        res.violation('not-error-5:ENTER-LINE', 'typed program line -> %r' % (out[:300],), {'program': prog['lines']})
    if prog['synerr_line'] and not prog['handler']:
        out = mon.interact('RUN\r', 'EDIT-PROMPT', 'interactive')
        if out is not None:
            if b'Syntax error in %d' % prog['synerr_line'] in out and b'Illegal function call' in out:
                res.count('syntax_error_edit_prompt_refused')
            else:
                res.violation('not-error-5:EDIT-PROMPT', 'RUN into the syntax error -> %r' % (out[-300:],), {'program': prog['lines']})

    # ---- 7. leaving protection: another program replaces the protected one --------------------------------------
    other_taint = Taint(other['markers'])
    if transition == 'modify':
        a, b = sorted(rng.sample(marked, 2))
        mon.ex(b'DELETE %d-%d' % (a, b), 'DELETE', 'modify')
        mon.ex(b'RENUM 100,1,3', 'RENUM', 'modify')
        mon.ex(b'RUN', 'RUN', 'modify', budget=3000)
        mon.ex(b'ON ERROR GOTO 0', 'ON-ERROR', 'modify')
        mon.must_fail('LIST', [b'LIST'], 1, b'LIST', 'modify')
        mon.must_fail('SAVE-A', [b'SAVE "SVA0",A'], 1, b'SAVE "SVA0",A', 'modify')
        mon.peek_sweep('modify', extra=50)
        out = mon.interact('AUTO\rPRINT 1\r\x03', 'AUTO', 'modify')
        return
    cmd = {'new': b'NEW', 'load-other': b'LOAD "OTHER.BAS"', 'chain-other': b'CHAIN "OTHER.BAS"', 'run-other': b'RUN "OTHER.BAS"',
           'load-ascii': b'LOAD "OTHERA.ASC"', 'load-tape': b'SAVE "CAS1:ZZ",P:LOAD "CAS1:ZZ"'}[transition]
    mon.ex(cmd, 'TRANSITION-' + transition, transition)
    if transition == 'load-tape':
        # still the protected program (round trip through the cassette image)
        mon.ex(b'ON ERROR GOTO 0', 'ON-ERROR', transition)
        mon.must_fail('LIST', [b'LIST'], 1, b'LIST', transition)
        return
    focus = 'AFTER-' + transition
    out = mon.ex(b'LIST', focus, transition)
    if out is not None and transition != 'new' and other_taint.hit(out):
        res.count('unprotected_list_shows_other_program')
    mon.ex(b'LIST ,"LST0.TXT"', focus, transition)
    mon.ex(b'SAVE "SVA0",A', focus, transition)
    mon.ex(b'SAVE "SVB0"', focus, transition)
    mon.ex(b'DEF SEG:BSAVE "MEM0.BIN",%d,%d' % (max(0, lo - 200), min(65535 - lo, (hi - lo) + 1500)), focus, transition)
    mon.ex(b'BSAVE "MEM1.BIN",0,65535', focus, transition)
    mon.ex(b'READ R5$:PRINT R5$', focus, transition)
    mon.ex(b'PRINT A$;B$;D0$;D1$', focus, transition)
    image = mon.peek_sweep(transition, expect_refusal=False, extra=300)
    res.count('unprotected_peek_bytes_read', len(image))
    # leftovers beyond the (shorter) new program: the old code area
    old_lo, old_hi = lo, hi
    blob = bytearray()
    for a in range(old_lo, old_hi + 2):
        r = mon.evalx(b'PEEK(%d)' % a)
        if r[0] == 'ok':
            blob.append(int(r[1]) & 255)
    if mon.taint.hit(bytes(blob)):
        res.violation('disclosure:PEEK-after-%s' % transition, 'old code area still holds a marker after %r' % (cmd,),
                      {'program': prog['lines'], 'transition': transition})


def _reload(harness, res, mon, data, prog):
    """A SAVE ,P file: loads back protected, LIST refused, same trace."""
    root = make_sandbox()
    try:
        with open(os.path.join(root, 'c', 'AGAIN.BAS'), 'wb') as f:
            f.write(data)
        with open_box(harness, root) as box2:
            try:
                o1 = box2.ex(b'LOAD "AGAIN.BAS"')
                o2 = box2.ex(b'LIST')
                o3 = box2.ex(b'RUN')
            except harness.Internal as e:
                res.violation(e.key, str(e), {'program': prog['lines'], 'phase': 'reload'})
                return
            if harness.err_of(o1)[0]:
                res.violation('save-protected:file-does-not-load', 'LOAD -> %r' % (o1,), {'program': prog['lines']})
            elif harness.err_of(o2)[0] != 5 or mon.taint.hit(o2):
                res.violation('save-protected:reloaded-program-not-protected', 'LIST -> %r' % (o2[:200],), {'program': prog['lines']})
            elif o3 != mon.helper.trace:
                res.violation('save-protected:reloaded-trace-differs', 'RUN -> %r, original %r' % (o3[:200], mon.helper.trace[:200]),
                              {'program': prog['lines']})
            else:
                res.count('save_protected_roundtrips')
    finally:
        shutil.rmtree(root, ignore_errors=True)


TRANSITIONS = ['new', 'load-other', 'chain-other', 'run-other', 'load-ascii', 'modify', 'load-tape']


def run_shard(spec, res):
    from .. import harness
    t0 = time.process_time()
    kind = spec['kind']
    if kind == 'directed':
        rng = random.Random('C16:directed:%d' % spec['part'])
        stop = pg.stop_grams()
        variant = [dict(handler=None, synerr=False), dict(handler='stays', synerr=False), dict(handler=None, synerr=True)][spec['part']]
        for ti, transition in enumerate(TRANSITIONS):
            prog = pg.make_program(rng, stop, nblocks=7, **variant)
            other = pg.other_program(rng, stop, prog['markers'])
            session(harness, res, rng, prog, other, spec, LOADERS[ti % len(LOADERS)], 60, ti < 2, transition)
            if ti == 0:
                res.sample({'program': prog['lines'], 'markers': prog['markers'], 'loader': LOADERS[0]})
    else:
        rng = random.Random('%s:C16:%s:%s' % (spec['seed'], kind, spec.get('part', 0)))
        stop = pg.stop_grams()
        for i in range(spec['programs']):
            handler = rng.choice([None, 'stays', 'stays', 'cleared'])
            prog = pg.make_program(rng, stop, handler=handler, synerr=(rng.random() < 0.25))
            other = pg.other_program(rng, stop, prog['markers'])
            session(harness, res, rng, prog, other, spec, rng.choice(LOADERS), spec['free'], False, rng.choice(TRANSITIONS))
            if i == 0:
                res.sample({'program': prog['lines'], 'markers': prog['markers']})
    res.count('cpu_seconds', int(round(time.process_time() - t0)))
