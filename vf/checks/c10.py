"""
C10 String variables keep their values through any memory history.

Oracle: R-MEM (vf/models/c10_rmem.py) against the real interpreter, one BASIC statement at a time
in one session per history.  After EVERY step all string scalars and array elements are read back
through the variable API and compared with the model (values, never addresses); FRE("") must equal
the model's accounting, FRE(0) must not exceed it; Out of string space / Out of memory are accepted
only when the model's free space cannot hold what the statement allocates; a failing step leaves the
model unchanged.  Collections are observed with a class-level wrapper of StringSpace.collect_garbage
(M-INV, vf/models/c10_minv.py) which also checks the string-space invariants after each collection
and at every statement boundary.
"""
import random

from ..models import c10_rmem as M

META = {
    'property_id': 'C10',
    'technique': 'reference-model monitor (dictionary model of string variables + byte budget) over statement-by-statement histories under tight CLEAR sizes; invariant hook on the collector',
    'level': 'exploration',
    'level_text': (
        'Runtime oracle: random and directed histories (50-400 statements; LET with concatenation / string functions / '
        'DEF FN calls, MID$=, LSET, RSET, SWAP, ERASE+DIM, set_variable, INSTR/LEN on temporaries, FRE) run in direct '
        'mode and from stored lines (so that strings point into the program text), with CLEAR ,n sizes leaving from 20 '
        'bytes to the default for strings. After every statement every live string variable / element is compared with '
        'the model; FRE("") with the byte budget; error 14 / 7 must be justified by the budget. Collections really seen '
        'are counted (hundreds per shard) and the string-space invariants are checked after each. Histories also survive '
        'statements that fail inside a memory-management section (CHAIN / CHAIN ALL / CHAIN MERGE to a missing file, with '
        'and without COMMON declarations, untrapped in direct mode and trapped by ON ERROR .. RESUME NEXT) and continue '
        'their string churn afterwards under the same oracle.'),
    'level_note': (
        'Trusted: the harness, get_variable for reading strings back, vf/models/c09_rstr.py for the function values. '
        'The budget takes "memory size minus program" from FRE("") measured right after CLEAR with nothing allocated, '
        'variable/array records from the GW-BASIC variable-table layout, and counts only strings that live in string '
        'space (a literal of a stored line costs nothing until modified in place). Only one direction of the error rule is '
        'pinned ("fails only when insufficient"): error 14/7 is refuted when the model free space exceeds everything the '
        'statement allocates (all intermediate results counted); a success is never refuted by the budget except through '
        'the FRE("") equality afterwards. Statements whose outcome would depend on unpinned order of checks (implicit '
        'array creation, undefined functions, same-string MID$ overlap) are skipped in the state where that would happen.'),
    'rule': ('case = (history id, step index, statement text); distinct by that triple; non-trivial = the statement was '
             'executed against a state with at least one non-empty live string (creation steps of the set-up are trivial)'),
    'design_ref': 'DESIGN.md section 4 C10',
    'assumptions': ['GW-BASIC variable table layout for the sizes of variable and array records',
                    'reference semantics of the string functions as in C09'],
    'require_counters': {'any': ['gc_seen', 'oss_errors_seen', 'oom_seen', 'fre_after_collection_checks', 'failed_chain_survived',
                                 'program_mode_steps', 'gc_during_fn_call_seen', 'values_compared_after_gc_steps']},
    'timeout': {'quick': 900, 'thorough': 10800},
}

BUDGETS = [20, 30, 45, 60, 90, 130, 200, 300, 500, 900, 2000, None]
LIT_ALPHA = b'abcdefghijklmnopqrstuvwxyz0123456789 .,-'


def plan(tier, seed):
    shards = [{'kind': 'directed', 'part': 0}]
    if tier == 'quick':
        for i in range(12):
            shards.append({'kind': 'history', 'n': 25, 'part': i})
    else:
        for i in range(48):
            shards.append({'kind': 'history', 'n': 125, 'part': i})
    return shards


# ---------------------------------------------------------------------------------------------
# running a history

class Failure(Exception):
    def __init__(self, key, what, step):
        Exception.__init__(self, key)
        self.key, self.what, self.step = key, what, step


class Counters(object):
    """Buffered counters so that shrink replays do not inflate the evidence."""

    def __init__(self):
        self.c = {}
        self.cases = []

    def count(self, name, n=1):
        self.c[name] = self.c.get(name, 0) + n

    def flush(self, res):
        for k, v in self.c.items():
            res.count(k, v)
        for key, nt in self.cases:
            res.case(key, nontrivial=nt)


def setup_steps(cfg):
    """Creation steps of a history (after CLEAR): scalars, N%, arrays, then the function definitions."""
    st = [('d', ('newvar', nm)) for nm in cfg['scalars']]
    st.append(('d', ('dim', 'P$', cfg['pbound'])))
    st.append(('d', ('dim', 'E$', cfg['ebound'])))
    st.append(('d', ('fre_s',)))
    for k in range(len(cfg['fns'])):
        st.append(('f', k))
    return st


def var_bytes_needed(cfg):
    n = sum(M.scalar_record(nm) for nm in cfg['scalars']) + M.scalar_record('N%') + M.scalar_record('K%')
    n += M.array_record('P$', (cfg['pbound'],)) + M.array_record('E$', (cfg['ebound'],))
    n += sum(M.scalar_record(fn[0][2:]) for fn in cfg['fns'])
    return n


class Run(object):
    """One history in one session."""

    def __init__(self, harness, minv, cfg, hid, counters):
        self.h, self.minv, self.cfg, self.hid, self.cnt = harness, minv, cfg, hid, counters
        self.box = harness.Box()
        self.mem = M.Mem()
        self.executed = []      # steps really executed (not skipped)
        self.texts = []
        self.notes = []         # mechanism notes of the invariant monitor

    def close(self):
        self.box.close()

    # -- plumbing --------------------------------------------------------------------------
    def _ex(self, text, step):
        try:
            return self.box.ex(text)
        except self.h.Internal as e:
            raise Failure(e.key, '%s while executing %r' % (str(e)[:300], text), step)

    def _number(self, text, step):
        out = self._ex(text, step)
        try:
            return [int(float(t)) for t in out.split()]
        except ValueError:
            raise Failure('fre:not-a-number', '%r printed %r' % (text, out), step)

    def prepare(self):
        cfg = self.cfg
        box = self.box
        self.fn_line = {}
        self.stored_line = {}
        if cfg.get('common'):
            # COMMON declarations (never executed by the histories; CHAIN gathers them from the program text)
            box.ex(b'5 COMMON A$,B$,P$(),N%')
        # a CHAIN to a file that does not exist, trapped by ON ERROR ... RESUME NEXT
        for l in (b'900 ON ERROR GOTO 930', b'910 CHAIN "NOSUCH.BAS"', b'920 ON ERROR GOTO 0:END', b'930 RESUME NEXT'):
            box.ex(l)
        line = 10
        for k, fn in enumerate(cfg['fns']):
            box.ex(b'%d ' % line + M.stmt_text(('deffn',) + tuple(fn)) + b':END')
            self.fn_line[k] = line
            line += 10
        line = 100
        for k, st in enumerate(cfg['stored']):
            box.ex(b'%d ' % line + M.stmt_text(st) + b':END')
            self.stored_line[k] = line
            line += 10
        if cfg['budget'] is not None:
            total = self._number(b'PRINT PEEK(&H2C)+256*PEEK(&H2D)', -1)[0]
            fd = self._number(b'PRINT FRE("")', -1)[0]
            target = var_bytes_needed(cfg) + cfg['budget']
            n = total - (fd - target)
            out = self._ex(b'CLEAR ,%d' % n, -1)
            if self.h.err_of(out)[0]:
                raise Failure('setup:clear-rejected', 'CLEAR ,%d -> %r' % (n, out), -1)
        self.mem.f0 = self._number(b'PRINT FRE("")', -1)[0]
        self._ex(b'N%=0:K%=0', -1)
        self.mem.ints['N%'] = 0
        self.mem.ints['K%'] = 0      # parameter variable of the functions with a numeric parameter
        self.mem.f0_after_n = self.mem.free()

    # -- one step -----------------------------------------------------------------------------
    def step(self, st, index):
        """Execute one step; returns False if skipped. Raises Failure."""
        mem, h = self.mem, self.h
        if st[0] == 'c':
            return self.failed_chain(st[1], index)
        if st[0] == 'd':
            stmt, mode = st[1], 'direct'
        elif st[0] == 'g':
            if st[1] not in self.stored_line:
                return False
            stmt, mode = self.cfg['stored'][st[1]], 'program'
        else:
            if st[1] not in self.fn_line:
                return False
            stmt, mode = ('deffn',) + tuple(self.cfg['fns'][st[1]]), 'program'
        try:
            pl = M.plan(mem, stmt, mode)
        except M.Skip:
            return False
        text = M.stmt_text(stmt)
        shown = text if mode == 'direct' else b'GOTO %d  {%s}' % (
            self.stored_line[st[1]] if st[0] == 'g' else self.fn_line[st[1]], text)
        self.executed.append(st)
        self.texts.append(shown)
        free_before = mem.free()
        before = mem.snapshot()
        nontrivial = mem.live_string_bytes() > 0
        gc0 = self.minv.STATE.gc_count
        # execute
        if stmt[0] == 'apiset':
            code = 0
            try:
                self.box.set(stmt[1], stmt[2])
            except h.Internal as e:
                raise Failure(e.key, '%s in set_variable' % e, index)
            except h.error.BASICError as e:
                code = e.err
            out = b''
        else:
            if mode == 'direct':
                out = self._ex(text, index)
            elif st[0] == 'g':
                out = self._ex(b'GOTO %d' % self.stored_line[st[1]], index)
            else:
                out = self._ex(b'GOTO %d' % self.fn_line[st[1]], index)
            code = h.err_of(out)[0]
        gcs = self.minv.STATE.gc_count - gc0
        cnt = self.cnt
        inv = self.take_invariants('after the statement')
        cnt.count('steps_executed')
        if mode == 'program':
            cnt.count('program_mode_steps')
        if gcs:
            cnt.count('gc_seen', gcs)
            cnt.count('values_compared_after_gc_steps')
        has_fn = b'FN' in text and stmt[0] != 'deffn'
        if has_fn:
            cnt.count('fn_calls_seen')
            if gcs:
                cnt.count('gc_during_fn_call_seen')
        cnt.cases.append(((self.hid, index, bytes(shown)), nontrivial))
        where = 'step %d %r (model free %d, statement allocates up to %d)' % (index, bytes(shown)[:120], free_before, pl.need)
        # classify the outcome
        if code == 0:
            if pl.expect != ('ok',):
                raise Failure('step:no-error-where-reference-raises:%s' % stmt[0],
                              '%s succeeded, reference raises error %d' % (where, pl.expect[1]), index)
            pl.commit()
        elif code == M.OOSS:
            cnt.count('oss_errors_seen')
            if free_before > pl.need:
                raise Failure('oss:raised-although-space-sufficient',
                              '%s raised Out of string space' % where, index)
        elif code == M.OOM and stmt[0] in ('dim', 'newvar', 'deffn'):
            cnt.count('oom_seen')
            if free_before > pl.need:
                raise Failure('oom:raised-although-space-sufficient', '%s raised Out of memory' % where, index)
            if stmt[0] == 'deffn':
                mem.fns.pop(stmt[1], None)      # whether the function is defined now is not pinned: never call it
        elif pl.expect == ('err', code):
            cnt.count({15: 'too_long_seen', 5: 'ifc_seen'}.get(code, 'other_expected_error_seen'))
        else:
            raise Failure('step:unexpected-error-class:%s' % stmt[0],
                          '%s -> error %d, reference %r' % (where, code, pl.expect), index)
        # FRE
        if pl.fre and code == 0:
            try:
                nums = [int(float(t)) for t in out.split()]
            except ValueError:
                nums = None
            if not nums or len(nums) != (2 if pl.fre == 'fre_both' else 1):
                raise Failure('fre:not-a-number', '%s printed %r' % (where, out), index)
            want = mem.free()
            if pl.fre in ('fre_s', 'fre_both', 'fre_v'):
                cnt.count('fre_after_collection_checks')
                if nums[0] != want:
                    raise Failure('fre:after-collection-differs-from-accounting' + (':string-variable-argument' if pl.fre == 'fre_v' else ''),
                                  '%s: FRE("") = %d, accounting gives %d (f0 %d - variables %d - live string bytes %d)' % (
                                      where, nums[0], want, mem.f0, mem.var_bytes(), mem.live_string_bytes()), index)
                if pl.fre == 'fre_both' and nums[1] != nums[0]:
                    raise Failure('fre:fre0-differs-right-after-collection', '%s: FRE("");FRE(0) = %r' % (where, nums), index)
            else:
                cnt.count('fre0_checks')
                if nums[0] > want:
                    raise Failure('fre:fre0-exceeds-accounting', '%s: FRE(0) = %d > %d' % (where, nums[0], want), index)
        if mem.free() < 0:
            raise Failure('oss:not-raised-although-live-strings-exceed-memory',
                          '%s succeeded but the live data no longer fit (model free %d)' % (where, mem.free()), index)
        # invariant monitor (names the mechanism), then read everything back (the BASIC-level symptom)
        try:
            self.readback(stmt, pl, before, code, gcs, where, index)
        except Failure as f:
            if inv and not f.key.startswith(('internal:', 'deffn:')):
                raise Failure(inv[0][0], '%s; BASIC-level symptom: %s' % (inv[0][1], f.what), index)
            raise
        if inv:
            raise Failure(inv[0][0], '%s %s' % (inv[0][1], where), index)
        if any(c for _, c in mem.scal.values()) or any(c for a in mem.arr.values() for _, c in a['vals'].values()):
            cnt.count('steps_with_string_in_program_text')
        return True

    def failed_chain(self, variant, index):
        """
        A statement that fails INSIDE a memory-management section and is survived: CHAIN to a missing file
        (variant 0: direct mode, untrapped; 1: in the program, trapped by ON ERROR .. RESUME NEXT; 2: CHAIN
        .. ,ALL; 3: CHAIN MERGE), with or without COMMON declarations in the program.  What is left of the
        variables after the failure is not pinned, so the history continues from a plain CLEAR (memory size
        unchanged) and creates its variables again; from then on the usual oracle applies.
        """
        text = [b'CHAIN "NOSUCH.BAS"', b'GOTO 900', b'CHAIN "NOSUCH.BAS",,ALL', b'CHAIN MERGE "NOSUCH.BAS"'][variant]
        self.executed.append(('c', variant))
        self.texts.append(text + b' : CLEAR')
        out = self._ex(text, index)
        code = self.h.err_of(out)[0]
        self.cnt.count('failed_chain_survived')
        if variant == 1 and code == 0:
            self.cnt.count('failed_chain_trapped')
        where = 'step %d %r' % (index, text)
        # File not found; or Out of string space / Out of memory while the COMMON strings are copied with the
        # collector held (also a failure inside the memory-management section; CHAIN's own needs are not C10's)
        if code in (14, 7):
            self.cnt.count('failed_chain_out_of_space')
        if code not in ((0, 53, 14, 7) if variant == 1 else (53, 14, 7)):
            raise Failure('chain:missing-file:error-class', '%s -> error %d, expected File not found' % (where, code), index)
        out = self._ex(b'CLEAR', index)
        if self.h.err_of(out)[0]:
            raise Failure('clear:error-after-failed-chain', '%s then CLEAR -> %r' % (where, out), index)
        mem = self.mem
        mem.scal.clear()
        mem.arr.clear()
        mem.fns.clear()
        mem.fn_records.clear()
        mem.ints.clear()
        free = self._number(b'PRINT FRE("")', index)[0]
        if free != mem.f0:
            raise Failure('fre:after-clear-following-a-failed-chain',
                          '%s, then CLEAR: FRE("") = %d, but %d with the same program and memory size before' % (
                              where, free, mem.f0), index)
        self._ex(b'N%=0:K%=0', index)
        mem.ints['N%'] = 0
        mem.ints['K%'] = 0
        inv = self.take_invariants(where)
        if inv:
            raise Failure(inv[0][0], '%s %s' % (inv[0][1], where), index)
        # the caller creates the variables again (setup_steps) as ordinary steps of the history
        return True

    def take_invariants(self, where):
        """Hard invariant failures of the monitor; mechanism notes are only remembered."""
        hard = []
        for key, what in self.minv.drain() + self.minv.check_live(self.box.impl.memory, where):
            if key.startswith('note:'):
                self.cnt.count('collections_keeping_unreferenced_strings')
                self.notes.append(what)
            else:
                hard.append((key, what))
        return hard

    def readback(self, stmt, pl, before, code, gcs, where, index):
        mem, h = self.mem, self.h
        want_s, want_a = mem.snapshot()
        suffix = (':failing-step' if code else '') + (':with-collection' if gcs else '')
        try:
            for nm, want in want_s.items():
                got = self.box.get(nm)
                if got != want:
                    key = 'value:scalar-differs-after:%s%s' % (stmt[0], suffix)
                    if pl.bare_param and got == before[0].get(pl.bare_param):
                        key = 'deffn:bare-parameter-body-returns-callers-value'
                    raise Failure(key, '%s: %s reads %r, reference %r' % (where, nm, got[:60], want[:60]), index)
            for nm, want in want_a.items():
                got = self.box.get(nm + '()')
                if got != want:
                    key = 'value:array-element-differs-after:%s%s' % (stmt[0], suffix)
                    if pl.bare_param and any(g == before[0].get(pl.bare_param) for g, w in zip(got, want) if g != w):
                        key = 'deffn:bare-parameter-body-returns-callers-value'
                    raise Failure(key, '%s: %s() reads %r, reference %r' % (
                        where, nm, [g[:30] for g in got][:8], [w[:30] for w in want][:8]), index)
            for nm in list(before[1]):
                if nm not in want_a and self.box.get(nm + '()') != []:
                    raise Failure('erase:array-still-there', '%s: %s() still exists' % (where, nm), index)
            for nm, want in mem.ints.items():
                got = self.box.get(nm)
                if got != want:
                    raise Failure('value:numeric-%s-differs-after:%s%s' % (
                        'result' if nm == 'N%' else 'parameter-variable', stmt[0], suffix),
                                  '%s: %s = %r, reference %r' % (where, nm, got, want), index)
        except h.Internal as e:
            raise Failure(e.key, '%s: %s while reading the variables back' % (where, str(e)[:300]), index)


def run_history(harness, minv, cfg, hid, steps=None, rng=None, nsteps=0, counters=None):
    """
    Run the set-up and then either the given steps (replay) or nsteps generated ones.
    Returns (executed steps, texts, Failure or None).
    """
    cnt = counters or Counters()
    run = Run(harness, minv, cfg, hid, cnt)
    fail = None
    try:
        try:
            run.prepare()
            idx = 0
            if steps is None:
                for st in setup_steps(cfg):
                    if run.step(st, idx):
                        idx += 1
                gen = Generator(rng, cfg)
                tries = 0
                while idx < nsteps and tries < nsteps * 3:
                    tries += 1
                    st = gen.next_step(run.mem)
                    if run.step(st, idx):
                        idx += 1
                        if st[0] == 'c':
                            # everything is gone after the survived failure + CLEAR: create the variables again
                            for st2 in setup_steps(cfg):
                                if run.step(st2, idx):
                                    idx += 1
            else:
                for st in steps:
                    if run.step(st, idx):
                        idx += 1
        except Failure as f:
            fail = f
            if run.notes and f.key.startswith(('fre:', 'oss:', 'oom:')):
                fail = Failure(f.key + ':collector-kept-unreferenced-copy',
                               '%s (monitor: %d collection(s) of this history kept strings that no live pointer refers to; %s)' % (
                                   f.what, len(run.notes), run.notes[-1]), f.step)
            elif run.notes and f.key.startswith(('minv:', 'value:')):
                fail = Failure(f.key, '%s (monitor: %s)' % (f.what, run.notes[-1]), f.step)
        cnt.count('histories')
        return run.executed, run.texts, fail
    finally:
        run.close()


def shrink(harness, minv, cfg, hid, steps, fail, max_runs=140):
    """Greedy deletion of steps that keeps the same violation key."""
    steps = list(steps)
    runs = 0
    work = 0              # statements replayed so far: bounds the cost for long histories
    chunk = max(1, len(steps) // 2)
    texts = None
    while chunk >= 1 and runs < max_runs and work < 25000:
        i = 0
        progressed = False
        while i < len(steps) and runs < max_runs and work < 25000:
            cand = steps[:i] + steps[i + chunk:]
            if not cand:
                i += chunk
                continue
            runs += 1
            ex, tx, f = run_history(harness, minv, cfg, hid, steps=cand)
            work += len(ex)
            if f is not None and f.key == fail.key:
                steps, texts, fail = ex, tx, f
                progressed = True
            else:
                i += chunk
        if chunk == 1 and not progressed:
            break
        chunk = max(1, chunk // 2) if chunk > 1 else (1 if progressed else 0)
    return steps, texts, fail


# ---------------------------------------------------------------------------------------------
# generators

def rand_cfg(rng):
    budget = rng.choice(BUDGETS)
    scalars = ['A$', 'B$', 'X$', 'Y$'] + rng.sample(['C$', 'D$', 'LONGNAME$', 'Q9$'], rng.randint(0, 2))
    maxlen = 255 if budget is None else max(4, min(255, budget // 3))
    cfg = {'budget': budget, 'scalars': scalars, 'pbound': rng.randint(2, 5), 'ebound': rng.randint(1, 4),
           'maxlen': maxlen, 'fns': [], 'stored': [], 'common': rng.random() < 0.5}
    X, Y = ('var', 'X$'), ('var', 'Y$')
    bodies = [
        ('cat', X, Y), ('cat', ('cat', X, Y), X), ('cat', ('cat', X, ('lit', b'-')), Y),
        ('left', ('cat', X, Y), rng.randint(0, maxlen)), ('mid', ('cat', Y, X), rng.randint(1, 4), rng.randint(0, maxlen)),
        ('cat', X, ('var', 'A$')), ('right', ('cat', ('cat', X, X), Y), rng.randint(1, maxlen)),
    ]
    if rng.random() < 0.8:
        cfg['fns'].append(('FNC$', ['X$', 'Y$'], rng.choice(bodies)))
        if rng.random() < 0.4:
            if rng.random() < 0.15:
                cfg['fns'].append(('FNI$', ['X$'], X))     # body is the bare parameter
            else:
                cfg['fns'].append(('FNI$', ['X$'], ('cat', X, rng.choice([X, ('lit', b'!'), ('var', 'B$')]))))
    # functions of the other signatures: numeric parameter, no parameter, numeric result, nested
    K, A, B = ('nvar', 'K%'), ('var', 'A$'), ('var', 'B$')
    small = rng.randint(1, min(40, maxlen))
    have = set()
    if rng.random() < 0.5:
        cfg['fns'].append(('FNS$', ['K%'], rng.choice([('string', K, rng.randrange(256)),
                                                       ('cat', ('string', K, 65), A), ('left', ('cat', A, B), K)])))
        have.add('FNS$')
    if rng.random() < 0.5:
        cfg['fns'].append(('FNQ!', ['K%'], rng.choice([('nmul', K, 2), ('nadd', K, 1), ('nlen', ('string', K, 66))])))
        have.add('FNQ!')
    if rng.random() < 0.4:
        cfg['fns'].append(('FNZ$', [], rng.choice([('cat', A, ('lit', b'z')), ('left', ('cat', B, A), small)])))
        have.add('FNZ$')
    if rng.random() < 0.4:
        cfg['fns'].append(('FNL%', ['X$'], rng.choice([('nadd', ('nlen', X), 1), ('ninstr', X, ('lit', b'a')), ('nasc', X)])))
    if have and rng.random() < 0.5:
        if 'FNS$' in have and 'FNQ!' in have:
            cfg['fns'].append(('FNN$', ['K%'], ('fn', 'FNS$', [('nfn', 'FNQ!', [K])])))
        elif 'FNZ$' in have:
            cfg['fns'].append(('FNN$', ['K%'], ('cat', ('fn', 'FNZ$', []), ('str', K))))
    gen = Generator(rng, cfg)
    for _ in range(rng.choice((0, 4, 8, 14))):
        cfg['stored'].append(gen.statement(None))
    return cfg


class Generator(object):

    def __init__(self, rng, cfg):
        self.rng, self.cfg = rng, cfg
        self.pending_dim = False

    def target(self, mem):
        rng, cfg = self.rng, self.cfg
        r = rng.random()
        if r < 0.6:
            return ('var', rng.choice(cfg['scalars']))
        if r < 0.85:
            return ('elem', 'P$', rng.randint(0, cfg['pbound']))
        b = cfg['ebound'] if mem is None or 'E$' not in mem.arr else mem.arr['E$']['bound']
        return ('elem', 'E$', rng.randint(0, b))

    def length(self):
        rng, m = self.rng, self.cfg['maxlen']
        r = rng.random()
        if r < 0.5:
            return rng.randint(0, min(m, 12))
        if r < 0.9:
            return rng.randint(0, m)
        return rng.choice((m, 255, 254, 1, 0))

    def call(self, mem, depth, want='$'):
        """A call of one of the history's functions with the wanted result type (None if there is none)."""
        rng = self.rng
        fns = [f for f in self.cfg['fns'] if (f[0][-1] == '$') == (want == '$')]
        if not fns:
            return None
        name, params, _ = rng.choice(fns)
        args = [self.expr(mem, depth + 2) if p[-1] == '$' else self.num(mem, depth + 2, small=True) for p in params]
        return ('fn' if want == '$' else 'nfn', name, args)

    def num(self, mem, depth=0, small=False):
        """Numeric argument: mostly a constant, sometimes a numeric expression (function call, LEN, INSTR, comparison)."""
        rng = self.rng
        const = rng.randint(0, min(self.cfg['maxlen'], 30)) if small else self.length()
        if depth >= 3 or rng.random() < 0.7:
            return const
        q = rng.random()
        if q < 0.45:
            c = self.call(mem, depth, want='n')
            if c is not None:
                return c
        if q < 0.7:
            return ('nlen', self.expr(mem, depth + 1))
        if q < 0.8:
            return ('nadd', ('ninstr', self.expr(mem, depth + 1), self.expr(mem, depth + 2)), rng.randint(0, 3))
        if q < 0.9:
            return ('nmul', ('ncmp', rng.choice(('<', '=', '>', '<>', '<=', '>=')), self.expr(mem, depth + 1), self.expr(mem, depth + 1)),
                    -rng.randint(0, 9))
        return ('nasc', self.expr(mem, depth + 2))

    def expr(self, mem, depth=0):
        rng = self.rng
        r = rng.random()
        if depth >= 3 or r < 0.38:
            q = rng.random()
            if q < 0.55:
                return self.target(mem)
            if q < 0.75:
                n = min(self.length(), 40)
                return ('lit', bytes(rng.choice(LIT_ALPHA) for _ in range(n)))
            if q < 0.9:
                return ('string', self.length(), rng.randrange(256))
            if q < 0.95:
                return ('space', self.length())
            return ('chr', rng.randrange(256))
        if r < 0.62:
            left = self.expr(mem, depth + 1)
            if rng.random() < 0.3:
                # pending temporaries on the left, a nested evaluation on the right
                c = self.call(mem, depth, want='$') if rng.random() < 0.6 else None
                if c is None:
                    c = ('str', self.num(mem, depth + 1, small=True)) if rng.random() < 0.5 else ('chr', ('nadd', ('nasc', self.expr(mem, depth + 2)), 0))
                return ('cat', left, c)
            return ('cat', left, self.expr(mem, depth + 1))
        if r < 0.72:
            return ('left', self.expr(mem, depth + 1), self.num(mem, depth + 1))
        if r < 0.80:
            return ('right', self.expr(mem, depth + 1), self.num(mem, depth + 1))
        if r < 0.86:
            return ('mid', self.expr(mem, depth + 1), rng.randint(1, 12), self.num(mem, depth + 1))
        if r < 0.89:
            return ('str', self.num(mem, depth + 1, small=True))
        c = self.call(mem, depth, want='$')
        if c is not None:
            return c
        return ('cat', self.expr(mem, depth + 1), self.target(mem))

    def statement(self, mem):
        # a statement must fit comfortably in one BASIC line
        while True:
            st = self._statement(mem)
            if len(M.stmt_text(st)) <= 200:
                return st

    def _statement(self, mem):
        rng = self.rng
        r = rng.random()
        if r < 0.50:
            return ('let', self.target(mem), self.expr(mem))
        if r < 0.58:
            t = self.target(mem)
            ln = 4
            if mem is not None:
                try:
                    ln = len(mem.cell(t)[0])
                except M.Skip:
                    pass
            start = rng.randint(1, max(1, ln)) if rng.random() < 0.9 else rng.randint(1, ln + 3)
            return ('midset', t, start, rng.choice((1, 2, 3, 5, 255, rng.randint(1, 255))), self.expr(mem, 1))
        if r < 0.66:
            return (rng.choice(('lset', 'rset')), self.target(mem), self.expr(mem, 1))
        if r < 0.74:
            return ('swap', self.target(mem), self.target(mem))
        if r < 0.80:
            q = rng.random()
            if q < 0.4:
                return ('instr', self.expr(mem, 1), self.expr(mem, 2))
            if q < 0.6:
                return ('len', self.expr(mem, 1))
            if q < 0.85:
                return ('ncalc', ('ncmp', rng.choice(('<', '=', '>', '<>', '<=', '>=')), self.expr(mem, 1), self.expr(mem, 1)))
            return ('ncalc', self.num(mem, 0, small=True) if rng.random() < 0.5 else ('nadd', ('nlen', self.expr(mem, 1)), self.num(mem, 1, small=True)))
        if r < 0.85:
            return ('fre_s',)
        if r < 0.87:
            return ('fre_v', self.target(mem))
        if r < 0.91:
            return ('fre_0',)
        if r < 0.93:
            return ('fre_both',)
        if r < 0.97 and mem is not None:
            n = self.length()
            return ('apiset', rng.choice(self.cfg['scalars']), bytes(rng.randrange(256) for _ in range(n)))
        if mem is not None:
            return ('erase', 'E$')
        return ('let', self.target(mem), self.expr(mem))

    def next_step(self, mem):
        rng = self.rng
        if 'E$' not in mem.arr and rng.random() < 0.5:
            # ERASE is followed by DIM (possibly with another bound); it may fail with Out of memory
            return ('d', ('dim', 'E$', rng.randint(0, 6)))
        if self.cfg['stored'] and rng.random() < 0.22:
            return ('g', rng.randrange(len(self.cfg['stored'])))
        if rng.random() < 0.012:
            return ('c', rng.randrange(4))
        return ('d', self.statement(mem))


# ---------------------------------------------------------------------------------------------
# directed core (seed independent): reproducers and classic scenarios

def V(n):
    return ('var', n)


def directed_scenarios():
    A, B, X, Y = V('A$'), V('B$'), V('X$'), V('Y$')
    base = {'scalars': ['A$', 'B$', 'X$', 'Y$'], 'pbound': 3, 'ebound': 2, 'maxlen': 60, 'fns': [], 'stored': []}
    out = []
    # D6: DEF FN with string parameters while a collection runs during its evaluation
    cfg = dict(base, budget=260, fns=[('FNC$', ['X$', 'Y$'], ('cat', ('cat', X, Y), X))])
    steps = [('d', ('let', X, ('cat', ('lit', b'caller-x'), ('lit', b'')))),
             ('d', ('let', Y, ('cat', ('lit', b'caller-y'), ('lit', b'')))),
             ('d', ('let', A, ('string', 40, 97)))]
    for i in range(14):
        steps.append(('d', ('let', B, ('fn', 'FNC$', [A, ('lit', b'q%d' % i)]))))
        steps.append(('d', ('let', ('elem', 'P$', i % 4), ('fn', 'FNC$', [('cat', A, ('lit', b'z')), X]))))
    steps.append(('d', ('fre_s',)))
    out.append(('deffn-string-parameters:collection-during-evaluation', cfg, steps))
    # string functions returning early (n=0, start>len, INSTR miss) on variables and temporaries, then collections
    cfg = dict(base, budget=400)
    steps = [('d', ('let', A, ('string', 50, 120))),
             ('d', ('let', B, ('left', A, 0))), ('d', ('fre_s',)),
             ('d', ('let', B, ('left', ('cat', A, ('lit', b'y')), 0))), ('d', ('fre_s',)),
             ('d', ('instr', ('cat', A, ('lit', b'y')), ('lit', b'q'))), ('d', ('fre_s',)),
             ('d', ('let', B, ('mid', ('cat', A, ('lit', b'w')), 60, 3))), ('d', ('fre_s',)),
             ('d', ('let', B, ('right', ('cat', A, ('lit', b'v')), 0))), ('d', ('fre_both',)),
             ('d', ('instr', ('lit', b''), A)), ('d', ('fre_s',)),
             ('d', ('let', X, ('cat', A, A))), ('d', ('fre_s',)), ('d', ('let', Y, ('cat', X, A))), ('d', ('fre_both',))]
    out.append(('string-function-early-return:then-collection', cfg, steps))
    # a function whose body is just its parameter
    cfg = dict(base, budget=300, fns=[('FNI$', ['X$'], X)])
    steps = [('d', ('let', X, ('cat', ('lit', b'old'), ('lit', b'')))),
             ('d', ('let', A, ('fn', 'FNI$', [('lit', b'new')]))),
             ('d', ('let', B, ('cat', ('fn', 'FNI$', [('lit', b'newer')]), ('lit', b'!')))),
             ('d', ('len', ('fn', 'FNI$', [('lit', b'newest')]))), ('d', ('fre_s',))]
    out.append(('deffn:bare-parameter-body', cfg, steps))
    # collection while no permanent string exists yet, and collections with only empty variables
    cfg = dict(base, budget=150)
    steps = [('d', ('let', A, ('cat', ('string', 60, 65), ('string', 60, 66)))), ('d', ('fre_both',)),
             ('d', ('let', A, ('lit', b''))), ('d', ('fre_s',)),
             ('d', ('let', B, ('cat', ('cat', ('string', 30, 67), ('string', 30, 68)), ('string', 30, 69)))), ('d', ('fre_s',)),
             ('d', ('let', B, ('lit', b''))),
             ('d', ('len', ('cat', ('string', 70, 70), ('string', 70, 71)))), ('d', ('fre_s',))]
    out.append(('collection:no-permanent-strings', cfg, steps))
    # classic: grow strings in a tiny space until Out of string space, array elements, ERASE/DIM, SWAP
    cfg = dict(base, budget=120)
    steps = []
    for i in range(30):
        steps.append(('d', ('let', ('elem', 'P$', i % 4), ('cat', ('elem', 'P$', (i + 1) % 4), ('lit', b'ab%d' % i)))))
        steps.append(('d', ('let', A, ('cat', A, ('chr', 48 + i)))))
        if i % 5 == 4:
            steps.append(('d', ('swap', ('elem', 'P$', 0), A)))
            steps.append(('d', ('fre_0',)))
        if i % 7 == 6:
            steps.append(('d', ('erase', 'E$')))
            steps.append(('d', ('dim', 'E$', 1 + i % 3)))
            steps.append(('d', ('let', ('elem', 'E$', 1), ('right', A, 5))))
            steps.append(('d', ('fre_s',)))
    steps += [('d', ('dim', 'E$', 200)), ('d', ('let', B, ('string', 255, 33))), ('d', ('fre_both',))]
    out.append(('classic:grow-until-out-of-string-space', cfg, steps))
    # exact fit: the space that is left minus one byte fits, the whole space does not
    for k in (40, 41, 39, 20, 1):
        cfg = dict(base, budget=41)
        steps = [('d', ('fre_s',)), ('d', ('let', A, ('string', k, 35))), ('d', ('fre_both',)),
                 ('d', ('let', B, ('string', max(0, 40 - k), 36))), ('d', ('fre_s',)), ('d', ('let', X, ('lit', b'x'))),
                 ('d', ('fre_s',))]
        out.append(('exact-fit:%d-of-41' % k, cfg, steps))
    # strings in the program text: assign, copy, swap, modify in place, FRE accounting
    cfg = dict(base, budget=200, stored=[
        ('let', A, ('lit', b'literal in line 100')), ('let', B, A), ('let', ('elem', 'P$', 1), ('lit', b'element literal')),
        ('midset', B, 2, 3, ('lit', b'XYZ')), ('lset', ('elem', 'P$', 1), ('lit', b'L')), ('let', X, ('cat', A, ('lit', b'+tail'))),
        ('swap', A, ('elem', 'P$', 2)), ('rset', A, ('lit', b'R')), ('let', Y, ('left', ('lit', b'abcdef'), 3))])
    steps = [('g', 0), ('d', ('fre_s',)), ('g', 1), ('d', ('fre_s',)), ('g', 2), ('d', ('fre_both',)), ('g', 3), ('d', ('fre_s',)),
             ('g', 4), ('d', ('fre_s',)), ('g', 5), ('g', 6), ('d', ('fre_s',)), ('g', 7), ('d', ('fre_s',)), ('g', 8),
             ('d', ('let', Y, A)), ('d', ('let', ('elem', 'P$', 3), ('elem', 'P$', 2))), ('d', ('fre_both',)),
             ('d', ('midset', ('elem', 'P$', 3), 1, 1, ('lit', b'#'))), ('d', ('fre_s',)), ('g', 0), ('g', 3), ('d', ('fre_s',))]
    out.append(('program-text-strings:copy-swap-modify', cfg, steps))
    # pending temporaries on the left of a nested evaluation: functions of every signature, STR$/CHR$ chains, comparisons
    K = ('nvar', 'K%')
    fns = [('FNS$', ['K%'], ('string', K, 65)), ('FNQ!', ['K%'], ('nmul', K, 2)), ('FNZ$', [], ('cat', A, ('lit', b'z'))),
           ('FNL%', ['X$'], ('nadd', ('nlen', X), 1)), ('FNN$', ['K%'], ('fn', 'FNS$', [('nfn', 'FNQ!', [K])])),
           ('FNC$', ['X$', 'Y$'], ('cat', X, Y))]
    for budget in (400, 60):
        cfg = dict(base, budget=budget, fns=fns, stored=[('let', X, ('cat', ('cat', B, A), ('fn', 'FNS$', [3]))),
                                                        ('ncalc', ('ncmp', '<', ('cat', B, A), ('fn', 'FNN$', [2])))])
        q3 = ('nfn', 'FNQ!', [3])
        steps = [('d', ('let', A, ('cat', ('lit', b'ab'), ('lit', b'c')))), ('d', ('let', B, ('cat', ('lit', b'x'), ('lit', b'y')))),
                 ('d', ('let', X, ('cat', ('cat', B, A), ('fn', 'FNS$', [3])))),
                 ('d', ('let', Y, ('cat', ('cat', B, A), ('str', q3)))),
                 ('d', ('let', ('elem', 'P$', 1), ('cat', ('cat', ('lit', b'p'), B), ('fn', 'FNZ$', [])))),
                 ('d', ('ncalc', ('ncmp', '<', ('cat', B, A), ('fn', 'FNN$', [2])))),
                 ('d', ('ncalc', ('ncmp', '=', ('cat', ('cat', B, A), ('fn', 'FNS$', [2])), ('cat', ('cat', B, A), ('string', 2, 65))))),
                 ('d', ('let', ('elem', 'P$', 2), ('cat', ('cat', ('chr', 65), ('chr', ('nfn', 'FNQ!', [33]))), ('str', ('nfn', 'FNL%', [('cat', B, A)]))))),
                 ('d', ('let', ('elem', 'P$', 3), ('cat', ('left', ('cat', A, B), q3), ('fn', 'FNC$', [('fn', 'FNZ$', []), ('fn', 'FNN$', [1])])))),
                 ('d', ('instr', ('cat', ('cat', A, B), ('fn', 'FNS$', [2])), ('cat', ('lit', b'y'), ('fn', 'FNS$', [1])))),
                 ('d', ('len', ('cat', ('cat', B, ('str', q3)), ('fn', 'FNN$', [3])))),
                 ('g', 0), ('g', 1), ('d', ('lset', X, ('cat', ('cat', A, ('lit', b'-')), ('fn', 'FNZ$', [])))),
                 ('d', ('midset', X, 2, 4, ('cat', ('cat', B, ('lit', b'+')), ('str', ('nfn', 'FNL%', [B]))))), ('d', ('fre_both',))]
        out.append(('pending-temporaries-left-of-nested-evaluation:%d' % budget, cfg, steps))
    # a statement that fails inside a memory-management section (CHAIN to a missing file) is survived; string churn after it
    for common in (False, True):
        cfg = dict(base, budget=150, common=common, fns=[('FNC$', ['X$', 'Y$'], ('cat', X, Y))])
        steps = []

        def churn(tag):
            out_ = []
            for i in range(12):
                out_.append(('d', ('let', ('elem', 'P$', i % 4), ('cat', ('string', 20 + i, 65 + i), ('lit', tag)))))
                out_.append(('d', ('let', A, ('cat', ('elem', 'P$', (i + 1) % 4), ('chr', 48 + i)))))
                if i % 4 == 3:
                    out_.append(('d', ('let', B, ('fn', 'FNC$', [A, ('lit', tag)]))))
                    out_.append(('d', ('fre_s',)))
            out_.append(('d', ('fre_both',)))
            return out_
        steps += churn(b'a')
        for variant in (0, 1, 2, 3):
            steps.append(('c', variant))
            steps += setup_steps(cfg)
            steps += churn(b'v%d' % variant)
        out.append(('failed-chain-survived:%s' % ('with-common' if common else 'no-common'), cfg, steps))
    # MID$ statement on a target in the program text: the copy into string space collects while the source is a temporary
    for garbage in (44, 50, 56):
        cfg = dict(base, budget=90, stored=[('let', A, ('lit', b'0123456789012345678901234567890123456789'))])
        steps = [('g', 0), ('d', ('let', B, ('string', garbage, 104))), ('d', ('let', B, ('lit', b''))), ('d', ('fre_0',)),
                 ('d', ('lset', A, ('cat', ('lit', b'le'), ('lit', b'ft')))), ('d', ('fre_s',)),
                 ('g', 0), ('d', ('let', B, ('string', garbage, 105))), ('d', ('let', B, ('lit', b''))),
                 ('d', ('rset', A, ('cat', ('lit', b'ri'), ('lit', b'ght')))), ('d', ('fre_both',)),
                 ('g', 0), ('d', ('let', B, ('string', garbage, 103))), ('d', ('let', B, ('lit', b''))),
                 ('d', ('midset', A, 2, 3, ('cat', ('lit', b'ab'), ('lit', b'c')))), ('d', ('fre_s',))]
        out.append(('inplace-on-program-text-target:collection-during-copy:%d' % garbage, cfg, steps))
    return out


# ---------------------------------------------------------------------------------------------

def report(res, cfg, hid, texts, fail, scenario=None):
    # symptom-level keys of the directed scenarios carry the scenario (= the mechanism they aim at)
    precise = fail.key.startswith(('internal:', 'deffn:', 'minv:'))
    key = fail.key if (scenario is None or precise) else '%s[%s]' % (fail.key, scenario)
    tail = [bytes(t) for t in (texts or [])][-40:]
    what = '%s | budget %r | minimal history (%d statements): %s' % (
        fail.what, cfg['budget'], len(texts or []), b' : '.join(tail).decode('latin-1')[:1500])
    res.violation(key, what, {'history': hid, 'budget': cfg['budget'], 'fns': cfg['fns'], 'stored': cfg['stored'],
                              'statements': tail})


def run_shard(spec, res):
    from .. import harness
    from ..models import c10_minv as minv
    minv.install()
    kind = spec['kind']
    rng = random.Random('%s:C10:%s:%s' % (spec['seed'], kind, spec.get('part', 0)))
    if kind == 'directed':
        for name, cfg, steps in directed_scenarios():
            cnt = Counters()
            ex, texts, fail = run_history(harness, minv, cfg, 'directed/' + name, steps=setup_steps(cfg) + steps, counters=cnt)
            cnt.flush(res)
            res.count('directed_scenarios')
            if fail is not None:
                ex2, texts2, fail2 = shrink(harness, minv, cfg, 'directed/' + name, ex, fail, max_runs=80)
                if texts2 is not None:
                    texts, fail = texts2, fail2
                report(res, cfg, 'directed/' + name, texts, fail, scenario=name)
        res.sample({'kind': 'directed', 'scenarios': [n for n, _, _ in directed_scenarios()]})
    elif kind == 'history':
        shrunk_keys = set()
        for hno in range(spec['n']):
            hid = '%s/%s/%d' % (spec['seed'], spec.get('part', 0), hno)
            cfg = rand_cfg(rng)
            nsteps = rng.choice((50, 80, 120, 200, 400))
            cnt = Counters()
            ex, texts, fail = run_history(harness, minv, cfg, hid, rng=rng, nsteps=nsteps, counters=cnt)
            cnt.flush(res)
            res.maxc('max_history_length', len(ex))
            if hno < 1:
                res.sample({'history': hid, 'budget': cfg['budget'], 'stored_lines': len(cfg['stored']),
                            'statements': [bytes(t) for t in texts[:14]], 'length': len(ex)})
            if fail is not None:
                # shrink the first witness of each key (at most 5 per shard): bounded cost on a badly broken tree
                if not fail.key.startswith('setup:') and fail.key not in shrunk_keys and len(shrunk_keys) < 5:
                    shrunk_keys.add(fail.key)
                    ex, texts2, fail2 = shrink(harness, minv, cfg, hid, ex, fail)
                    if texts2 is not None:
                        texts, fail = texts2, fail2
                report(res, cfg, hid, texts, fail)
    else:
        raise ValueError(kind)
    if not minv.STATE.available:
        res.count('monitor_unavailable')
    if minv.STATE.monitor_errors:
        res.count('monitor_errors', minv.STATE.monitor_errors)
