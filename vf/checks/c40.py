"""
C40 A suspended session resumes exactly where it stopped.

Differential monitor: every generated program is run (a) uninterrupted and (b) interrupted by an
Exit raised at the k-th statement boundary (what closing the window does), suspended to a state
file, closed, and resumed in a helper process that never saw the original session; output
before + after, final variables, sandbox files, screen characters, pixels and cursor must equal
run (a).  Tamper monitor: every byte of small state files altered (xor 1, 0x80, 0xff) must make
load_session raise (the 24 header bytes: every other value).  Subjects are generated programs and the
programs of the repository's own corpus (tests/basic) whose options the sandbox can reproduce.
"""
import io
import json
import os
import random
import shutil
import subprocess
import sys
import tempfile

from .. import harness
from ..harness import error
from .. import c40_helper

META = {
    'property_id': 'C40',
    'technique': 'differential crash-point monitor: interrupt at every statement boundary, suspend, resume in a fresh process, compare with the uninterrupted run; exhaustive single-byte tampering of state files',
    'level': 'fault_enumeration',
    'level_text': (
        'For each generated program every statement boundary (all when the run has <= 150 boundaries, else 150 sampled) '
        'is used as interruption point: Exit is raised there, the session is suspended, closed and resumed in another '
        'process; everything observable (output, variables, files, screen text, pixels, cursor) is compared with the '
        'uninterrupted run. State-file integrity: every byte of a small state file is altered in three ways and the load '
        'must fail (header bytes: all 255 other values). The same differential run is made for the programs of the '
        "repository's own test corpus (a seed-dependent slice in quick, all eligible ones in thorough)."),
    'level_note': ('Programs are generated from a fixed block grammar (loops, GOSUB, ON ERROR/RESUME, strings, arrays, DATA, '
                   'DEF FN, RND, sequential and random files, text and graphics output); INPUT, sound and time-dependent '
                   'statements are not generated; corpus programs that read the clock, poll the keyboard, SHELL, list FILES (host free space) or use ENVIRON, and one that '
                   'writes one host file through two file numbers at once (flush order), are '
                   'skipped and counted. Interruption inside a statement (during wait()) is not explored.'),
    'rule': ('case = (program, boundary k); distinct by program text and k; non-trivial = the interruption hit while the '
             'program was running (not after its end) and the resumed session produced a final observation'),
    'assumptions': ['the helper process shares only the file system with the suspending process'],
    'require_counters': {'any': ['resumed_mid_program', 'tamper_rejected']},
    'timeout': {'quick': 900, 'thorough': 4 * 3600},
}

NAMES = ['A', 'B', 'C%', 'I%', 'J%', 'K', 'S$', 'T$', 'U$', 'D#', 'N', 'E', 'Q(', 'R$(', 'P%(', 'X', 'Y', 'L$', 'G$', 'F$']


# ---- program generator ------------------------------------------------------------------------------

class Gen(object):
    def __init__(self, rng):
        self.rng = rng
        self.lines = []
        self.n = 10
        self.subs = []
        self.data = []

    def add(self, text):
        self.lines.append(b'%d %s' % (self.n, text))
        self.n += 10

    def block(self, depth=0):
        r = self.rng
        k = r.randrange(19)
        if k == 0:
            self.add(b'A=A+%d:PRINT "a";A' % r.randint(1, 9))
        elif k == 1:
            self.add(b'S$=S$+"%s":IF LEN(S$)>40 THEN S$=RIGHT$(S$,7)' % bytes([r.randint(65, 90)]))
            self.add(b'PRINT S$;LEN(S$)')
        elif k == 2 and depth < 3:
            v = [b'I%', b'J%', b'K'][depth]
            self.add(b'FOR %s=%d TO %d STEP %d' % (v, r.randint(0, 3), r.randint(3, 6), r.choice([1, 1, 2])))
            for _ in range(r.randint(1, 3)):
                self.block(depth + 1)
            self.add(b'PRINT "f";%s;:NEXT %s' % (v, v))
        elif k == 3 and depth < 3:
            self.add(b'N=0:WHILE N<%d' % r.randint(1, 4))
            for _ in range(r.randint(1, 2)):
                self.block(depth + 1)
            self.add(b'N=N+1:WEND')
        elif k == 4:
            tgt = 5000 + 100 * len(self.subs)
            self.subs.append(tgt)
            self.add(b'GOSUB %d:PRINT "back"' % tgt)
        elif k == 5:
            self.add(b'Q(%d)=Q(%d)+%d:R$(%d)=R$(%d)+"%s":P%%(%d)=P%%(%d) XOR %d' % (
                r.randint(0, 5), r.randint(0, 5), r.randint(1, 5), r.randint(0, 3), r.randint(0, 3),
                bytes([r.randint(97, 122)]), r.randint(0, 4), r.randint(0, 4), r.randint(1, 255)))
        elif k == 6:
            self.add(b'READ X,L$:PRINT X;L$:D#=D#+X/3')
            self.data.append(b'%d,"%s"' % (r.randint(-99, 99), bytes(r.randint(97, 122) for _ in range(r.randint(0, 5)))))
            if r.random() < 0.2:
                self.add(b'RESTORE')
        elif k == 7:
            self.add(b'Y=RND:PRINT INT(Y*1000);FNA(%d);FNS$("%s")' % (r.randint(1, 9), bytes([r.randint(65, 90)])))
        elif k == 8:
            self.add(b'ERROR %d:PRINT "after";E' % r.choice([5, 6, 9, 11, 13, 53, 200]))
        elif k == 9:
            self.add(b'E=1/B:PRINT "div";E')
        elif k == 10:
            self.add(b'PRINT #1,"%s";A;S$:C%%=C%%+1' % bytes(r.randint(97, 122) for _ in range(r.randint(1, 6))))
        elif k == 11:
            rec = r.randint(1, 6)
            self.add(b'LSET F$=S$+"%s":RSET G$=STR$(A):PUT #2,%d:GET #2,%d:T$=F$+G$' % (bytes([r.randint(65, 90)]), rec, r.randint(1, rec)))
        elif k == 15:
            # implicit record numbers: the file pointer itself must survive a suspension
            self.add(b'LSET F$="%s":RSET G$=STR$(B):PUT #2' % bytes([r.randint(65, 90)]))
            self.add(b'GET #2,%d' % r.randint(1, 3))
            self.add(b'GET #2:T$=F$+G$:PRINT LOC(2);LOF(2)')
            self.add(b'LSET F$=T$:PUT #2:PRINT LOC(2)')
        elif k == 16:
            # text I/O on the record buffer, one item per statement
            self.add(b'PRINT #2,A;B;C%')
            self.add(b'PUT #2,%d' % r.randint(1, 4))
            self.add(b'GET #2,LOC(2)')
            self.add(b'INPUT #2,X')
            self.add(b'INPUT #2,Y')
            self.add(b'INPUT #2,K:PRINT X;Y;K')
        elif k == 17:
            # sequential input, one item per statement, from a file written earlier in the run
            self.add(b'CLOSE 1:OPEN "OUT.TXT" FOR INPUT AS 1')
            self.add(b'IF NOT EOF(1) THEN LINE INPUT #1,L$:PRINT L$')
            self.add(b'IF NOT EOF(1) THEN L$=INPUT$(3,1):PRINT L$')
            self.add(b'CLOSE 1:OPEN "OUT.TXT" FOR APPEND AS 1')
        elif k == 12:
            self.add(b'LOCATE %d,%d:COLOR %d,%d:PRINT "%s";' % (r.randint(1, 22), r.randint(1, 70), r.randint(0, 15), r.randint(0, 7),
                                                              bytes(r.randint(33, 126) for _ in range(r.randint(1, 12))).replace(b'"', b'q')))
        elif k == 13:
            self.add(b'MID$(U$,%d,2)="%s":SWAP S$,T$:PRINT U$' % (r.randint(1, 8), bytes([r.randint(48, 57)]) * 2))
        elif k == 14:
            self.add(b'IF A>%d THEN B=B+1:PRINT "t";B ELSE B=B-1:PRINT "e";B' % r.randint(0, 20))
        else:
            self.add(b'PRINT "p";%d;TAB(20);"q":PRINT' % r.randint(0, 999))

    def program(self, graphics):
        r = self.rng
        self.add(b'ON ERROR GOTO 9000')
        self.add(b'DIM Q(5),R$(3),P%(4):U$="0123456789":DEF FNA(X)=X*2+A:DEF FNS$(X$)=X$+S$+X$')
        self.add(b'OPEN "OUT.TXT" FOR OUTPUT AS 1:OPEN "RND.DAT" AS 2 LEN=32:FIELD #2, 8 AS F$, 8 AS G$')
        if graphics:
            self.add(b'SCREEN %d' % graphics)
        for _ in range(r.randint(5, 12)):
            self.block()
            if graphics and r.random() < 0.5:
                self.add(b'LINE (%d,%d)-(%d,%d),%d:PSET(%d,%d):CIRCLE(%d,%d),%d' % (
                    tuple(r.randint(0, 190) for _ in range(4)) + (
                        r.randint(1, 3), r.randint(0, 190), r.randint(0, 190),
                        r.randint(20, 180), r.randint(20, 180), r.randint(2, 30))))
        self.add(b'CLOSE 1:OPEN "OUT.TXT" FOR INPUT AS 1')
        self.add(b'WHILE NOT EOF(1):LINE INPUT #1,L$:PRINT L$:WEND:CLOSE')
        self.add(b'OPEN "APP.TXT" FOR APPEND AS 3:WRITE #3,A,S$,C%:CLOSE 3')
        self.add(b'PRINT "end";A;B;C%;D#;S$;T$:END')
        lines = list(self.lines)
        for i, tgt in enumerate(self.subs):
            lines.append(b'%d PRINT "sub%d";A:A=A+1' % (tgt, i))
            if i + 1 < len(self.subs) and self.rng.random() < 0.4:
                lines.append(b'%d GOSUB %d' % (tgt + 10, self.subs[i + 1]))
            lines.append(b'%d RETURN' % (tgt + 20))
        lines.append(b'8000 DATA ' + b','.join(self.data) if self.data else b'8000 REM no data')
        lines.append(b'8010 DATA 1,"a",2,"b",3,"c",4,"d",5,"e",6,"f",7,"g",8,"h"')
        lines.append(b'9000 E=ERR:PRINT "err";ERR;ERL:RESUME NEXT')
        return lines


DIRECTED = [
    [b'10 FOR I%=1 TO 5', b'20 PRINT I%;', b'30 NEXT', b'40 PRINT "done"'],
    [b'10 GOSUB 100:PRINT "a":GOSUB 100:PRINT "b":END', b'100 A=A+1:PRINT A:RETURN'],
    [b'10 ON ERROR GOTO 100', b'20 ERROR 5:PRINT "x"', b'30 PRINT 1/0:PRINT "y":END', b'100 PRINT ERR;ERL:RESUME NEXT'],
    [b'10 OPEN "OUT.TXT" FOR OUTPUT AS 1', b'20 FOR I%=1 TO 4:PRINT #1,"line";I%:NEXT', b'30 CLOSE',
     b'40 OPEN "OUT.TXT" FOR INPUT AS 1', b'50 WHILE NOT EOF(1):LINE INPUT#1,L$:PRINT L$:WEND:CLOSE'],
    [b'10 S$="":FOR I%=1 TO 6:S$=S$+CHR$(64+I%):PRINT S$:NEXT', b'20 T$=S$+S$:PRINT LEN(T$)'],
    [b'10 SCREEN 1:FOR I%=1 TO 5:LINE (I%*10,0)-(100,I%*20),I% MOD 4:NEXT', b'20 PRINT POINT(50,10)'],
    [b'10 READ X:PRINT X:READ L$:PRINT L$:RESTORE:READ Y:PRINT Y', b'20 DATA 7,"z"'],
    [b'10 X=RND:PRINT X:Y=RND:PRINT Y:RANDOMIZE 5:PRINT RND'],
]


def gen_program(rng):
    g = Gen(rng)
    return g.program(rng.choice([0, 0, 0, 1, 2]))


def plan(tier, seed):
    q = tier == 'quick'
    shards = [{'kind': 'directed'}]
    for i in range(14 if q else 64):
        shards.append({'kind': 'resume', 'programs': 3 if q else 12, 'part': i, 'maxk': 60 if q else 150})
    shards.append({'kind': 'tamper', 'files': 1 if q else 4, 'part': 0})
    # programs of the repository's own corpus: a seed-dependent slice in quick, all of them in thorough
    nparts = 6 if q else 32
    for i in range(nparts):
        shards.append({'kind': 'corpus', 'part': i, 'parts': nparts, 'programs': 5 if q else 10 ** 6,
                       'maxk': 12 if q else 60})
    return shards


# ---- running -----------------------------------------------------------------------------------------

class Helper(object):
    def __init__(self):
        env = dict(os.environ)
        self.p = subprocess.Popen([sys.executable, '-B', '-m', 'vf.c40_helper'], stdin=subprocess.PIPE,
                                  stdout=subprocess.PIPE, stderr=subprocess.DEVNULL, env=env,
                                  cwd=os.path.dirname(os.path.dirname(os.path.abspath(__file__))))

    def ask(self, req):
        self.p.stdin.write((json.dumps(req) + '\n').encode())
        self.p.stdin.flush()
        line = self.p.stdout.readline()
        if not line:
            raise RuntimeError('helper died')
        return json.loads(line)

    def close(self):
        try:
            self.p.stdin.close()
            self.p.wait(timeout=10)
        except BaseException:  # noqa
            self.p.kill()


def _files(mount):
    out = {}
    for n in sorted(os.listdir(mount)):
        p = os.path.join(mount, n)
        if os.path.isfile(p):
            with open(p, 'rb') as f:
                out[n] = f.read().hex()
    return out


def _start(root, prog):
    """prog: list of program lines, or {'corpus': 'suite/NAME'} for a program of the repository's test corpus."""
    if isinstance(prog, dict):
        src, opts, name = corpus_entry(prog['corpus'])
        box = harness.Box(root=root, budget=10 ** 9, wait_budget=50, **opts)
        for n in os.listdir(src):
            if os.path.isfile(os.path.join(src, n)) and n != 'PCBASIC.INI':
                shutil.copy(os.path.join(src, n), os.path.join(box.mount, n))
        box.ex(b'LOAD "%s"' % name.encode('latin-1'))
        return box
    box = harness.Box(root=root, budget=10 ** 9, wait_budget=50)
    box.enter(prog)
    return box


# ---- programs of the repository's own corpus (tests/basic/<suite>/<NAME>/) ------------------------------

_INI_OK = {'font', 'run', 'quit', 'soft-linefeed', 'video', 'syntax', 'video-memory', 'reserved-memory',
           'text-width', 'monitor'}
# what would make the two runs differ for reasons outside the property: wall-clock readings (the resumed
# process has its own clock), keyboard polling, other processes
_SKIP_WORDS = (b'TIMER', b'TIME$', b'DATE$', b'RANDOMIZE', b'INKEY$', b'SHELL', b'ENVIRON', b'IOCTL',
               # FILES prints the free space of the host disk, which changes between the two runs
               b'FILES')
# programs whose result depends on when buffers are flushed to the host file, which a suspension changes by design
_SKIP_PROGRAMS = {
    # the same host file is written through an OUTPUT and a RANDOM file number at the same time; its own comment says
    # "which write prevails depends on close sequencing": suspending flushes file 1 earlier than the uninterrupted run
    'unsorted/LockFilesOutput': 'one host file written through two file numbers; outcome depends on buffer flush order',
}


def corpus_entry(rel):
    src = os.path.join(harness.REPO, 'tests', 'basic', rel)
    opts, name = {}, None
    with open(os.path.join(src, 'PCBASIC.INI'), 'rb') as f:
        for line in f.read().decode('latin-1').splitlines():
            line = line.strip()
            if not line or line[0] in '#;[' or '=' not in line:
                continue
            k, v = [x.strip() for x in line.split('=', 1)]
            if k not in _INI_OK:
                return src, None, None
            if k == 'run':
                name = v
            elif k == 'soft-linefeed':
                opts['soft_linefeed'] = v.lower() == 'true'
            elif k in ('video', 'syntax', 'monitor'):
                opts[k] = v
            elif k in ('video-memory', 'reserved-memory', 'text-width'):
                opts[k.replace('-', '_')] = int(v)
    return src, opts, name


def corpus_programs():
    base = os.path.join(harness.REPO, 'tests', 'basic')
    out = []
    for suite in sorted(os.listdir(base)):
        if not os.path.isdir(os.path.join(base, suite)):
            continue
        for name in sorted(os.listdir(os.path.join(base, suite))):
            rel = '%s/%s' % (suite, name)
            if not os.path.exists(os.path.join(base, rel, 'PCBASIC.INI')):
                continue
            src, opts, prog = corpus_entry(rel)
            if opts is None or not prog or not os.path.exists(os.path.join(src, prog)):
                continue
            out.append(rel)
    return out


def _run_to(box, exit_at, budget):
    """RUN with our own persistent output pipe; Exit raised at boundary exit_at (None = never)."""
    box.stepper.reset(budget)
    box.stepper.exit_at = exit_at
    buf = io.BytesIO()
    box.s.add_pipes(output_streams=buf)
    exited = False
    with box.impl.io_streams.activate():
        try:
            box.impl.execute(b'RUN')
        except error.Exit:
            exited = True
    box.s.remove_pipes(output_streams=buf)
    return buf.getvalue(), exited


def _reference(lines, budget):
    root = tempfile.mkdtemp(prefix='vf40r_')
    try:
        box = _start(root, lines)
        names = NAMES
        if isinstance(lines, dict):
            # the listing is taken in a session of its own: it must not be on the reference run's screen
            listing = box.ex(b'LIST').upper()
            box.close()
            if any(w in listing for w in _SKIP_WORDS) or lines['corpus'] in _SKIP_PROGRAMS:
                return None, 0, 'skip'
            shutil.rmtree(root, ignore_errors=True)
            box = _start(root, lines)
        out, exited = _run_to(box, None, budget)
        nb = box.stepper.boundaries
        if isinstance(lines, dict):
            names = c40_helper.all_names(box.s)
        obs = c40_helper.observe(box.s, names)
        obs['names'] = names
        brk = box.stepper.break_hit
        box.close()
        obs['files'] = _files(os.path.join(root, 'c'))
        obs['out'] = out.hex()
        return obs, nb, brk
    finally:
        shutil.rmtree(root, ignore_errors=True)


def _interrupted(helper, lines, k, budget, res, case, names=NAMES):
    root = tempfile.mkdtemp(prefix='vf40i_')
    try:
        box = _start(root, lines)
        out1, exited = _run_to(box, k, budget)
        if not exited:
            box.close()
            return None
        state = os.path.join(root, 'state.bin')
        box.s.suspend(state)
        box.close()
        rep = helper.ask({'op': 'resume', 'state': state, 'budget': budget, 'names': names})
        if 'internal' in rep:
            res.violation(rep['internal'], 'resume raised: %s' % rep.get('tb', ''), case)
            return None
        rep['files'] = _files(os.path.join(root, 'c'))
        rep['out'] = (out1 + bytes.fromhex(rep['out'])).hex()
        return rep
    finally:
        shutil.rmtree(root, ignore_errors=True)


def _compare(ref, got, res, case, k):
    for field in ('out', 'vars', 'files', 'chars', 'pixels', 'cursor'):
        if ref[field] != got[field]:
            detail = ''
            if field == 'out':
                a, b = bytes.fromhex(ref['out']), bytes.fromhex(got['out'])
                i = next((j for j in range(min(len(a), len(b))) if a[j] != b[j]), min(len(a), len(b)))
                detail = 'expected ...%r got ...%r' % (a[max(0, i - 30):i + 40], b[max(0, i - 30):i + 40])
            elif field == 'vars':
                d = [(n, ref['vars'][n], got['vars'][n]) for n in ref['vars'] if ref['vars'][n] != got['vars'].get(n)]
                detail = repr(d[:4])
            elif field == 'files':
                d = [n for n in set(ref['files']) | set(got['files']) if ref['files'].get(n) != got['files'].get(n)]
                detail = 'files differing: %r' % d
            res.violation('resume:%s-differs' % field, 'interrupted at boundary %d: %s differs from the uninterrupted run; %s'
                          % (k, field, detail), case)
            return False
    return True


def _check_program(helper, lines, rng, res, maxk, budget=4000):
    ref, nb, brk = _reference(lines, budget)
    if brk == 'skip':
        res.count('corpus_programs_skipped_for_clock_or_keyboard_use')
        return
    if brk:
        res.count('reference_hit_budget')
        return
    key = tuple(lines) if not isinstance(lines, dict) else lines['corpus']
    ks = list(range(2, nb + 1))
    if len(ks) > maxk:
        ks = sorted(rng.sample(ks, maxk))
    else:
        res.count('programs_with_every_boundary')
    for k in ks:
        case = {'program': lines, 'interrupt_at_boundary': k}
        try:
            with harness.time_limit(120):
                got = _interrupted(helper, lines, k, budget, res, case, ref['names'])
        except harness.CaseTimeout:
            res.count('case_timeouts')
            continue
        if got is None:
            res.case((key, k), nontrivial=False)
            continue
        res.case((key, k))
        res.count('resumed_mid_program')
        if isinstance(lines, dict):
            res.count('resumed_mid_corpus_program')
        if got.get('break'):
            res.count('resumed_hit_budget')
            continue
        _compare(ref, got, res, case, k)
    res.maxc('max_boundaries_in_a_program', nb)


def run_shard(spec, res):
    kind = spec['kind']
    rng = random.Random('%s:C40:%s:%s' % (spec['seed'], kind, spec.get('part', 0)))
    if kind == 'tamper':
        return _tamper(spec, rng, res)
    helper = Helper()
    try:
        if kind == 'corpus':
            progs = corpus_programs()
            rng0 = random.Random('%s:C40:corpus-order' % spec['seed'])
            rng0.shuffle(progs)
            mine = progs[spec['part']::spec['parts']][:spec['programs']]
            for rel in mine:
                res.count('corpus_programs_tried')
                _check_program(helper, {'corpus': rel}, rng, res, spec['maxk'])
            res.sample({'kind': 'corpus', 'programs': mine[:5]})
        elif kind == 'directed':
            for lines in DIRECTED:
                _check_program(helper, lines, rng, res, 150)
            res.sample({'kind': 'directed', 'program': DIRECTED[2]})
        else:
            for i in range(spec['programs']):
                lines = gen_program(rng)
                _check_program(helper, lines, rng, res, spec['maxk'])
                if i == 0:
                    res.sample({'kind': 'generated', 'program': lines})
    finally:
        helper.close()


def _tamper(spec, rng, res):
    """Every single-byte alteration of small state files must be rejected by load_session."""
    helper = Helper()
    root = tempfile.mkdtemp(prefix='vf40t_')
    try:
        for fi in range(spec['files']):
            lines = DIRECTED[fi % len(DIRECTED)]
            box = _start(os.path.join(root, 'b%d' % fi), lines)
            _run_to(box, 3 + fi, 1000)
            state = os.path.join(root, 'state%d.bin' % fi)
            box.s.suspend(state)
            box.close()
            with open(state, 'rb') as f:
                data = f.read()
            rep = helper.ask({'op': 'load', 'state': state})
            if not rep.get('loaded'):
                res.inconclusive('unaltered state file does not load: %r' % rep)
                return
            res.count('state_file_bytes', len(data))
            tpath = os.path.join(root, 'tampered.bin')
            # positions: every byte of the header and a dense sample of the body in quick, all in thorough
            positions = range(len(data))
            if spec['tier'] == 'quick' and len(data) > 6000:
                positions = sorted(set(list(range(0, 64)) + list(range(len(data) - 64, len(data)))
                                       + rng.sample(range(64, len(data) - 64), 2500)))
            n = 0
            for pos in positions:
                # the 24 header bytes (checksum and version fields): every other value; the body: three alterations
                for x in (range(1, 256) if pos < 24 else (1, 0x80, 0xff)):
                    b = bytearray(data)
                    b[pos] ^= x
                    with open(tpath, 'wb') as f:
                        f.write(b)
                    rep = helper.ask({'op': 'load', 'state': tpath})
                    n += 1
                    if rep.get('loaded'):
                        region = 'header-bytes-%d-%d' % (pos // 4 * 4, pos // 4 * 4 + 3) if pos < 24 else 'body'
                        res.violation('tamper:altered-%s-accepted' % region,
                                      'state file with byte %d xor %#x loads without error' % (pos, x),
                                      {'position': pos, 'xor': x, 'file_size': len(data)})
                    else:
                        res.count('tamper_rejected')
            res.bulk(n, n)
            if len(positions) == len(data):
                res.count('files_tampered_exhaustively')
        res.sample({'kind': 'tamper', 'alterations': 'header bytes 0-23: all 255 other values; every chosen body byte xor 1, 0x80, 0xff'})
    finally:
        helper.close()
        shutil.rmtree(root, ignore_errors=True)
