"""
C28 DOS file names map to host files consistently.

Oracle: the property's own rules, evaluated against (1) the host directory listing after every
statement, (2) the error code / data the statement returns, (3) the FILES output.

 pinned class  = legal 8.3 names: trunk 1-8 and optional extension 1-3 of the allowable characters,
                 no blank at either end of trunk or extension, at most one dot, not a device name.
   * created (OPEN FOR OUTPUT/APPEND/RANDOM, SAVE) -> exactly one new host file, named in upper case;
     program files (SAVE) get '.BAS' exactly when the name has no dot;
   * a random re-capitalisation of the name opens it (same data), lists it (FILES <name>), renames
     it (NAME), appends to it (no second file appears), loads it and kills it;
   * the full FILES listing has an entry for every visible host file; a host file whose name is a
     legal 8.3 name in any case is listed as that name in upper case, and that listed name opens it.
 illegal class = a name with a blank next to the dot (end of the trunk or start of the extension, otherwise
                 legal: "TRAIL .TXT", "A. XT"), or
                 a legal-length name with a character that DOS forbids (" * + , ; < = > ? [ ] | or a
                 control byte) or with a second dot within three characters after the first one: error 64
                 and an unchanged directory (a later second dot falls under the truncation of over-long
                 extensions, special class).
 special classes (trailing dots / blanks and leading blanks of the WHOLE name, empty trunk, device names,
                 names longer than 8.3, bytes >= 0x7f, NUL, empty): only 'consistent and no crash': a BASIC
                 error leaves the directory unchanged; a successful create yields at most one new file,
                 whose host name has no blank at an edge of trunk or extension (e.g. after clipping
                 "ABCDEFG HI.TXT"), and which the same name AND re-capitalisations open again with the same data.
                 The same raw name then goes through the statements that apply the default extension (SAVE
                 [,A|,P] then LOAD / RUN "file" / CHAIN / MERGE; BSAVE then BLOAD), with the data-file statement
                 as reference: rejected there -> rejected here, nothing created; created H there -> accepted
                 here, creating H (name has a dot) or H.BAS (no dot), and read back under the same spelling and
                 re-capitalisations. Existing programs are also read (LOAD/RUN/CHAIN/MERGE) and overwritten (SAVE)
                 under re-capitalised spellings, dot-less and with extension, padded with trailing blanks whenever
                 the interpreter accepts the padded full name in OPEN ... FOR INPUT.
 paths:          the same statements addressed through paths (C:, C:\\, \\, .\\, ..\\, sub-directories incl. ones with a
                 dot in their name, mixtures, from cwd = root / SUBDIR / DIR.EXT): where OPEN <path+base> FOR OUTPUT
                 puts D/H, SAVE[,A|,P] and LIST ,file must put D/H.BAS (dot-less base) or D/H (dotted base); LOAD /
                 RUN / CHAIN / MERGE read it back under the same path, a re-capitalised path and every other prefix by
                 which OPEN finds the .BAS file; BSAVE/BLOAD use the same directory and the bare-name extension rule.
"""
import os
import random
import shutil
import tempfile

META = {
    'property_id': 'C28',
    'technique': 'rule oracle over host directory listings, FILES output and read-back data, on create/open/list/rename/kill histories',
    'level': 'exploration',
    'level_text': (
        'Runtime oracle: after every name-bearing statement the real host directory is compared with the set of '
        'names the property\'s rules predict (upper-case 8.3, .BAS exactly for dot-less program names), the data read '
        'back under a random re-capitalisation is compared with what was written, FILES output is parsed and '
        'compared with the host listing, and every listed legal name is re-opened. Directed boundary table (every '
        'allowable and every forbidden character, dots in every position, length limits) + seeded random histories '
        'with several files alive at once.'),
    'level_note': (
        'Trusted: os.listdir of the mount, the harness. Pinned: legal 8.3 names (see module docstring) and names with a '
        'forbidden character / a second dot within the 3-character extension / a blank next to the dot (error 64 for OPEN, SAVE, LOAD, NAME, MKDIR; KILL and FILES take a file MASK, '
        'where 53 File not found is accepted as well). Not pinned, so only consistency is required: trailing dots and '
        'blanks of the whole name (incl. control white space), leading blanks of the whole name, empty trunk (.EXT, hidden on POSIX), device names '
        'AUX/CON/NUL/PRN, names longer than 8.3 (pcbasic truncates), bytes 0x7f-0xff (GW-BASIC allows some), NUL, '
        'the empty name; host files whose names are not legal 8.3 names (long, forbidden characters, non-ASCII) must '
        'be LISTED (entry count) but no name is required to open them; host names that differ only in case are not '
        'generated (ambiguous on a case-sensitive host). Which error a missing file gives is not checked. '
        'Which extension BSAVE gives a dot-less name is not pinned (only that BLOAD finds the file again and that BSAVE '
        'accepts exactly the names OPEN accepts). Unpinned name shapes are compared differentially: the statements that '
        'apply the default extension must accept, reject and map a name as the data-file statement OPEN does.'),
    'rule': ('case = (operation, DOS name as spelled, names alive in the mount); distinct by that tuple; '
             'non-trivial = the statement was executed and the host directory / returned data were compared'),
    'design_ref': 'DESIGN.md section 4 C28',
    'assumptions': ['case-sensitive POSIX host file system under the mount',
                    'allowable DOS characters: A-Z a-z 0-9 blank ! # $ % & \' ( ) - @ ^ _ ` { } ~'],
    'require_counters': {'any': ['files_created', 'recap_opens_ok', 'recap_kills_ok', 'recap_renames_ok',
                                 'recap_files_listed', 'bas_extension_added', 'bas_extension_not_added',
                                 'illegal_names_rejected', 'dot_adjacent_blank_rejected', 'files_listings_compared',
                                 'listed_names_reopened', 'program_read_by_load', 'program_read_by_run',
                                 'program_read_by_chain', 'program_read_by_merge', 'recap_resaves_ok',
                                 'padded_program_names_ok', 'special_program_names_saved',
                                 'special_program_names_rejected_like_data', 'special_bsave_bload_ok', 'path_programs_saved',
                                 'path_programs_saved_through_dotted_path', 'path_programs_read_back',
                                 'path_programs_read_through_other_path', 'path_specs_rejected_like_data',
                                 'path_bsave_bload_ok']},
}

LETTERS = b'ABCDEFGHIJKLMNOPQRSTUVWXYZ'
DIGITS = b'0123456789'
PUNCT = b"!#$%&'()-@^_`{}~"
ALLOWED = set(LETTERS + LETTERS.lower() + DIGITS + PUNCT + b' ')
FORBIDDEN = b'"*+,;<=>?[]|'
CONTROL_NONWS = bytes(c for c in range(1, 32) if c not in (9, 10, 11, 12, 13))
DEVICE_NAMES = (b'AUX', b'CON', b'NUL', b'PRN')


# ---------------------------------------------------------------------------------------
# the oracle's own notion of names

def split83(name):
    """(trunk, ext, ndots)"""
    nd = name.count(b'.')
    trunk, _, ext = name.partition(b'.')
    return trunk, ext, nd


def is_pinned_legal(name):
    trunk, ext, nd = split83(name)
    if nd > 1 or not (1 <= len(trunk) <= 8) or len(ext) > 3:
        return False
    if nd == 1 and not ext:
        return False        # trailing dot: special class
    if not set(trunk + ext) <= ALLOWED:
        return False
    if trunk != trunk.strip(b' ') or ext != ext.strip(b' '):
        return False
    if trunk.upper() in DEVICE_NAMES:
        return False
    return True


def up(name):
    """DOS upper-casing: only a-z change."""
    return bytes(c - 32 if 97 <= c <= 122 else c for c in name)


def recap(rng, name):
    out = bytearray(name)
    for i, c in enumerate(out):
        if (65 <= c <= 90 or 97 <= c <= 122) and rng.random() < 0.5:
            out[i] = c ^ 32
    return bytes(out)


def fmt_entry(name):
    trunk, ext, _ = split83(name)
    return trunk.ljust(8) + (b'.' if ext or not trunk else b' ') + ext.ljust(3)


def gen_legal(rng, taken, dotted=None):
    """Random pinned-legal name in random case whose upper form is not in `taken`."""
    for _ in range(200):
        alpha = LETTERS + LETTERS.lower() + DIGITS if rng.random() < 0.6 else bytes(sorted(ALLOWED))
        tl = rng.choice([1, 1, 2, 3, 4, 5, 6, 7, 8, 8, 8])
        trunk = bytes(rng.choice(alpha) for _ in range(tl))
        has_ext = (rng.random() < 0.6) if dotted is None else dotted
        ext = bytes(rng.choice(alpha) for _ in range(rng.choice([1, 2, 3, 3]))) if has_ext else b''
        name = trunk + (b'.' + ext if has_ext else b'')
        if not is_pinned_legal(name):
            continue
        u = up(name)
        if u in taken or u + b'.BAS' in taken or (u.endswith(b'.BAS') and u[:-4] in taken):
            continue
        return name
    raise RuntimeError('no free name')


def gen_dot_blank(rng):
    """A name that is legal except for a blank at the end of the trunk and/or the start of the extension
    (a blank next to the dot); lengths stay within 8.3 and the name does not end in a blank or a dot."""
    base = gen_legal(rng, (), dotted=True)
    trunk, ext, nd = split83(base)
    k = rng.choice([1, 1, 1, 2])
    how = rng.choice(['trunk', 'trunk', 'ext', 'ext', 'both'])
    if how in ('trunk', 'both'):
        trunk = trunk[:8 - k] + b' ' * k
    if how in ('ext', 'both'):
        tail = ext[:3 - min(k, 2)].rstrip(b' ') or b'X'
        ext = b' ' * min(k, 2) + tail
    return trunk + b'.' + ext


def gen_illegal(rng):
    """A name of legal shape spoiled by one forbidden character or by a second interior dot."""
    base = gen_legal(rng, ())
    trunk, ext, nd = split83(base)
    r = rng.random()
    if r < 0.15:
        return gen_dot_blank(rng), 'dot-adjacent-blank'
    r = rng.random()
    if r < 0.2:
        # a second dot within the first three characters after the first one (a later dot is cut off by
        # the truncation of over-long extensions, which belongs to the unpinned 'overlong' class)
        mid = (ext or b'c')[:rng.choice([0, 1, 1, 2, 2])]
        parts = [trunk, mid, rng.choice([b'd', b'x', b'TXT', (ext or b'e')[:1]])]
        if rng.random() < 0.3:
            parts.append(b'z')
        return b'.'.join(parts), 'multi-dot'
    bad = rng.choice(FORBIDDEN) if r < 0.7 else rng.choice(CONTROL_NONWS)
    in_ext = bool(ext) and rng.random() < 0.4
    part = bytearray(ext if in_ext else trunk)
    limit = 3 if in_ext else 8
    pos = rng.randrange(len(part) + 1)
    if len(part) < limit and (rng.random() < 0.5 or pos == len(part)):
        part[pos:pos] = bytes([bad])
    else:
        part[min(pos, len(part) - 1)] = bad
    if in_ext:
        name = trunk + b'.' + bytes(part)
    else:
        name = bytes(part) + (b'.' + ext if nd else b'')
    return name, ('forbidden-char' if bad in FORBIDDEN else 'control-char')


# ---------------------------------------------------------------------------------------
# mount + model

PRE_FIXED = [
    # (host name, is_dir)
    ('MixedCas.Txt', False), ('lower.dat', False), ('UPPER.TXT', False), ('NOEXT', False), ('with spc.x', False),
    ('LongFileName.text', False), ('NoExtLongName', False), ('x.toolong', False), ('a+b.txt', False),
    ('café.txt', False), ('.hidden', False), ('two.dots.x', False), ('{~}.`1', False),
    ('SUBDIR', True), ('LongDirectoryName', True), ('lowdir', True), ('DIR.EXT', True), ('Mixed.Dir', True),
]

# path prefixes for the default-extension statements (directories of PRE_FIXED; cwd = root, SUBDIR or DIR.EXT)
PATH_PREFIXES = [b'C:', b'C:\\', b'\\', b'.\\', b'..\\', b'SUBDIR\\', b'SUBDIR\\..\\', b'DIR.EXT\\', b'\\DIR.EXT\\',
                 b'C:DIR.EXT\\', b'C:\\SUBDIR\\..\\DIR.EXT\\', b'.\\SUBDIR\\', b'SUBDIR\\.\\', b'DIR.EXT\\..\\SUBDIR\\',
                 b'lowdir\\', b'LOWDIR\\..\\', b'..\\..\\', b'.\\.\\', b'c:.\\', b'Dir.Ext\\.\\', b'MIXED.DIR\\', b'mixed.dir\\..\\',
                 b'..\\DIR.EXT\\', b'..\\SUBDIR\\', b'\\SUBDIR\\', b'C:..\\', b'DIR.EXT\\.\\..\\', b'A:', b'NODIR\\', b'NO.DIR\\']
PATH_CWDS = [b'', b'SUBDIR', b'DIR.EXT']


def gen_prefix(rng):
    p = rng.choice([b'', b'', b'C:', b'c:', b'\\', b'C:\\'])
    for _ in range(rng.choice([0, 1, 1, 2, 2, 3, 4])):
        p += rng.choice([b'.', b'.', b'..', b'..', b'SUBDIR', b'subdir', b'DIR.EXT', b'Dir.Ext', b'lowdir', b'LOWDIR', b'Mixed.Dir',
                         b'MIXED.DIR']) + b'\\'
    return p



def parse_files(out):
    """FILES output -> (file entries, dir entries) as DOS names (bytes) in listing order, or None on error."""
    files, dirs = [], []
    lines = out.split(b'\r\n')
    for l in lines[1:]:
        if not l.strip() or b'Bytes free' in l or l.endswith(b'\xff'):
            continue
        for i in range(0, len(l), 18):
            chunk = l[i:i + 17]
            if len(chunk) < 9 or not chunk.strip():
                continue
            chunk = chunk.ljust(17)
            trunk, ext, tag = chunk[0:8].rstrip(b' '), chunk[9:12].rstrip(b' '), chunk[12:17]
            name = trunk + (b'.' + ext if ext else b'')
            (dirs if tag == b'<DIR>' else files).append(name)
    return files, dirs


class Mount(object):

    def __init__(self, res, rng=None, n_random_pre=0, fixed=True):
        from .. import harness
        self.harness = harness
        self.res = res
        self.box = harness.Box(budget=2000, wait_budget=100)
        self.dir = self.box.mount
        self.serial = 0
        self.pre = {}       # host name -> first line (pre-existing files)
        self.predirs = set()
        self.model = {}     # host name (str) -> {'lines': [bytes], 'prog': marker or None, 'protected': bool}
        try:
            if fixed:
                for name, isdir in PRE_FIXED:
                    self._plant(name, isdir)
            if rng is not None:
                for _ in range(n_random_pre):
                    nm = gen_legal(rng, self.taken())
                    self._plant(recap(rng, nm).decode('ascii'), rng.random() < 0.15)
        except BaseException:
            self.close()
            raise

    def _plant(self, name, isdir):
        p = os.path.join(self.dir, name)
        if isdir:
            os.mkdir(p)
            self.predirs.add(name)
        else:
            self.serial += 1
            line = b'pre%d' % self.serial
            with open(p, 'wb') as f:
                f.write(line + b'\r\n')
            self.pre[name] = line

    def close(self):
        self.box.close()

    def __enter__(self):
        return self

    def __exit__(self, *a):
        self.close()
        return False

    def taken(self):
        """Upper-cased byte names of everything in the mount (for collision avoidance)."""
        out = set()
        for n in list(self.pre) + list(self.predirs) + list(self.model):
            try:
                out.add(up(n.encode('ascii')))
            except UnicodeEncodeError:
                pass
        return out

    def expected_host(self):
        return set(self.pre) | self.predirs | set(self.model)

    def host(self):
        return set(os.listdir(self.dir))

    def any_existing(self):
        """DOS spelling of some existing pinned-legal file, or None."""
        for h in sorted(self.model) + sorted(self.pre):
            try:
                hb = h.encode('ascii')
            except UnicodeEncodeError:
                continue
            if is_pinned_legal(hb):
                return hb
        return None

    def content(self):
        self.serial += 1
        return b'vf%d' % self.serial

    # -- running one statement ---------------------------------------------------------------
    def ex(self, stmt, case, **vars):
        """-> (error code, output) or (None, None) after reporting an internal error."""
        box, harness = self.box, self.harness
        try:
            for k, v in vars.items():
                box.set(k + '$', v)
            out = box.ex(stmt)
            box.ex(b'CLOSE')
        except harness.Internal as e:
            self.res.count('internal_errors')
            self.res.violation(e.key, '%s with %r: %s' % (stmt.decode('latin-1'), vars, e), case)
            try:
                box.ex(b'CLOSE')
            except harness.Internal:
                pass
            return None, None
        return harness.err_of(out)[0], out

    def check_host(self, what, case, spelled=None):
        """Compare the host directory with the model; classify a difference by mechanism."""
        exp, act = self.expected_host(), self.host()
        if exp == act:
            return True
        missing, extra = exp - act, act - exp
        key = 'host:unexpected-directory-content'
        mu = set(m.upper() for m in missing)
        if extra and all(e.upper() in mu for e in extra):
            key = 'name:not-uppercased'
        elif extra and any(e.upper() + '.BAS' in mu for e in extra):
            key = 'bas:extension-not-added-to-dotless-name'
        elif extra and any(e.upper().endswith('.BAS') and e.upper()[:-4] in mu for e in extra):
            key = 'bas:extension-added-to-dotted-name'
        elif extra and not missing and any(e.upper() in set(x.upper() for x in exp) for e in extra):
            key = 'recap:second-file-created-for-same-name'
        elif missing and not extra:
            key = 'host:file-missing'
        elif extra and any(e.partition('.')[0] != e.partition('.')[0].strip(' ') or
                           e.partition('.')[2] != e.partition('.')[2].strip(' ') for e in extra):
            key = 'name:host-name-with-edge-blank'
        self.res.violation(key, '%s (name as spelled %r): host directory has extra %r, lacks %r' % (
            what, spelled, sorted(extra), sorted(missing)), case)
        # resynchronise the model with reality so that one fault is reported once
        for m in missing:
            self.model.pop(m, None)
            self.pre.pop(m, None)
            self.predirs.discard(m)
        for e in extra:
            p = os.path.join(self.dir, e)
            try:
                if os.path.isdir(p):
                    shutil.rmtree(p)
                else:
                    os.remove(p)
            except OSError:
                pass
        return False

    # -- pinned operations ------------------------------------------------------------------------
    def create(self, rng, name, mode):
        res = self.res
        c = self.content()
        case = {'op': 'create-' + mode, 'name': name, 'alive': sorted(self.model)}
        res.case(('create', mode, name, tuple(sorted(self.model))))
        if mode == 'O':
            code, out = self.ex(b'OPEN N$ FOR OUTPUT AS 1:PRINT#1,C$:CLOSE', case, N=name, C=c)
        elif mode == 'A':
            code, out = self.ex(b'OPEN N$ FOR APPEND AS 1:PRINT#1,C$:CLOSE', case, N=name, C=c)
        else:
            code, out = self.ex(b'OPEN N$ AS 1 LEN=%d:FIELD#1,%d AS F$:LSET F$=C$:PUT#1,1:CLOSE' % (len(c) + 2, len(c) + 2),
                                case, N=name, C=c + b'\r\n')
        if code is None:
            return False
        if code != 0:
            res.violation('create:legal-name-rejected', 'creating %r (mode %s) gave error %d %r' % (name, mode, code, out[:60]), case)
            self.check_host('after failed create', case, name)
            return False
        host = up(name).decode('ascii')
        self.model[host] = {'lines': [c], 'prog': None, 'protected': False}
        if self.check_host('after creating %r (mode %s)' % (name, mode), case, name):
            res.count('files_created')
            if name != up(name):
                res.count('created_from_non_upper_spelling')
            return True
        return False

    def save(self, rng, name, variant):
        res = self.res
        self.serial += 1
        marker = b'VFMARK%d' % self.serial
        case = {'op': 'save' + variant.decode(), 'name': name, 'alive': sorted(self.model)}
        res.case(('save', variant, name, tuple(sorted(self.model))))
        try:
            self.box.ex(b'NEW')
            self.box.ex(b'10 REM ' + marker)
            self.box.ex(b'20 A=%d' % self.serial)
        except self.harness.Internal as e:
            res.violation(e.key, str(e), case)
            return False
        code, out = self.ex(b'SAVE N$' + variant, case, N=name)
        if code is None:
            return False
        if code != 0:
            res.violation('create:legal-name-rejected', 'SAVE %r gave error %d %r' % (name, code, out[:60]), case)
            self.check_host('after failed SAVE', case, name)
            return False
        dotted = b'.' in name
        host = (up(name) + (b'' if dotted else b'.BAS')).decode('ascii')
        self.model[host] = {'lines': None, 'prog': marker, 'protected': variant == b',P', 'ascii': variant == b',A',
                            'saved_as': name}
        if self.check_host('after SAVE %r%s' % (name, variant.decode()), case, name):
            res.count('files_created')
            res.count('bas_extension_not_added' if dotted else 'bas_extension_added')
            return True
        return False

    def spell(self, rng, host):
        """A re-capitalised DOS spelling of an existing model file (host name)."""
        return recap(rng, host.encode('ascii'))

    def read(self, rng, host):
        res = self.res
        m = self.model[host]
        sp = self.spell(rng, host)
        case = {'op': 'open-input', 'name': sp, 'host': host, 'alive': sorted(self.model)}
        res.case(('read', sp, tuple(sorted(self.model))))
        if m['prog'] is not None:
            return self.load(rng, host)
        code, out = self.ex(b'A$="":OPEN N$ FOR INPUT AS 1:LINE INPUT#1,A$:CLOSE', case, N=sp)
        if code is None:
            return False
        if code != 0:
            res.violation('recap:open-failed', 'file created as %s cannot be opened as %r: error %d' % (host, sp, code), case)
            return False
        got = self.box.get('A$')
        if got != m['lines'][0]:
            res.violation('recap:open-wrong-data', 'file %s opened as %r returned %r, expected %r' % (host, sp, got, m['lines'][0]), case)
            return False
        # the host file as a whole (append went to the right file)
        with open(os.path.join(self.dir, host), 'rb') as f:
            data = f.read().rstrip(b'\x1a')
        if data != b''.join(l + b'\r\n' for l in m['lines']):
            res.violation('recap:host-data-differs', 'host file %s holds %r, expected lines %r' % (host, data[:80], m['lines']), case)
            return False
        res.count('recap_opens_ok')
        self.check_host('after OPEN FOR INPUT', case, sp)
        return True

    LOADERS = {'load': b'LOAD N$', 'run': b'RUN N$', 'chain': b'CHAIN N$', 'merge': b'MERGE N$'}

    def padding(self, rng, full_spelling, case):
        """
        Trailing blanks for a spelling, or b''. Blanks after a name are not pinned by the statement, so they are
        used only when the interpreter itself treats the padded spelling as the same name in a data-file
        statement (OPEN <full name + blanks> FOR INPUT succeeds): the statements that apply the default
        extension must then treat it as the same name too.
        """
        if rng.random() >= 0.35:
            return b''
        deco = bytes(rng.choice(b'   \t') for _ in range(rng.randint(1, 3)))
        code, out = self.ex(b'OPEN N$ FOR INPUT AS 1', case, N=full_spelling + deco)
        if code != 0:
            self.res.count('padded_spelling_not_accepted_for_data_files')
            return b''
        return deco

    def load(self, rng, host):
        """LOAD / RUN "file" / CHAIN / MERGE of an existing program under a re-capitalised (and padded) spelling."""
        res = self.res
        m = self.model[host]
        hb = host.encode('ascii')
        forms = [hb]
        if hb.endswith(b'.BAS'):
            forms.append(hb[:-4])          # dot-less spelling gets the default extension
        sp = recap(rng, rng.choice(forms))
        kinds = ['load', 'load', 'run', 'chain'] + (['merge'] if m.get('ascii') else [])
        kind = rng.choice(kinds)
        case = {'op': kind, 'name': sp, 'host': host, 'alive': sorted(self.model)}
        deco = self.padding(rng, recap(rng, hb), case)
        sp += deco
        case['name'] = sp
        res.case((kind, sp, tuple(sorted(self.model))))
        try:
            self.box.ex(b'NEW')
        except self.harness.Internal as e:
            res.violation(e.key, str(e), case)
            return False
        code, out = self.ex(self.LOADERS[kind], case, N=sp)
        if code is None:
            return False
        if code != 0:
            key = 'defext:padded-name-accepted-as-data-file-rejected-as-program-file' if deco else 'recap:load-failed'
            res.violation(key, 'program saved as %s cannot be read by %s %r: error %d' % (host, kind.upper(), sp, code), case)
            return False
        if not m['protected']:
            try:
                listing = self.box.ex(b'LIST')
            except self.harness.Internal as e:
                res.violation(e.key, str(e), case)
                return False
            if m['prog'] not in listing:
                res.violation('recap:load-wrong-program', '%s %r loaded %r, expected marker %r' % (kind.upper(), sp, listing[:80], m['prog']), case)
                return False
        try:
            self.box.ex(b'NEW')
        except self.harness.Internal as e:
            res.violation(e.key, str(e), case)
        res.count('recap_loads_ok')
        res.count('program_read_by_' + kind)
        if b'.' not in sp:
            res.count('loads_by_dotless_name')
        if deco:
            res.count('padded_program_names_ok')
        return True

    def resave(self, rng, host):
        """SAVE over an existing program under a re-capitalised (and padded) spelling: same host file, no second one."""
        res = self.res
        m = self.model[host]
        hb = host.encode('ascii')
        forms = [hb]
        if hb.endswith(b'.BAS'):
            forms.append(hb[:-4])
        sp = recap(rng, rng.choice(forms))
        case = {'op': 'resave', 'name': sp, 'host': host, 'alive': sorted(self.model)}
        deco = self.padding(rng, recap(rng, hb), case)
        sp += deco
        case['name'] = sp
        variant = rng.choice([b'', b'', b',A', b',P'])
        res.case(('resave', sp, variant, tuple(sorted(self.model))))
        self.serial += 1
        marker = b'VFMARK%d' % self.serial
        try:
            self.box.ex(b'NEW')
            self.box.ex(b'10 REM ' + marker)
            self.box.ex(b'20 A=%d' % self.serial)
        except self.harness.Internal as e:
            res.violation(e.key, str(e), case)
            return False
        code, out = self.ex(b'SAVE N$' + variant, case, N=sp)
        if code is None:
            return False
        if code != 0:
            key = 'defext:padded-name-accepted-as-data-file-rejected-as-program-file' if deco else 'recap:save-over-existing-failed'
            res.violation(key, 'SAVE %r over existing %s gave error %d' % (sp, host, code), case)
            self.check_host('after failed SAVE over existing', case, sp)
            return False
        m.update({'prog': marker, 'protected': variant == b',P', 'ascii': variant == b',A'})
        if self.check_host('after SAVE %r over existing %s' % (sp, host), case, sp):
            res.count('recap_resaves_ok')
            if deco:
                res.count('padded_program_names_ok')
            return True
        return False

    def append(self, rng, host):
        res = self.res
        m = self.model[host]
        if m['prog'] is not None:
            return True
        sp = self.spell(rng, host)
        c = self.content()
        case = {'op': 'append', 'name': sp, 'host': host, 'alive': sorted(self.model)}
        res.case(('append', sp, tuple(sorted(self.model))))
        code, out = self.ex(b'OPEN N$ FOR APPEND AS 1:PRINT#1,C$:CLOSE', case, N=sp, C=c)
        if code is None:
            return False
        if code != 0:
            res.violation('recap:open-failed', 'file %s cannot be opened for APPEND as %r: error %d' % (host, sp, code), case)
            return False
        m['lines'].append(c)
        if self.check_host('after APPEND as %r' % sp, case, sp):
            res.count('recap_appends_ok')
            return True
        return False

    def files_one(self, rng, host):
        res = self.res
        sp = self.spell(rng, host)
        case = {'op': 'files-name', 'name': sp, 'host': host, 'alive': sorted(self.model)}
        res.case(('files1', sp, tuple(sorted(self.model))))
        code, out = self.ex(b'FILES N$', case, N=sp)
        if code is None:
            return False
        if code != 0:
            res.violation('recap:files-not-listed', 'FILES %r for existing %s gave error %d' % (sp, host, code), case)
            return False
        files, dirs = parse_files(out)
        if up(host.encode('ascii')) not in files:
            res.violation('recap:files-not-listed', 'FILES %r lists %r, not %s' % (sp, files, host.upper()), case)
            return False
        res.count('recap_files_listed')
        return True

    def rename(self, rng, host, new):
        res = self.res
        sp = self.spell(rng, host)
        case = {'op': 'name', 'name': sp, 'new': new, 'host': host, 'alive': sorted(self.model)}
        res.case(('name', sp, new, tuple(sorted(self.model))))
        code, out = self.ex(b'NAME N$ AS M$', case, N=sp, M=new)
        if code is None:
            return False
        if code != 0:
            res.violation('recap:name-failed', 'NAME %r AS %r for existing %s gave error %d' % (sp, new, host, code), case)
            self.check_host('after failed NAME', case, sp)
            return False
        self.model[up(new).decode('ascii')] = self.model.pop(host)
        if self.check_host('after NAME %r AS %r' % (sp, new), case, new):
            res.count('recap_renames_ok')
            return True
        return False

    def kill(self, rng, host):
        res = self.res
        sp = self.spell(rng, host)
        case = {'op': 'kill', 'name': sp, 'host': host, 'alive': sorted(self.model)}
        res.case(('kill', sp, tuple(sorted(self.model))))
        code, out = self.ex(b'KILL N$', case, N=sp)
        if code is None:
            return False
        if code != 0:
            res.violation('recap:kill-failed', 'KILL %r for existing %s gave error %d' % (sp, host, code), case)
            self.check_host('after failed KILL', case, sp)
            return False
        self.model.pop(host)
        if self.check_host('after KILL %r' % sp, case, sp):
            res.count('recap_kills_ok')
            return True
        return False

    # -- FILES lists every visible file under the name that opens it ------------------------------
    def files_all(self, rng, reopen=True):
        res = self.res
        case = {'op': 'files', 'host': sorted(self.host())}
        res.case(('files', tuple(sorted(self.host()))))
        code, out = self.ex(b'FILES', case)
        if code is None:
            return False
        if code == 53 and not [h for h in self.host() if not h.startswith('.')]:
            return True         # nothing visible: File not found is the GW-BASIC answer
        if code != 0:
            res.violation('files:listing-failed', 'FILES gave error %d with host directory %r' % (code, sorted(self.host())), case)
            return False
        files, dirs = parse_files(out)
        res.count('files_listings_compared')
        ok = True
        visible_files, visible_dirs, pinned = [], [], {}
        for h in self.host():
            if h.startswith('.'):
                continue
            p = os.path.join(self.dir, h)
            (visible_dirs if os.path.isdir(p) else visible_files).append(h)
            try:
                hb = h.encode('ascii')
            except UnicodeEncodeError:
                continue
            if not os.path.isdir(p) and is_pinned_legal(hb):
                pinned[h] = up(hb)
        if len(files) < len(visible_files):
            res.violation('files:visible-file-not-listed', 'FILES shows %d file entries %r for %d visible host files %r' % (
                len(files), files, len(visible_files), sorted(visible_files)), case)
            ok = False
        if len([d for d in dirs if d not in (b'', b'.', b'..')]) < len(visible_dirs):
            res.violation('files:visible-directory-not-listed', 'FILES shows directories %r for host directories %r' % (
                dirs, sorted(visible_dirs)), case)
            ok = False
        for h, dosname in sorted(pinned.items()):
            if dosname not in files:
                res.violation('files:visible-file-not-listed', 'host file %r (legal 8.3 name) is not listed as %r; entries %r' % (
                    h, dosname, files), case)
                ok = False
                continue
            res.count('pinned_host_files_listed')
            if h != h.upper():
                res.count('mixed_case_host_files_listed')
            if not reopen:
                continue
            # the listed name opens it
            first = self.pre.get(h)
            m = self.model.get(h)
            if first is None and m is not None and m['lines']:
                first = m['lines'][0]
            if first is None:
                continue
            sp = dosname if rng is None or rng.random() < 0.5 else recap(rng, dosname)
            c2 = dict(case, listed=dosname, spelled=sp)
            code, out = self.ex(b'A$="":OPEN N$ FOR INPUT AS 1:LINE INPUT#1,A$:CLOSE', c2, N=sp)
            if code is None:
                ok = False
                continue
            if code != 0:
                res.violation('files:listed-name-does-not-open-file', 'host file %r is listed as %r but OPEN %r gives error %d' % (
                    h, dosname, sp, code), c2)
                ok = False
                continue
            got = self.box.get('A$')
            if got != first:
                res.violation('files:listed-name-opens-other-file', 'host file %r listed as %r: OPEN %r read %r, expected %r' % (
                    h, dosname, sp, got, first), c2)
                ok = False
                continue
            res.count('listed_names_reopened')
        return ok

    # -- illegal names ---------------------------------------------------------------------------
    def illegal(self, rng, name, why, op):
        res = self.res
        case = {'op': 'illegal-' + op, 'name': name, 'why': why}
        if op in ('kill', 'files') and (b'*' in name or b'?' in name):
            op = 'open_i'           # * and ? are legitimate in a file MASK
            case['op'] = 'illegal-open_i'
        res.case(('illegal', op, name))
        accept = (64,)
        if op == 'open_o':
            code, out = self.ex(b'OPEN N$ FOR OUTPUT AS 1', case, N=name)
        elif op == 'open_i':
            code, out = self.ex(b'OPEN N$ FOR INPUT AS 1', case, N=name)
        elif op == 'open_a':
            code, out = self.ex(b'OPEN N$ FOR APPEND AS 1', case, N=name)
        elif op == 'open_r':
            code, out = self.ex(b'OPEN N$ AS 1', case, N=name)
        elif op == 'save':
            try:
                self.box.ex(b'NEW')
                self.box.ex(b'10 REM x')
            except self.harness.Internal as e:
                res.violation(e.key, str(e), case)
                return False
            code, out = self.ex(b'SAVE N$', case, N=name)
        elif op == 'load':
            code, out = self.ex(b'LOAD N$', case, N=name)
        elif op == 'name_new':
            old = self.any_existing()
            if old is None:
                return True
            code, out = self.ex(b'NAME N$ AS M$', case, N=old, M=name)
        elif op == 'name_old':
            code, out = self.ex(b'NAME N$ AS M$', case, N=name, M=b'FREE.NAM')
        elif op == 'mkdir':
            code, out = self.ex(b'MKDIR N$', case, N=name)
        elif op == 'kill':
            code, out = self.ex(b'KILL N$', case, N=name)
            accept = (64, 53)
        elif op == 'files':
            code, out = self.ex(b'FILES N$', case, N=name)
            accept = (64, 53)
        else:
            raise ValueError(op)
        if code is None:
            return False
        ok = True
        if code not in accept:
            res.violation('illegal:%s-not-bad-file-name' % why,
                          '%s with illegal name %r gave %s, expected error 64' % (op, name, 'no error' if code == 0 else 'error %d' % code), case)
            ok = False
        else:
            res.count('illegal_names_rejected')
            if why == 'dot-adjacent-blank':
                res.count('dot_adjacent_blank_rejected')
        if not self.check_host('after %s with illegal name %r' % (op, name), case, name):
            ok = False
        return ok

    # -- special classes: consistent and no crash ------------------------------------------------
    def special(self, rng, name, cls):
        res = self.res
        c = self.content()
        case = {'op': 'special-' + cls, 'name': name}
        res.case(('special', cls, name))
        before = self.host()
        code, out = self.ex(b'OPEN N$ FOR OUTPUT AS 1:PRINT#1,C$:CLOSE', case, N=name, C=c)
        if code is None:
            self._cleanup(before)
            return False
        new = self.host() - before
        gone = before - self.host()
        ok = True
        res.count('special_names_tried')
        if gone:
            res.violation('special:%s-existing-file-removed' % cls, 'creating %r removed %r' % (name, sorted(gone)), case)
            ok = False
        if code != 0:
            res.count('special_names_rejected')
            if new:
                res.violation('special:%s-error-but-file-created' % cls, 'creating %r gave error %d but left %r' % (name, code, sorted(new)), case)
                ok = False
        elif len(new) > 1:
            res.violation('special:%s-several-files-created' % cls, 'creating %r left %r' % (name, sorted(new)), case)
            ok = False
        elif len(new) == 1:
            res.count('special_names_created')
            hn = sorted(new)[0]
            ht, _, he = hn.partition('.')
            if ht != ht.strip(' ') or he != he.strip(' '):
                res.violation('special:%s-host-name-with-edge-blank' % cls,
                              'creating %r left host file %r, whose trunk or extension begins or ends with a blank '
                              '(not a legal 8.3 name)' % (name, hn), case)
                ok = False
            for sp, what in ((name, 'same-name'), (recap(rng, name), 'recap'), (up(name), 'recap'), (name.lower(), 'recap')):
                code2, out2 = self.ex(b'A$="":OPEN N$ FOR INPUT AS 1:LINE INPUT#1,A$:CLOSE', case, N=sp)
                if code2 is None:
                    ok = False
                    break
                got = self.box.get('A$') if code2 == 0 else None
                if code2 != 0 or got != c:
                    key = 'special:%s-created-file-not-reopened-by-%s' % (cls, what)
                    if cls == 'device-name':
                        key = 'recap:device-name-alias-is-case-sensitive'
                    res.violation(key, 'OPEN %r FOR OUTPUT created host file %r, but OPEN %r FOR INPUT gives %s' % (
                        name, sorted(new), sp, ('error %d' % code2) if code2 else ('data %r instead of %r' % (got, c))), case)
                    ok = False
                    break
            else:
                res.count('special_names_reopened')
        self._cleanup(before)
        if cls != 'device-name':
            ok = self.special_program(rng, name, cls, code, new) and ok
        return ok

    def special_program(self, rng, name, cls, data_code, data_new):
        """
        The same raw name through the statements that apply the default extension (SAVE, then LOAD / RUN /
        CHAIN / MERGE; BSAVE, then BLOAD). The reference is what the data-file statement just did with it:
          rejected there  -> rejected here as well, nothing created;
          created H there -> accepted here, creating H (name has a dot) or H.BAS (no dot), and the program is
                             read back under the same spelling and re-capitalisations of it.
        """
        res = self.res
        if data_code == 0 and len(data_new) != 1:
            return True                 # nothing comparable (went to a device)
        accepted = data_code == 0
        dotted = b'.' in name
        ok = True
        before = self.host()
        variant = rng.choice([b'', b'', b',A', b',P'])
        case = {'op': 'special-program-' + cls, 'name': name, 'variant': variant,
                'data_file_result': sorted(data_new) if accepted else 'error %d' % data_code}
        res.case(('special-program', cls, name, variant))
        self.serial += 1
        marker = b'VFMARK%d' % self.serial
        try:
            self.box.ex(b'NEW')
            self.box.ex(b'10 REM ' + marker)
            self.box.ex(b'20 A=%d' % self.serial)
        except self.harness.Internal as e:
            res.violation(e.key, str(e), case)
            return False
        code, out = self.ex(b'SAVE N$' + variant, case, N=name)
        if code is None:
            self._cleanup(before)
            return False
        new = self.host() - before
        res.count('special_program_names_tried')
        if not accepted:
            if code == 0 or new:
                res.violation('defext:name-rejected-as-data-file-accepted-as-program-file',
                              'OPEN %r FOR OUTPUT gave error %d, but SAVE %r gave %s and created %r' % (
                                  name, data_code, name, 'no error' if code == 0 else 'error %d' % code, sorted(new)), case)
                ok = False
            else:
                res.count('special_program_names_rejected_like_data')
        elif code != 0:
            res.violation('defext:name-accepted-as-data-file-rejected-as-program-file',
                          'OPEN %r FOR OUTPUT created %r, but SAVE %r gives error %d' % (name, sorted(data_new), name, code), case)
            ok = False
            if new:
                res.violation('special:%s-error-but-file-created' % cls, 'SAVE %r gave error %d but left %r' % (name, code, sorted(new)), case)
        else:
            h = sorted(data_new)[0]
            want = h if dotted else h + '.BAS'
            if new != {want}:
                if not dotted and new == {h}:
                    key = 'bas:extension-not-added-to-dotless-name'
                elif dotted and new == {h + '.BAS'}:
                    key = 'bas:extension-added-to-dotted-name'
                else:
                    key = 'defext:program-file-mapped-to-other-host-name-than-data-file'
                res.violation(key, 'OPEN %r FOR OUTPUT created %r; SAVE %r created %r, expected %r' % (
                    name, h, name, sorted(new), want), case)
                ok = False
            else:
                res.count('special_program_names_saved')
                kinds = ['load', 'run', 'chain'] + (['merge'] if variant == b',A' else [])
                for sp, what in ((name, 'same-name'), (recap(rng, name), 'recap'), (up(name), 'recap'), (name.lower(), 'recap')):
                    kind = rng.choice(kinds)
                    try:
                        self.box.ex(b'NEW')
                    except self.harness.Internal as e:
                        res.violation(e.key, str(e), case)
                        ok = False
                        break
                    code2, out2 = self.ex(self.LOADERS[kind], case, N=sp)
                    if code2 is None:
                        ok = False
                        break
                    listing = b''
                    if code2 == 0 and variant != b',P':
                        try:
                            listing = self.box.ex(b'LIST')
                        except self.harness.Internal as e:
                            res.violation(e.key, str(e), case)
                            ok = False
                            break
                    if code2 != 0 or (variant != b',P' and marker not in listing):
                        res.violation('defext:%s-saved-program-not-read-back-by-%s' % (cls, what),
                                      'SAVE %r created %r, but %s %r gives %s' % (
                                          name, want, kind.upper(), sp,
                                          ('error %d' % code2) if code2 else ('program %r' % listing[:60])), case)
                        ok = False
                        break
                    res.count('program_read_by_' + kind)
                else:
                    res.count('special_program_names_reloaded')
        try:
            self.box.ex(b'NEW')
        except self.harness.Internal:
            pass
        self._cleanup(before)
        if rng.random() < 0.5:
            ok = self.special_bsave(rng, name, cls, data_code, accepted) and ok
        return ok

    # -- default-extension statements addressed through paths -------------------------------------------------
    def tree(self):
        out = set()
        for d, dirs, files in os.walk(self.dir):
            rel = os.path.relpath(d, self.dir)
            for n in dirs + files:
                out.add(os.path.normpath(os.path.join(rel, n)))
        return out

    def _cleanup_tree(self, before):
        try:
            self.box.ex(b'CLOSE')
        except self.harness.Internal:
            pass
        for e in sorted(self.tree() - before, reverse=True):
            p = os.path.join(self.dir, e)
            try:
                if os.path.isdir(p):
                    shutil.rmtree(p)
                else:
                    os.remove(p)
            except OSError:
                pass

    def path_program(self, rng, cwd, prefix, base):
        """
        SAVE [,A|,P] / LIST ,file and LOAD / RUN / CHAIN / MERGE (and BSAVE / BLOAD) of `prefix + base`.
        Reference = the data-file statement with the same path: where OPEN <prefix+base> FOR OUTPUT puts host
        file D/H, the program statements must put D/H (base has a dot) or D/H.BAS (no dot), and read it back
        under re-capitalised spellings of the whole path and through every other prefix by which
        OPEN <prefix'+H.BAS> FOR INPUT finds it.
        """
        res = self.res
        spec = prefix + base
        case = {'op': 'path-program', 'cwd': cwd, 'path': spec}
        res.case(('path-program', cwd, spec))
        before = self.tree()
        ok = True
        try:
            if cwd:
                c0, _ = self.ex(b'CHDIR N$', case, N=cwd)
                if c0 != 0:
                    return True
            # reference: data file through the same path
            c = self.content()
            dcode, out = self.ex(b'OPEN N$ FOR OUTPUT AS 1:PRINT#1,C$:CLOSE', case, N=spec, C=c)
            if dcode is None:
                return False
            dnew = self.tree() - before
            self._cleanup_tree(before)
            res.count('path_specs_tried')
            if dcode == 0 and len(dnew) != 1:
                return True
            want = None
            if dcode == 0:
                dfile = sorted(dnew)[0]
                ddir, h = os.path.split(dfile)
                dotted = b'.' in base
                want = os.path.normpath(os.path.join(ddir, h if dotted else h + '.BAS'))
            how = rng.choice(['save', 'save', 'save_a', 'save_p', 'list'])
            self.serial += 1
            marker = b'VFMARK%d' % self.serial
            try:
                self.box.ex(b'NEW')
                self.box.ex(b'10 REM ' + marker)
                self.box.ex(b'20 A=%d' % self.serial)
            except self.harness.Internal as e:
                res.violation(e.key, str(e), case)
                return False
            stmt = {'save': b'SAVE N$', 'save_a': b'SAVE N$,A', 'save_p': b'SAVE N$,P', 'list': b'LIST ,N$'}[how]
            case['statement'] = stmt
            code, out = self.ex(stmt, case, N=spec)
            if code is None:
                return False
            new = self.tree() - before
            if dcode != 0:
                if code == 0 or new:
                    res.violation('defext:name-rejected-as-data-file-accepted-as-program-file',
                                  'cwd %r: OPEN %r FOR OUTPUT gave error %d, but %s gave %s and created %r' % (
                                      cwd, spec, dcode, stmt.decode(), 'no error' if code == 0 else 'error %d' % code, sorted(new)), case)
                    ok = False
                else:
                    res.count('path_specs_rejected_like_data')
                return ok
            if code != 0:
                res.violation('defext:name-accepted-as-data-file-rejected-as-program-file',
                              'cwd %r: OPEN %r FOR OUTPUT created %r, but %s gives error %d' % (cwd, spec, dfile, stmt.decode(), code), case)
                return False
            if new != {want}:
                got = sorted(new)
                if not dotted and new == {os.path.normpath(dfile)}:
                    key = 'bas:extension-not-added-to-dotless-name'
                elif dotted and new == {os.path.normpath(dfile) + '.BAS'}:
                    key = 'bas:extension-added-to-dotted-name'
                elif len(new) == 1 and os.path.basename(got[0]) == os.path.basename(want):
                    key = 'defext:program-file-in-other-directory-than-data-file'
                else:
                    key = 'defext:program-file-mapped-to-other-host-name-than-data-file'
                res.violation(key, 'cwd %r: OPEN %r FOR OUTPUT created %r; %s with the same path created %r, expected %r' % (
                    cwd, spec, dfile, stmt.decode(), got, want), case)
                return False
            res.count('path_programs_saved')
            if b'.' in prefix:
                res.count('path_programs_saved_through_dotted_path')
            # read back: the same path re-capitalised, and every other prefix that reaches the file as a data file
            full = os.path.basename(want).encode('ascii')
            readers = ['load', 'run', 'chain'] + (['merge'] if how in ('save_a', 'list') else [])
            spellings = [(spec, 'same-path'), (recap(rng, spec), 'recap')]
            others = [q for q in rng.sample(PATH_PREFIXES, 6) + [b''] if q != prefix]
            for q in others:
                c2, _ = self.ex(b'OPEN N$ FOR INPUT AS 1', case, N=q + full)
                if c2 == 0:
                    spellings.append((recap(rng, q + base), 'other-path'))
            for sp, what in spellings:
                kind = rng.choice(readers)
                try:
                    self.box.ex(b'NEW')
                except self.harness.Internal as e:
                    res.violation(e.key, str(e), case)
                    return False
                code2, out2 = self.ex(self.LOADERS[kind], case, N=sp)
                if code2 is None:
                    return False
                listing = b''
                if code2 == 0 and how != 'save_p':
                    try:
                        listing = self.box.ex(b'LIST')
                    except self.harness.Internal as e:
                        res.violation(e.key, str(e), case)
                        return False
                if code2 != 0 or (how != 'save_p' and marker not in listing):
                    res.violation('defext:program-saved-through-path-not-read-back-by-%s' % what,
                                  'cwd %r: %s %r created %r, but %s %r gives %s' % (
                                      cwd, stmt.decode(), spec, want, kind.upper(), sp,
                                      ('error %d' % code2) if code2 else ('program %r' % listing[:60])), case)
                    ok = False
                    break
                res.count('path_programs_read_back')
                if what == 'other-path':
                    res.count('path_programs_read_through_other_path')
            try:
                self.box.ex(b'NEW')
            except self.harness.Internal:
                pass
            # BSAVE / BLOAD through the same path: same directory, same extension rule as for a bare name
            if ok and rng.random() < 0.5:
                self._cleanup_tree(before)
                t0 = self.tree()
                self.serial += 1
                bare = b'ZB%d' % self.serial
                cb, _ = self.ex(b'DEF SEG=&HB800:BSAVE N$,0,8', case, N=bare)
                bn = self.tree() - t0
                self._cleanup_tree(before)
                if cb == 0 and len(bn) == 1:
                    ext = os.path.basename(sorted(bn)[0])[len(bare):]
                    wantb = os.path.normpath(os.path.join(ddir, h if dotted else h + ext))
                    cb2, _ = self.ex(b'DEF SEG=&HB800:BSAVE N$,0,8', case, N=spec)
                    bn2 = self.tree() - before
                    if cb2 != 0 or bn2 != {wantb}:
                        res.violation('defext:bsave-through-path-differs-from-bare-name',
                                      'cwd %r: BSAVE %r created %r with a bare name, but BSAVE %r gave %s and created %r, expected %r' % (
                                          cwd, bare, sorted(bn), spec, 'error %d' % cb2 if cb2 else 'no error', sorted(bn2), wantb), case)
                        ok = False
                    else:
                        cb3, _ = self.ex(b'DEF SEG=&HB800:BLOAD N$,0', case, N=recap(rng, spec))
                        if cb3 != 0:
                            res.violation('defext:bsaved-through-path-not-bloaded', 'cwd %r: BSAVE %r created %r, BLOAD of a '
                                          're-capitalised spelling gives error %d' % (cwd, spec, wantb, cb3), case)
                            ok = False
                        else:
                            res.count('path_bsave_bload_ok')
            return ok
        finally:
            self._cleanup_tree(before)
            if cwd:
                self.ex(b'CHDIR N$', case, N=b'\\')

    def special_bsave(self, rng, name, cls, data_code, accepted):
        """BSAVE / BLOAD with the same raw name: accepted exactly when the data-file statement accepted it; the one
        file BSAVE creates (its extension is not pinned) is found again by BLOAD under re-capitalisations."""
        res = self.res
        before = self.host()
        case = {'op': 'special-bsave-' + cls, 'name': name}
        res.case(('special-bsave', cls, name))
        ok = True
        code, out = self.ex(b'DEF SEG=&HB800:BSAVE N$,0,8', case, N=name)
        if code is None:
            self._cleanup(before)
            return False
        new = self.host() - before
        if not accepted:
            if code == 0 or new:
                res.violation('defext:name-rejected-as-data-file-accepted-as-program-file',
                              'OPEN %r FOR OUTPUT gave error %d, but BSAVE %r gave %s and created %r' % (
                                  name, data_code, name, 'no error' if code == 0 else 'error %d' % code, sorted(new)), case)
                ok = False
        elif code != 0:
            res.violation('defext:name-accepted-as-data-file-rejected-as-program-file',
                          'OPEN %r FOR OUTPUT accepted the name, but BSAVE %r gives error %d' % (name, name, code), case)
            ok = False
        elif len(new) != 1:
            res.violation('special:%s-several-files-created' % cls, 'BSAVE %r left %r' % (name, sorted(new)), case)
            ok = False
        else:
            for sp in (name, recap(rng, name), up(name), name.lower()):
                code2, out2 = self.ex(b'DEF SEG=&HB800:BLOAD N$,0', case, N=sp)
                if code2 is None:
                    ok = False
                    break
                if code2 != 0:
                    res.violation('defext:%s-bsaved-file-not-bloaded-by-%s' % (cls, 'same-name' if sp == name else 'recap'),
                                  'BSAVE %r created %r, but BLOAD %r gives error %d' % (name, sorted(new), sp, code2), case)
                    ok = False
                    break
            else:
                res.count('special_bsave_bload_ok')
        self._cleanup(before)
        return ok

    def _cleanup(self, before):
        try:
            self.box.ex(b'CLOSE')
        except self.harness.Internal:
            pass
        for e in self.host() - before:
            p = os.path.join(self.dir, e)
            try:
                if os.path.isdir(p):
                    shutil.rmtree(p)
                else:
                    os.remove(p)
            except OSError:
                pass


# ---------------------------------------------------------------------------------------
# directed tables

def directed_legal():
    names = [b'A', b'z', b'7', b'AB.C', b'a.b', b'12345678', b'12345678.123', b'abcdefgh.ijk', b'x.123', b'MiXeD.cAs',
             b'lower', b'UPPER2.TXT', b'1.1', b'aaaaaaaa.aaa', b"!#$%&'()", b'-@^_`{}~', b'{}.~', b'A B', b'A B.C D',
             b'a  b.c d', b'readme.md', b'Prog', b'prog.bas', b'PROG2.BAS', b'bas', b'x.bas', b'B.A', b'q.BA',
             b'CONS', b'NULL.TXT', b'AUX1', b'PRN.', b'xCON', b'a.con']
    names = [n for n in names if is_pinned_legal(n)]
    # every allowable character inside a trunk and inside an extension
    for c in sorted(ALLOWED):
        ch = bytes([c])
        names.append(b'a' + ch + b'B')
        names.append(b'n.' + b'x' + ch + b'Y')
    out, seen = [], set()
    for n in names:
        if is_pinned_legal(n) and up(n) not in seen:
            seen.add(up(n))
            out.append(n)
    return out


def directed_illegal():
    out = []
    for c in FORBIDDEN + CONTROL_NONWS:
        ch = bytes([c])
        why = 'forbidden-char' if c in FORBIDDEN else 'control-char'
        out.append((b'a' + ch + b'B', why))
        out.append((b'n.x' + ch, why) if False else (b'n.' + ch + b'Y', why))
        out.append((ch + b'Z', why))
    for n in (b'A.B.C', b'a..b', b'ab.c.d', b'a.b.c.d', b'x..y.z', b'long.na.me'):
        out.append((n, 'multi-dot'))
    # a blank next to the dot: end of the trunk / start of the extension (name otherwise legal 8.3)
    for n in (b'TRAIL .TXT', b'trail .txt', b'FOO .TXT', b'a .b', b'A. XT', b'x. y', b'a. b', b'A . B', b'a  .b', b'a.  b',
              b'ABCDEFG .TXT', b'1234567 .123', b'12345678. 12', b'Q .~', b'{ . }', b'prog .bas', b'PROG. BA'):
        out.append((n, 'dot-adjacent-blank'))
    return out


def directed_special():
    out = []
    for n in (b'FOO.', b'foo.', b'Trail..', b'a...'):
        out.append((n, 'trailing-dot'))
    for n in (b'FOO ', b'foo.tx ', b'bar  ', b'foo.t  ', b'FOO\t', b'foo\r', b'foo.x\n', b'a.b\x0b', b'a\x0c'):
        out.append((n, 'trailing-blank'))
    for n in (b' FOO', b'  a.b', b'\tfoo', b' a.b '):
        out.append((n, 'leading-blank'))
    for n in (b'.TXT', b'.a', b'.', b'..', b'...'):
        out.append((n, 'empty-trunk'))
    for n in (b'CON', b'con', b'Con', b'NUL', b'nul', b'PRN', b'prn', b'AUX', b'aux', b'CON.TXT', b'nul.x', b'LPT1', b'COM1'):
        out.append((n, 'device-name'))
    for n in (b'LongFileName', b'longfilename.text', b'A.TEXT', b'NINECHARS', b'ninechars.x', b'a.b123', b'x' * 40, b'y' * 250,
              b'abcdefghi.jklm', b'12345678.1234', b'a.bcd.e', b'G7.kCD.c', b'ABCDEFG HI.TXT', b'abcdefg  x.y', b'A.BC D', b'a.b  cd',
              b'name.ext.more.dots'):
        out.append((n, 'overlong'))
    for n in (b'caf\x82', b'a\x7fb', b'\xff', b'na\xefve.t\xe9', b'\x80\x9a.\xa5'):
        out.append((n, 'high-byte'))
    for n in (b'a\x00b', b'\x00', b'a.\x00'):
        out.append((n, 'nul-byte'))
    out.append((b'', 'empty'))
    return out


ILLEGAL_OPS = ['open_o', 'open_i', 'open_a', 'open_r', 'save', 'load', 'name_new', 'name_old', 'mkdir', 'kill', 'files']


# ---------------------------------------------------------------------------------------
# plan / run

def plan(tier, seed):
    shards = [{'kind': 'directed_legal', 'part': i, 'parts': 3} for i in range(3)]
    shards += [{'kind': 'directed_illegal'}, {'kind': 'directed_special'}, {'kind': 'directed_files'}]
    shards += [{'kind': 'directed_paths', 'part': i, 'parts': 4} for i in range(4)]
    if tier == 'quick':
        for i in range(15):
            shards.append({'kind': 'history', 'part': i, 'n': 64})
        for i in range(2):
            shards.append({'kind': 'random_illegal', 'part': i, 'n': 1500})
        for i in range(3):
            shards.append({'kind': 'random_special', 'part': i, 'n': 380})
        for i in range(3):
            shards.append({'kind': 'random_paths', 'part': i, 'n': 200})
    else:
        for i in range(32):
            shards.append({'kind': 'history', 'part': i, 'n': 1000})
        for i in range(6):
            shards.append({'kind': 'random_illegal', 'part': i, 'n': 15000})
        for i in range(8):
            shards.append({'kind': 'random_special', 'part': i, 'n': 7500})
        for i in range(8):
            shards.append({'kind': 'random_paths', 'part': i, 'n': 5000})
    return shards


def run_shard(spec, res):
    kind = spec['kind']
    rng = random.Random('%s:C28:%s:%s' % (spec['seed'], kind, spec.get('part', 0)))
    if kind == 'directed_legal':
        return _directed_legal(spec, res)
    if kind == 'directed_illegal':
        return _directed_illegal(spec, res)
    if kind == 'directed_special':
        return _directed_special(spec, res)
    if kind == 'directed_files':
        return _directed_files(spec, res)
    if kind == 'directed_paths':
        return _directed_paths(spec, res)
    if kind == 'random_paths':
        return _random_paths(spec, rng, res)
    if kind == 'history':
        return _history(spec, rng, res)
    if kind == 'random_illegal':
        return _random_illegal(spec, rng, res)
    if kind == 'random_special':
        return _random_special(spec, rng, res)
    raise ValueError(kind)


def _life_cycle(mt, rng, name, res):
    """create -> open / list / append under re-capitalisations -> rename -> kill; and as a program."""
    ok = mt.create(rng, name, rng.choice('OOAR'))
    host = up(name).decode('ascii')
    if ok:
        for _ in range(2):
            ok = ok and mt.read(rng, host)
        ok = ok and mt.files_one(rng, host)
        if ok and rng.random() < 0.7:
            ok = mt.append(rng, host) and mt.read(rng, host)
        if ok:
            new = gen_legal(rng, mt.taken())
            ok = mt.rename(rng, host, new)
            if ok:
                host = up(new).decode('ascii')
                ok = mt.read(rng, host) and mt.files_one(rng, host)
        if ok:
            mt.kill(rng, host)
    if host in mt.model:
        mt.model.pop(host)
        try:
            os.remove(os.path.join(mt.dir, host))
        except OSError:
            pass
    # the same name as a program file
    if up(name) in mt.taken() or up(name) + b'.BAS' in mt.taken():
        return
    if mt.save(rng, name, rng.choice([b'', b'', b',A', b',P'])):
        host = (up(name) + (b'' if b'.' in name else b'.BAS')).decode('ascii')
        ok = mt.load(rng, host) and mt.load(rng, host) and mt.files_one(rng, host)
        if ok:
            mt.kill(rng, host)
        if host in mt.model:
            mt.model.pop(host)
            try:
                os.remove(os.path.join(mt.dir, host))
            except OSError:
                pass


def _directed_legal(spec, res):
    rng = random.Random('C28:directed_legal:%d' % spec['part'])     # seed-independent
    names = directed_legal()[spec['part']::spec['parts']]
    with Mount(res) as mt:
        taken = mt.taken()
        for i, name in enumerate(names):
            if up(name) in taken or up(name) + b'.BAS' in taken:
                continue
            _life_cycle(mt, rng, name, res)
            if i < 2:
                res.sample({'kind': 'directed_legal', 'name': name, 'host_name_expected': up(name),
                            'as_program': up(name) + (b'' if b'.' in name else b'.BAS')})
        mt.files_all(rng)


def _directed_illegal(spec, res):
    rng = random.Random('C28:directed_illegal')
    with Mount(res) as mt:
        for name, why in directed_illegal():
            for op in ILLEGAL_OPS:
                mt.illegal(rng, name, why, op)
        res.sample({'kind': 'directed_illegal', 'names': [n for n, _ in directed_illegal()[:6]], 'ops': ILLEGAL_OPS})


def _directed_special(spec, res):
    rng = random.Random('C28:directed_special')
    with Mount(res) as mt:
        for name, cls in directed_special():
            mt.special(rng, name, cls)
            mt.special(rng, recap(rng, name), cls)
        res.sample({'kind': 'directed_special', 'classes': sorted(set(c for _, c in directed_special()))})


def _directed_files(spec, res):
    rng = random.Random('C28:directed_files')
    # the fixed pre-existing set alone, then together with BASIC-created neighbours
    with Mount(res) as mt:
        mt.files_all(None)
        mt.files_all(rng)
        for name in (b'mixedca2.txt', b'LOWER.DA', b'upper', b'NOEXT.X', b'with sp.x', b'longfile.tex', b'x.too', b'a-b.txt'):
            mt.create(rng, name, 'O')
        mt.save(rng, b'noext2', b'')
        mt.save(rng, b'Saved.Prg', b',A')
        mt.files_all(rng)
        res.sample({'kind': 'directed_files', 'host_directory': sorted(mt.host())})
    # host files in every capitalisation pattern of one name, one at a time
    for hostname in ('readme.txt', 'README.TXT', 'ReadMe.Txt', 'rEADME.tXT', 'readme', 'ReadMe', 'a', 'A.b', 'a b.c d',
                     '12345678.abc', 'abcdefgh.IJK', "it's.ok", '(x).{y}'):
        with Mount(res, fixed=False) as mt:
            mt._plant(hostname, False)
            mt.files_all(rng)
            # and the life cycle on a pre-existing mixed-case host file: open, list, append, kill
            mt.model[hostname] = {'lines': [mt.pre.pop(hostname)], 'prog': None, 'protected': False}
            if mt.read(rng, hostname) and mt.files_one(rng, hostname):
                mt.append(rng, hostname)
                mt.read(rng, hostname)
                mt.kill(rng, hostname)


def _directed_paths(spec, res):
    """Every prefix x every cwd x dot-less / dotted / padded base names (seed-independent)."""
    rng = random.Random('C28:directed_paths:%d' % spec['part'])
    combos = [(cwd, pre) for cwd in PATH_CWDS for pre in PATH_PREFIXES][spec['part']::spec['parts']]
    with Mount(res) as mt:
        n = 0
        for cwd, pre in combos:
            for base in (b'P', b'Prog%d' % n, b'p%d.x' % n, b'q%d.bas' % n, b'Pad%d  ' % n):
                mt.path_program(rng, cwd, pre, base)
                n += 1
        mt.check_host('after the path table', {'op': 'end'})
        res.sample({'kind': 'directed_paths', 'prefixes': PATH_PREFIXES[:8], 'cwds': PATH_CWDS})


def _random_paths(spec, rng, res):
    n = spec['n']
    done = 0
    while done < n:
        with Mount(res, rng, n_random_pre=2) as mt:
            for _ in range(120):
                pre = rng.choice(PATH_PREFIXES) if rng.random() < 0.4 else gen_prefix(rng)
                r = rng.random()
                taken = mt.taken()
                if r < 0.6:
                    base = gen_legal(rng, taken, dotted=False)
                elif r < 0.85:
                    base = gen_legal(rng, taken, dotted=True)
                else:
                    base = gen_legal(rng, taken, dotted=False) + rng.choice([b' ', b'  ', b'\t', b'.'])
                mt.path_program(rng, rng.choice(PATH_CWDS), pre, base)
                done += 1
                if done >= n:
                    break
            mt.check_host('after the path cases', {'op': 'end'})
            if done <= 120:
                res.sample({'kind': 'random_paths', 'example': pre + base})


def _history(spec, rng, res):
    n = spec['n']
    for h in range(n):
        with Mount(res, rng, n_random_pre=rng.choice([0, 1, 2, 4, 6]), fixed=rng.random() < 0.6) as mt:
            nops = rng.randint(10, 30)
            for k in range(nops):
                alive = sorted(mt.model)
                r = rng.random()
                if not alive or r < 0.22:
                    name = gen_legal(rng, mt.taken())
                    if rng.random() < 0.3:
                        ok = mt.save(rng, name, rng.choice([b'', b'', b',A', b',P']))
                    else:
                        ok = mt.create(rng, name, rng.choice('OOOA'))
                    if h < 1 and k < 2:
                        res.sample({'kind': 'history', 'op': 'create', 'name': name, 'host_directory_after': sorted(mt.host())})
                elif r < 0.45:
                    ok = mt.read(rng, rng.choice(alive))
                elif r < 0.55:
                    ok = mt.append(rng, rng.choice(alive))
                elif r < 0.67:
                    ok = mt.files_one(rng, rng.choice(alive))
                elif r < 0.73:
                    ok = mt.files_all(rng, reopen=rng.random() < 0.5)
                elif r < 0.85:
                    host = rng.choice(alive)
                    # a renamed program keeps an explicit extension so that it stays loadable by full name
                    new = gen_legal(rng, mt.taken(), dotted=True if mt.model[host]['prog'] else None)
                    ok = mt.rename(rng, host, new)
                elif r < 0.93:
                    ok = mt.kill(rng, rng.choice(alive))
                elif r < 0.96:
                    progs = [h for h in alive if mt.model[h]['prog'] is not None]
                    ok = mt.resave(rng, rng.choice(progs)) if progs else True
                else:
                    name, why = gen_illegal(rng)
                    ok = mt.illegal(rng, name, why, rng.choice(ILLEGAL_OPS))
            mt.files_all(rng)
            mt.check_host('at the end of the history', {'op': 'end'})


def _random_illegal(spec, rng, res):
    n = spec['n']
    done = 0
    while done < n:
        with Mount(res, rng, n_random_pre=2) as mt:
            for _ in range(300):
                name, why = gen_illegal(rng)
                mt.illegal(rng, name, why, rng.choice(ILLEGAL_OPS))
                done += 1
                if done >= n:
                    break
            if done <= 300:
                res.sample({'kind': 'random_illegal', 'example': name, 'why': why})


def gen_special(rng, taken=()):
    base = gen_legal(rng, taken)
    r = rng.randrange(9)
    if r == 0:
        return base + b'.' * rng.randint(1, 3) if b'.' not in base else base + b'.', 'trailing-dot'
    if r == 1:
        return base + bytes(rng.choice(b' \t\r\n\x0b\x0c ') for _ in range(rng.randint(1, 3))), 'trailing-blank'
    if r == 2:
        # over-long trunk / extension whose clipping to 8.3 leaves a blank at the cut
        t, e, nd = split83(base)
        if rng.random() < 0.5:
            return (t + b'ABCDEFG')[:7] + b' ' + bytes(rng.choice(LETTERS) for _ in range(rng.randint(1, 4))) + b'.' + (e or b'x'), 'overlong'
        return t + b'.' + (e + b'XY')[:2] + b' ' + bytes(rng.choice(LETTERS) for _ in range(rng.randint(1, 3))), 'overlong'
    if r == 3:
        return bytes(rng.choice(b' \t ') for _ in range(rng.randint(1, 2))) + base, 'leading-blank'
    if r == 4:
        t, e, nd = split83(base)
        return b'.' + (e or t[:3]), 'empty-trunk'
    if r == 5:
        d = rng.choice(DEVICE_NAMES)
        return recap(rng, d) + rng.choice([b'', b'', b'', b'.x', b'.TXT']), 'device-name'
    if r == 6:
        t, e, nd = split83(base)
        if rng.random() < 0.5:
            t = t + bytes(rng.choice(LETTERS) for _ in range(9 - len(t) + rng.randint(0, 6)))
        else:
            e = (e + b'xyzw' + bytes(rng.choice(LETTERS) for _ in range(rng.randint(0, 4))))
        return t + b'.' + e if e else t, 'overlong'
    if r == 7:
        b = bytearray(base)
        b[rng.randrange(len(b))] = rng.randrange(0x7f, 0x100)
        if b'.' not in bytes(b) and b'.' in base:
            b = bytearray(base)
            b[0] = rng.randrange(0x7f, 0x100)
        return bytes(b), 'high-byte'
    b = bytearray(base)
    b[rng.randrange(len(b))] = 0
    return bytes(b), 'nul-byte'


def _random_special(spec, rng, res):
    n = spec['n']
    done = 0
    while done < n:
        with Mount(res, rng, n_random_pre=2) as mt:
            for _ in range(300):
                name, cls = gen_special(rng, mt.taken())
                mt.special(rng, name, cls)
                done += 1
                if done >= n:
                    break
            if done <= 300:
                res.sample({'kind': 'random_special', 'example': name, 'class': cls})
